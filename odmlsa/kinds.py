"""Kind (lightweight type) inference and call resolution.

Flow-insensitive per function, refined at use sites by dominating isinstance tests;
interprocedural through a global fixpoint over field kinds, return kinds and
parameter kinds.  Kinds are strings:
    repo classes by short name ('BaseSection', 'Validation', ...),
    'SmartList[BaseSection]' / 'SmartList[BaseProperty]',
    'fmt:Section' ... (format singletons), 'class:<Name>', 'func:<qualname>',
    'module:<name>', builtins ('list', 'dict', 'str', 'int', 'float', 'bool', 'None',
    'tuple', 'set', 'bytes'), 'ext' (object of an external library), '?' (unknown).
"""
import ast

from .facts import MODEL_CLASSES, trivial_getter_field
from .model import ClassInfo, FuncInfo, ModuleInfo, collect_imports, unparse, walk_no_nested

UNKNOWN = "?"
LIST_MUTATORS = {"append", "extend", "insert", "remove", "pop", "clear", "sort", "reverse",
                 "__setitem__", "__delitem__", "__iadd__"}
DICT_MUTATORS = {"update", "setdefault", "pop", "popitem", "clear", "__setitem__", "__delitem__"}
SET_MUTATORS = {"add", "discard", "remove", "update", "clear", "pop"}
BUILTIN_RET = {"list": "list", "dict": "dict", "set": "set", "tuple": "tuple", "str": "str", "int": "int",
               "float": "float", "bool": "bool", "len": "int", "isinstance": "bool", "hasattr": "bool",
               "sorted": "list", "repr": "str", "type": "ext", "print": "None", "id": "int", "bytes": "bytes",
               "enumerate": "list", "zip": "list", "map": "list", "filter": "list", "range": "list",
               "min": UNKNOWN, "max": UNKNOWN, "open": "file", "iter": UNKNOWN, "next": UNKNOWN,
               "callable": "bool", "any": "bool", "all": "bool", "sum": "int", "abs": "int"}
STR_METHODS_RET = {"strip": "str", "lower": "str", "upper": "str", "split": "list", "join": "str", "format": "str",
                   "replace": "str", "startswith": "bool", "endswith": "bool", "isdigit": "bool", "find": "int",
                   "count": "int", "capitalize": "str", "encode": "bytes", "decode": "str", "lstrip": "str",
                   "rstrip": "str", "splitlines": "list", "translate": "str"}
CHILD_LIST_FIELDS = {"_sections": "SmartList[BaseSection]", "_props": "SmartList[BaseProperty]"}


def fs(*xs):
    return frozenset(xs)


class Kinds(object):
    def __init__(self, prog, param_table=None, return_table=None):
        self.p = prog
        self.param_table = param_table or {}
        if return_table is None:
            from .tables import RETURN_KINDS as return_table
        self.return_table = return_table
        self.field_kinds = {}
        self.ret_kinds = {}
        self.param_kinds = {}
        self.envs = {}
        self.local_imports = {}
        self._getter_fields = {}
        self.fmt_modules = None
        self._solving = True
        self.solve()
        self._solving = False

    def _bot(self):
        """no kind known: bottom while the fixpoint is being computed, unknown afterwards"""
        return set() if self._solving else set([UNKNOWN])

    # -------------------------------------------------------------- class helpers
    def class_by_kind(self, k):
        if k.startswith("SmartList"):
            return self.p.cls("SmartList")
        hits = [c for c in self.p.classes.values() if c.name == k and not c.module.name.endswith(".format")]
        if len(hits) == 1:
            return hits[0]
        return None

    def self_kinds(self, cls):
        out = set([cls.name])
        for s in cls.subclasses:
            out.add(s.name)
        if cls.name == "SmartList":
            return set(["SmartList[BaseSection]", "SmartList[BaseProperty]"])
        if cls.module.name.endswith(".format"):
            if cls.name == "Format":
                return set(["fmt:Document", "fmt:Section", "fmt:Property"])
            return set(["fmt:" + cls.name])
        # abstract helpers are not instantiated on their own
        if cls.name in ("Sectionable", "BaseObject"):
            out.discard(cls.name)
        return out

    def limports(self, f):
        if f.qualname not in self.local_imports:
            nodes = [n for n in ast.walk(f.node) if isinstance(n, (ast.Import, ast.ImportFrom))]
            self.local_imports[f.qualname] = collect_imports(f.module, nodes)
        return self.local_imports[f.qualname]

    # --------------------------------------------------------------------- solve
    def solve(self):
        funcs = self.p.all_functions()
        for f in funcs:
            self.ret_kinds[f.qualname] = _Frozen(self.return_table[f.short]) if f.short in self.return_table else set()
            for prm in f.params + f.kwonly + ([f.vararg] if f.vararg else []) + ([f.kwarg] if f.kwarg else []):
                self.param_kinds[(f.qualname, prm)] = set(self.param_table.get((f.short, prm), ()))
        kind_cls = {"odML": "BaseDocument", "section": "BaseSection", "property": "BaseProperty"}
        default, custom = self.registry()
        for kind, lst in default.items():
            for h in lst:
                if h.params and kind in kind_cls:
                    self.param_kinds[(h.qualname, h.params[0])].add(kind_cls[kind])
        for _, kind, h in custom:
            if h.params and kind in kind_cls:
                self.param_kinds[(h.qualname, h.params[0])].add(kind_cls[kind])
        for it in range(8):
            before = self._size()
            for f in funcs:
                self._solve_func(f)
            if self._size() == before:
                break
        self.iterations = it + 1

    def _size(self):
        return (sum(len(v) for v in self.field_kinds.values()) + sum(len(v) for v in self.ret_kinds.values())
                + sum(len(v) for v in self.param_kinds.values()) + sum(len(x) for e in self.envs.values() for x in e.values()))

    def _solve_func(self, f):
        env = self.envs.setdefault(f.qualname, {})
        # parameters
        for i, prm in enumerate(f.params):
            ks = set(self.param_kinds.get((f.qualname, prm), ()))
            if i == 0 and f.has_self and f.cls is not None:
                ks = self.self_kinds(f.cls) if f.kind != "classmethod" else set(["class:" + f.cls.name])
            # default values
            if prm in f.defaults:
                ks |= self.ek(f.defaults[prm], f, env)
            env.setdefault(prm, set()).update(ks)
        if f.vararg:
            env.setdefault(f.vararg, set()).add("tuple")
        if f.kwarg:
            env.setdefault(f.kwarg, set()).add("dict")
        self._visit_block(f.node.body, f, env, env)
        # isinstance narrowing feeds parameter kinds of public API (flow-insensitive union)
        for n in walk_no_nested(f.node):
            if isinstance(n, ast.Call) and isinstance(n.func, ast.Name) and n.func.id == "isinstance" and len(n.args) == 2 \
                    and isinstance(n.args[0], ast.Name) and n.args[0].id in f.params:
                if (f.short, n.args[0].id) in self.param_table:
                    continue
                for k in self._class_names_of(n.args[1], f):
                    env.setdefault(n.args[0].id, set()).add(k)
                    self.__dict__.setdefault("tested_kinds", {}).setdefault((f.qualname, n.args[0].id), set()).add(k)
        # the same test made by a private helper on the caller's parameter (`self._require_content_type(value)`)
        tested = self.__dict__.get("tested_kinds", {})
        for n in walk_no_nested(f.node):
            if not (isinstance(n, ast.Call) and n.args and any(isinstance(a, ast.Name) and a.id in f.params for a in n.args)):
                continue
            fn = n.func
            nm = fn.attr if isinstance(fn, ast.Attribute) else fn.id if isinstance(fn, ast.Name) else ""
            if not (nm.startswith("_") and not nm.startswith("__")):
                continue
            for tgt in self.resolve_call(n, f, env):
                if not isinstance(tgt, FuncInfo):
                    continue
                params = tgt.params[1:] if (tgt.has_self and not self._is_unbound_call(n, tgt, f, env)) else tgt.params
                for i, a in enumerate(n.args):
                    if isinstance(a, ast.Name) and a.id in f.params and i < len(params) and (f.short, a.id) not in self.param_table:
                        ks = tested.get((tgt.qualname, params[i]), ())
                        if ks:
                            env.setdefault(a.id, set()).update(ks)
                            tested.setdefault((f.qualname, a.id), set()).update(ks)

    def _visit_block(self, stmts, f, env, view):
        """walk statements; `view` is env overlaid with isinstance narrowings valid in this block."""
        for st in stmts:
            if isinstance(st, (ast.FunctionDef, ast.AsyncFunctionDef, ast.ClassDef)):
                continue
            if isinstance(st, ast.If):
                self._visit_exprs([st.test], f, env, view)
                tview, fview = self._narrow_views(st.test, f, env, view)
                self._visit_block(st.body, f, env, tview)
                self._visit_block(st.orelse, f, env, fview)
                continue
            if isinstance(st, (ast.For, ast.AsyncFor)):
                self._visit_exprs([st.iter], f, env, view)
                self._bind(st.target, self.elem_kinds(st.iter, f, view), None, f, env, view)
                self._visit_block(st.body, f, env, view)
                self._visit_block(st.orelse, f, env, view)
                continue
            if isinstance(st, ast.While):
                self._visit_exprs([st.test], f, env, view)
                self._visit_block(st.body, f, env, view)
                self._visit_block(st.orelse, f, env, view)
                continue
            if isinstance(st, ast.Try):
                self._visit_block(st.body, f, env, view)
                for h in st.handlers:
                    if h.name:
                        env.setdefault(h.name, set()).add("exc")
                    self._visit_block(h.body, f, env, view)
                self._visit_block(st.orelse, f, env, view)
                self._visit_block(st.finalbody, f, env, view)
                continue
            if isinstance(st, (ast.With, ast.AsyncWith)):
                for item in st.items:
                    self._visit_exprs([item.context_expr], f, env, view)
                    if item.optional_vars is not None:
                        self._bind(item.optional_vars, self.ek(item.context_expr, f, view), None, f, env, view)
                self._visit_block(st.body, f, env, view)
                continue
            if isinstance(st, ast.Assign):
                self._visit_exprs([st.value], f, env, view)
                ks = self.ek(st.value, f, view)
                for t in st.targets:
                    self._bind(t, ks, st.value, f, env, view)
            elif isinstance(st, ast.AnnAssign) and st.value is not None:
                self._visit_exprs([st.value], f, env, view)
                self._bind(st.target, self.ek(st.value, f, view), st.value, f, env, view)
            elif isinstance(st, ast.AugAssign):
                self._visit_exprs([st.value], f, env, view)
                if isinstance(st.target, ast.Name):
                    cur = env.setdefault(st.target.id, set())
                    if not cur or cur <= set(["None", UNKNOWN]):
                        cur.update(self.ek(st.value, f, view))     # x += v keeps the kind of x (list, str, int)
            elif isinstance(st, ast.Return):
                if st.value is not None:
                    self._visit_exprs([st.value], f, env, view)
                    self.ret_kinds[f.qualname] |= self.ek(st.value, f, view)
                else:
                    self.ret_kinds[f.qualname].add("None")
            else:
                self._visit_exprs([c for c in ast.iter_child_nodes(st) if isinstance(c, ast.expr)], f, env, view)

    def _visit_exprs(self, exprs, f, env, view):
        for e in exprs:
            for n in ast.walk(e):
                if isinstance(n, ast.Call):
                    self._propagate_args(n, f, view)
                elif isinstance(n, ast.comprehension):
                    self._bind(n.target, self.elem_kinds(n.iter, f, view), None, f, env, view)
                elif isinstance(n, ast.Yield):
                    self.ret_kinds[f.qualname].add("generator")
                    if n.value is not None:
                        self.ret_kinds.setdefault(f.qualname + "#yield", set()).update(self.ek(n.value, f, view))
                elif isinstance(n, ast.YieldFrom):
                    self.ret_kinds[f.qualname].add("generator")
                    self.ret_kinds.setdefault(f.qualname + "#yield", set()).update(self.elem_kinds(n.value, f, view))
                elif isinstance(n, ast.NamedExpr) and isinstance(n.target, ast.Name):
                    env.setdefault(n.target.id, set()).update(self.ek(n.value, f, view))

    def _narrow_views(self, test, f, env, view):
        tview, fview = view, view
        tn, fn = {}, {}
        for sub, pol in _isinstance_atoms(test, True):
            if isinstance(sub.args[0], ast.Name):
                names = self._class_names_of(sub.args[1], f)
                cur = set(view.get(sub.args[0].id, ()))
                if names:
                    if pol:
                        tn[sub.args[0].id] = (cur & names) if (cur & names) else set(names)
                    else:
                        tn[sub.args[0].id] = cur - names
        for sub, pol in _isinstance_atoms(test, False):
            if isinstance(sub.args[0], ast.Name):
                names = self._class_names_of(sub.args[1], f)
                cur = set(view.get(sub.args[0].id, ()))
                if names:
                    if pol:
                        fn[sub.args[0].id] = (cur & names) if (cur & names) else set(names)
                    else:
                        fn[sub.args[0].id] = cur - names
        if tn:
            tview = _View(view, tn)
        if fn:
            fview = _View(view, fn)
        return tview, fview

    def _class_names_of(self, expr, f):
        out = set()
        elts = expr.elts if isinstance(expr, ast.Tuple) else [expr]
        for e in elts:
            for k in self.ek(e, f, self.envs.get(f.qualname, {})):
                if k.startswith("class:"):
                    c = k[6:]
                    out.add(c)
                    cl = self.class_by_kind(c)
                    if cl is not None:
                        out |= set(s.name for s in cl.subclasses)
                        if cl.name in ("Sectionable", "BaseObject"):
                            out.discard(cl.name)
        return out

    def _bind(self, target, kinds, value, f, env, view=None):
        view = view if view is not None else env
        if isinstance(target, ast.Name):
            env.setdefault(target.id, set()).update(kinds)
        elif isinstance(target, (ast.Tuple, ast.List)):
            for e in target.elts:
                self._bind(e, set([UNKNOWN]), None, f, env, view)
        elif isinstance(target, ast.Attribute):
            for k in self.ek(target.value, f, view):
                cls = self.class_by_kind(k)
                if cls is None:
                    continue
                if cls.has_prop(target.attr):
                    s = cls.lookup_prop(target.attr, "setter")
                    if s is not None and len(s.params) > 1 and (s.short, s.params[1]) not in self.param_table:
                        self.param_kinds.setdefault((s.qualname, s.params[1]), set()).update(kinds)
                else:
                    self.field_kinds.setdefault((cls.name, target.attr), set()).update(kinds)
        elif isinstance(target, ast.Starred):
            self._bind(target.value, set(["list"]), None, f, env, view)

    def _propagate_args(self, call, f, env):
        if f is not None and f.qualname == "odml.validation.Validation.validate" and isinstance(call.func, ast.Name):
            return      # registry dispatch: parameter kinds of the handlers are seeded per registration kind
        for tgt in self.resolve_call(call, f, env):
            if not isinstance(tgt, FuncInfo):
                continue
            params = tgt.params[1:] if (tgt.has_self and not self._is_unbound_call(call, tgt, f, env)) else tgt.params
            if tgt.name == "__init__":
                params = tgt.params[1:]
            for i, a in enumerate(call.args):
                if isinstance(a, ast.Starred):
                    break
                if i < len(params) and (tgt.short, params[i]) not in self.param_table:
                    self.param_kinds.setdefault((tgt.qualname, params[i]), set()).update(self.ek(a, f, env))
            for kwd in call.keywords:
                if kwd.arg is not None and kwd.arg in tgt.params + tgt.kwonly and (tgt.short, kwd.arg) not in self.param_table:
                    self.param_kinds.setdefault((tgt.qualname, kwd.arg), set()).update(self.ek(kwd.value, f, env))

    def _is_unbound_call(self, call, tgt, f, env):
        """Class.method(self, ...) / property.fset(self, v): explicit self argument."""
        if isinstance(call.func, ast.Attribute):
            ks = self.ek(call.func.value, f, env)
            if any(k.startswith("class:") for k in ks):
                return True
            if call.func.attr in ("fset", "fget", "fdel"):
                return True
        return False

    # ------------------------------------------------------------ expression kinds
    def field(self, cls, name):
        """kinds stored in instance field `name` of class cls (along MRO and subclasses)."""
        out = set()
        for c in [cls] + [x for x in cls.mro[1:] if isinstance(x, ClassInfo)] + list(cls.subclasses):
            out |= self.field_kinds.get((c.name, name), set())
        if name in CHILD_LIST_FIELDS:
            out = set([CHILD_LIST_FIELDS[name]])
        return out

    def attr_kinds(self, k, attr, f):
        """kinds of <object of kind k>.attr"""
        if k.startswith("module:"):
            r = self.p.resolve_symbol(k[7:], attr)
            return self._symbol_kinds(r)
        if k.startswith("class:"):
            cls = self.class_by_kind(k[6:])
            if cls is None:
                return set([UNKNOWN])
            m = cls.lookup_method(attr)
            if m is not None:
                return set(["func:" + m.qualname])
            if cls.has_prop(attr):
                return set(["property:%s.%s" % (cls.name, attr)])
            node = cls.lookup_attr(attr)
            if node is not None:
                owner = [c for c in cls.mro if isinstance(c, ClassInfo) and attr in c.attrs][0]
                return self.ek(node, None, {}, mod=owner.module)
            return set([UNKNOWN])
        if k.startswith("fmt:"):
            cls = self.p.modules["odml.format"].classes.get(k[4:])
            if cls is not None:
                m = cls.lookup_method(attr)
                if m is not None:
                    return set(["bound:" + m.qualname + "@" + k])
                if cls.has_prop(attr):
                    return {"name": set(["str"]), "arguments": set(["list"]), "arguments_keys": set(["list"]),
                            "map_keys": set(["list"]), "rdf_map_keys": set(["list"]), "rdf_map_items": set(["list"]),
                            "rdf_type": set(["ext"])}.get(attr, set([UNKNOWN]))
                if attr == "__class__":
                    return set(["class:fmt"])
            return set([UNKNOWN])
        if k.startswith("property:") and attr in ("fset", "fget", "fdel"):
            cname, pname = k[9:].split(".")
            cls = self.class_by_kind(cname)
            which = {"fset": "setter", "fget": "getter", "fdel": "deleter"}[attr]
            acc = cls.lookup_prop(pname, which) if cls else None
            return set(["func:" + acc.qualname]) if acc else set([UNKNOWN])
        cls = self.class_by_kind(k)
        if cls is not None:
            if cls.has_prop(attr):
                g = cls.lookup_prop(attr, "getter")
                if g is None:
                    return set([UNKNOWN])
                t = trivial_getter_field(g)
                if isinstance(t, str):
                    if cls.has_prop(t):
                        return self.attr_kinds(k, t, f)
                    return self.field(cls, t) or self._bot()
                if isinstance(t, tuple) and t[0] == "copy":
                    return set(["list"])
                if isinstance(t, tuple) and t[0] == "const":
                    return set(["None"]) if t[1] is None else set([type(t[1]).__name__])
                return set(self.ret_kinds.get(g.qualname, ())) or self._bot()
            m = cls.lookup_method(attr)
            if m is not None:
                return set(["bound:" + m.qualname + "@" + k])
            fk = self.field(cls, attr)
            if fk:
                return fk
            node = cls.lookup_attr(attr)
            if node is not None:
                owner = [c for c in cls.mro if isinstance(c, ClassInfo) and attr in c.attrs][0]
                return self.ek(node, None, {}, mod=owner.module)
            if k.startswith("SmartList") or "list" in [str(b) for b in cls.external_bases()]:
                return set(["listmethod:%s@%s" % (attr, k)])
            if "dict" in [str(b) for b in cls.external_bases()]:
                return set(["dictmethod:%s@%s" % (attr, k)])
            if any(not isinstance(b, ClassInfo) and str(b) not in ("object",) for b in cls.mro):
                return set([UNKNOWN])     # attribute of an external base class
            return set()                  # no such attribute on this repository class: the access would raise
        if k.startswith("ext:"):
            return set(["ext:%s.%s" % (k[4:], attr)])
        if k == "ext":
            return set(["ext"])
        if k == "file":
            return set(["filemethod:" + attr])
        if k == "None":
            return set()      # attribute access on None raises; it contributes no value
        if k == "str" and attr in STR_METHODS_RET:
            return set(["strmethod:" + attr])
        if k == "list":
            return set(["listmethod:%s@list" % attr])
        if k == "dict":
            return set(["dictmethod:%s@dict" % attr])
        if k == "set":
            return set(["setmethod:%s@set" % attr])
        return set([UNKNOWN])

    def _symbol_kinds(self, r):
        if isinstance(r, ModuleInfo):
            return set(["module:" + r.name])
        if isinstance(r, ClassInfo):
            return set(["class:" + r.name])
        if isinstance(r, FuncInfo):
            return set(["func:" + r.qualname])
        if isinstance(r, tuple):
            if r[0] == "instance":
                if r[1].module.name.endswith(".format"):
                    return set(["fmt:" + r[1].name])
                return set([r[1].name])
            if r[0] == "external":
                return set(["ext:" + r[1]])
            if r[0] == "const":
                mod = self.p.modules[r[1]]
                vals = mod.assigns.get(r[2], [])
                out = set()
                for v in vals[-1:]:
                    out |= self.ek(v, None, {}, mod=mod)
                return out or self._bot()
        return set([UNKNOWN])

    def name_kinds(self, name, f, env, mod=None):
        if env is not None and name in env and env[name]:
            return set(env[name])
        if name in ("None",):
            return set(["None"])
        if name in ("True", "False"):
            return set(["bool"])
        mod = mod or (f.module if f is not None else None)
        if f is not None:
            li = self.limports(f)
            if name in li:
                return self._symbol_kinds(self.p.resolve_import(li[name]))
        if mod is not None:
            if name in mod.classes or name in mod.functions or name in mod.assigns:
                return self._symbol_kinds(self.p.resolve_symbol(mod.name, name))
            if name in mod.imports:
                return self._symbol_kinds(self.p.resolve_import(mod.imports[name]))
        if name in BUILTIN_RET or name in ("getattr", "setattr", "super", "Exception", "ValueError", "KeyError",
                                           "TypeError", "IndexError", "AttributeError", "RuntimeError", "object",
                                           "NotImplementedError", "FileNotFoundError", "OSError", "exit"):
            return set(["builtin:" + name])
        if env is not None and name in env:
            return set([UNKNOWN])
        return set([UNKNOWN])

    def ek(self, e, f, env, mod=None):
        """set of kinds of expression e"""
        if e is None:
            return set(["None"])
        if isinstance(e, ast.Constant):
            return set(["None"]) if e.value is None else set([type(e.value).__name__])
        if isinstance(e, ast.Name):
            return self.name_kinds(e.id, f, env, mod)
        if isinstance(e, (ast.List, ast.ListComp)):
            return set(["list"])
        if isinstance(e, (ast.Dict, ast.DictComp)):
            return set(["dict"])
        if isinstance(e, (ast.Set, ast.SetComp)):
            return set(["set"])
        if isinstance(e, ast.Tuple):
            return set(["tuple"])
        if isinstance(e, ast.GeneratorExp):
            return set(["generator"])
        if isinstance(e, ast.JoinedStr):
            return set(["str"])
        if isinstance(e, ast.Lambda):
            return set(["lambda"])
        if isinstance(e, ast.BoolOp):
            out = set()
            for v in e.values:
                out |= self.ek(v, f, env, mod)
            return out
        if isinstance(e, ast.IfExp):
            return self.ek(e.body, f, env, mod) | self.ek(e.orelse, f, env, mod)
        if isinstance(e, ast.UnaryOp):
            return set(["bool"]) if isinstance(e.op, ast.Not) else self.ek(e.operand, f, env, mod)
        if isinstance(e, ast.Compare):
            return set(["bool"])
        if isinstance(e, ast.BinOp):
            l = self.ek(e.left, f, env, mod)
            if isinstance(e.op, ast.Mod) and "str" in l:
                return set(["str"])
            return l | self.ek(e.right, f, env, mod)
        if isinstance(e, ast.Attribute):
            out = set()
            for k in self.ek(e.value, f, env, mod):
                out |= self.attr_kinds(k, e.attr, f)
            return out or self._bot()
        if isinstance(e, ast.Subscript):
            out = set()
            for k in self.ek(e.value, f, env, mod):
                if k.startswith("SmartList["):
                    if isinstance(e.slice, ast.Slice):
                        out.add("list")
                    else:
                        out.add(k[10:-1])
                elif self.class_by_kind(k) is not None and self.class_by_kind(k).lookup_method("__getitem__"):
                    out |= self.ret_kinds.get(self.class_by_kind(k).lookup_method("__getitem__").qualname, set())
                elif k == "str":
                    out.add("str")
                else:
                    out.add(UNKNOWN)
            return out or self._bot()
        if isinstance(e, ast.Call):
            return self.call_kinds(e, f, env, mod)
        if isinstance(e, ast.Starred):
            return set(["list"])
        if isinstance(e, (ast.Yield, ast.YieldFrom, ast.Await)):
            return set([UNKNOWN])
        return set([UNKNOWN])

    def elem_kinds(self, it, f, env):
        """kinds of the elements produced by iterating expression `it`."""
        out = set()
        for k in self.ek(it, f, env):
            if k.startswith("SmartList["):
                out.add(k[10:-1])
            elif k == "generator" and isinstance(it, ast.Call):
                for tgt in self.resolve_call(it, f, env):
                    if isinstance(tgt, FuncInfo):
                        out |= self.ret_kinds.get(tgt.qualname + "#yield", set())
            else:
                cls = self.class_by_kind(k)
                if cls is not None and cls.lookup_method("__iter__") is not None:
                    m = cls.lookup_method("__iter__")
                    out |= self.ret_kinds.get(m.qualname + "#yield", set())
                    if not self.ret_kinds.get(m.qualname + "#yield"):
                        # `return self._sections.__iter__()`
                        for n in ast.walk(m.node):
                            if isinstance(n, ast.Return) and isinstance(n.value, ast.Call) and \
                                    isinstance(n.value.func, ast.Attribute) and n.value.func.attr == "__iter__":
                                out |= self.elem_kinds(n.value.func.value, m, self.envs.get(m.qualname, {}))
                else:
                    out.add(UNKNOWN)
        if isinstance(it, ast.Call) and isinstance(it.func, ast.Name) and it.func.id in ("list", "sorted", "reversed", "tuple", "iter") and it.args:
            return self.elem_kinds(it.args[0], f, env)
        return out or self._bot()

    def call_kinds(self, call, f, env, mod=None):
        out = set()
        fk = self.ek(call.func, f, env, mod)
        for k in fk:
            if k.startswith("class:"):
                cname = k[6:]
                if cname == "SmartList" and call.args:
                    for a in self.ek(call.args[0], f, env, mod):
                        if a.startswith("class:"):
                            out.add("SmartList[%s]" % a[6:])
                    continue
                out.add(cname)
            elif k.startswith("func:"):
                qn = k[5:]
                fn = self.p.functions.get(qn)
                if qn in ("odml.Section", "odml.Document", "odml.Property"):
                    out.add(MODEL_CLASSES[qn.split(".")[1]])
                elif fn is not None and fn.name == "__init__":
                    out.add("None")
                else:
                    out |= self.ret_kinds.get(qn, set()) or self._bot()
            elif k.startswith("bound:"):
                qn, recv = k[6:].split("@")
                if qn == "odml.format.Format.create" and recv.startswith("fmt:"):
                    out.add(MODEL_CLASSES[recv[4:]])
                elif qn.endswith(".clone") or qn.endswith(".export_leaf"):
                    out.add(recv) if qn.endswith(".clone") else out.update(["BaseSection", "BaseDocument", "BaseProperty"])
                else:
                    out |= self.ret_kinds.get(qn, set()) or self._bot()
            elif k.startswith("builtin:"):
                b = k[8:]
                if b == "super":
                    out.add("super")
                elif b in ("list", "sorted", "tuple", "set") and call.args:
                    out.add(BUILTIN_RET[b])
                elif b == "getattr":
                    out.add(UNKNOWN)
                else:
                    out.add(BUILTIN_RET.get(b, UNKNOWN))
            elif k.startswith("strmethod:"):
                out.add(STR_METHODS_RET[k[10:]])
            elif k.startswith("listmethod:"):
                m, recv = k[11:].split("@")
                if m == "pop" and recv.startswith("SmartList["):
                    out.add(recv[10:-1])
                elif m in ("copy",):
                    out.add("list")
                elif m in ("index", "count"):
                    out.add("int")
                else:
                    out.add("None" if m in LIST_MUTATORS else UNKNOWN)
            elif k.startswith("dictmethod:"):
                m = k[11:].split("@")[0]
                out.add({"keys": "list", "values": "list", "items": "list", "copy": "dict"}.get(m, UNKNOWN))
            elif k.startswith("setmethod:"):
                out.add("None")
            elif k.startswith("ext:"):
                name = k[4:]
                if name == "copy.copy" and call.args:
                    out |= self.ek(call.args[0], f, env, mod)
                elif name in ("copy.deepcopy",) and call.args:
                    out |= self.ek(call.args[0], f, env, mod)
                else:
                    out.add("ext")
            else:
                out.add(UNKNOWN)
        # super(C, self).m(...)
        if isinstance(call.func, ast.Attribute) and isinstance(call.func.value, ast.Call) and \
                isinstance(call.func.value.func, ast.Name) and call.func.value.func.id == "super":
            out.discard(UNKNOWN)
            for tgt in self.resolve_call(call, f, env):
                if isinstance(tgt, FuncInfo):
                    if tgt.name == "clone" and f is not None and f.cls is not None:
                        out |= self.self_kinds(f.cls)
                    else:
                        out |= self.ret_kinds.get(tgt.qualname, set())
            if not out:
                out.add(UNKNOWN)
        return out or self._bot()

    # -------------------------------------------------------------- call resolution
    def narrowed(self, expr, f, env, conds):
        """kinds of expr at a program point where `conds` [(test, edge_kind, node)] hold."""
        ks = set(self.ek(expr, f, env))
        txt = unparse(expr)
        for test, pol, _ in conds or ():
            if pol not in ("true", "false"):
                continue
            for sub, spol in _isinstance_atoms(test, pol == "true"):
                if unparse(sub.args[0]) != txt:
                    continue
                names = self._class_names_of(sub.args[1], f)
                if not names:
                    continue
                if spol:
                    ks = (ks & names) if (ks & names) else set(names) if (UNKNOWN in ks or not ks) else (ks & names)
                else:
                    ks = ks - names
        return ks

    def resolve_call(self, call, f, env=None, conds=None):
        """targets of a call: FuncInfo | ('builtin', name) | ('ext', dotted) | ('listop', method, recv_kind)
        | ('dictop', ...) | ('setop', ...) | ('strop', m) | ('ctor', clsname) | ('unresolved', text)"""
        if env is None and f is not None:
            env = self.envs.get(f.qualname, {})
        out = []
        fn = call.func
        refl = self._reflective(call, f)
        if refl is not None:
            return refl
        # super(C, self).m(...)
        if isinstance(fn, ast.Attribute) and isinstance(fn.value, ast.Call) and isinstance(fn.value.func, ast.Name) \
                and fn.value.func.id == "super":
            start = f.cls if f is not None else None
            if fn.value.args:
                ks = self.ek(fn.value.args[0], f, env)
                for k in ks:
                    if k.startswith("class:"):
                        start = self.class_by_kind(k[6:]) or start
            if start is None:
                return [("unresolved", unparse(fn))]
            # the MRO continuation depends on the dynamic class of self
            dyn = [f.cls] + list(f.cls.subclasses) if f is not None and f.cls is not None else [start]
            for d in dyn:
                mro = [c for c in d.mro]
                if start in mro:
                    for c in mro[mro.index(start) + 1:]:
                        if isinstance(c, ClassInfo):
                            if fn.attr in c.methods:
                                if c.methods[fn.attr] not in out:
                                    out.append(c.methods[fn.attr])
                                break
                        else:
                            t = ("listop", fn.attr, "super") if str(c) == "list" else \
                                ("dictop", fn.attr, "super") if str(c) == "dict" else ("builtin", "%s.%s" % (c, fn.attr))
                            if t not in out:
                                out.append(t)
                            break
            return out or [("unresolved", unparse(fn))]
        if isinstance(fn, ast.Attribute):
            recv_kinds = self.narrowed(fn.value, f, env, conds) if conds else self.ek(fn.value, f, env)
            for k in recv_kinds:
                for ak in self.attr_kinds(k, fn.attr, f):
                    self._target_of_kind(ak, out, fn, call, f, env)
            if out:
                return _uniq(out)
            # name-based fallback for distinctive method names
            cands = [c.methods[fn.attr] for c in self.p.classes.values() if fn.attr in c.methods]
            generic = fn.attr in LIST_MUTATORS | DICT_MUTATORS | SET_MUTATORS | set(STR_METHODS_RET) | \
                {"get", "items", "keys", "values", "copy", "index", "count", "write", "read", "close", "format", "find",
                 "load", "parse", "add", "query", "serialize", "set", "iter", "getparent", "getroot", "getpath", "group"}
            if cands and not generic:
                return _uniq(cands) + [("byname", fn.attr)]
            if recv_kinds <= set(["ext", "exc"]) or all(k.startswith("ext") for k in recv_kinds):
                return [("ext", unparse(fn))]
            if fn.attr in LIST_MUTATORS | DICT_MUTATORS | SET_MUTATORS:
                return [("unknown-mutation", fn.attr, unparse(fn.value))]
            if generic:
                return [("generic", fn.attr)]
            return [("unresolved", unparse(fn))]
        for k in self.ek(fn, f, env):
            self._target_of_kind(k, out, fn, call, f, env)
        return _uniq(out) or [("unresolved", unparse(fn))]

    def _target_of_kind(self, k, out, fn, call, f, env):
        if k.startswith("func:"):
            qn = k[5:]
            if qn in ("odml.Section", "odml.Document", "odml.Property"):
                cls = self.p.cls(MODEL_CLASSES[qn.split(".")[1]])
                out.append(cls.lookup_method("__init__"))
            elif qn in self.p.functions:
                out.append(self.p.functions[qn])
        elif k.startswith("bound:"):
            qn, recv = k[6:].split("@")
            if qn == "odml.format.Format.create" and recv.startswith("fmt:"):
                out.append(self.p.cls(MODEL_CLASSES[recv[4:]]).lookup_method("__init__"))
            elif qn in self.p.functions:
                out.append(self.p.functions[qn])
        elif k.startswith("class:"):
            cls = self.class_by_kind(k[6:])
            if cls is not None and cls.lookup_method("__init__") is not None:
                out.append(cls.lookup_method("__init__"))
            else:
                out.append(("ctor", k[6:]))
        elif k.startswith("builtin:"):
            out.append(("builtin", k[8:]))
        elif k.startswith("ext:"):
            out.append(("ext", k[4:]))
        elif k.startswith("listmethod:"):
            m, recv = k[11:].split("@")
            out.append(("listop", m, recv))
        elif k.startswith("dictmethod:"):
            m, recv = k[11:].split("@")
            out.append(("dictop", m, recv))
        elif k.startswith("setmethod:"):
            m, recv = k[10:].split("@")
            out.append(("setop", m, recv))
        elif k.startswith("strmethod:"):
            out.append(("strop", k[10:]))
        elif k == "ext":
            out.append(("ext", unparse(fn)))
        elif k.startswith("filemethod:"):
            out.append(("fileop", k[11:]))
        elif k == "lambda":
            out.append(("lambda", unparse(fn)))

    def registry(self):
        """{kind: [FuncInfo]} for Validation.register_handler calls at module level, and the list of
        (caller FuncInfo, kind, handler FuncInfo) for register_custom_handler calls."""
        if getattr(self, "_registry", None) is None:
            default = {}
            custom = []
            vmod = self.p.modules.get("odml.validation")
            if vmod is not None:
                for c in vmod.toplevel_calls:
                    if unparse(c.func).endswith("register_handler") and len(c.args) == 2 and isinstance(c.args[0], ast.Constant):
                        r = self.p.resolve_expr_to_symbol(vmod, c.args[1])
                        if isinstance(r, FuncInfo):
                            default.setdefault(c.args[0].value, []).append(r)
            for g in self.p.all_functions():
                for n in walk_no_nested(g.node):
                    if isinstance(n, ast.Call) and isinstance(n.func, ast.Attribute) and n.func.attr == "register_custom_handler" \
                            and len(n.args) == 2:
                        r = self.p.resolve_expr_to_symbol(g.module, n.args[1], self.limports(g))
                        kind = n.args[0].value if isinstance(n.args[0], ast.Constant) else None
                        if isinstance(r, FuncInfo):
                            custom.append((g, kind, r))
            self._registry = (default, custom)
        return self._registry

    def _reflective(self, call, f):
        """the three table driven dispatches of the package."""
        if f is None:
            return None
        fn = call.func
        # a dispatch target bound to a local first (`meth = getattr(self, 'parse_' + tag); meth(...)`) is the same dispatch
        if isinstance(fn, ast.Name) and f.node is not None:
            from .astutil import local_assignments
            defs = local_assignments(f.node, fn.id)
            if len(defs) == 1 and isinstance(defs[0], ast.Call):
                fn = defs[0]
        # dtypes: self.get(dtype + '_get', str_get)(value)
        if f.module.name == "odml.dtypes" and isinstance(fn, ast.Call) and unparse(fn.func) == "self.get" and fn.args \
                and isinstance(fn.args[0], ast.BinOp) and isinstance(fn.args[0].right, ast.Constant):
            suffix = fn.args[0].right.value
            out = []
            mod = f.module
            names = set(mod.functions) | set(mod.assigns)
            for name in sorted(names):
                if name.endswith(suffix):
                    r = self.p.resolve_symbol(mod.name, name)
                    if isinstance(r, FuncInfo) and r not in out:
                        out.append(r)
            if len(fn.args) > 1:
                r = self.p.resolve_expr_to_symbol(mod, fn.args[1])
                if isinstance(r, FuncInfo) and r not in out:
                    out.append(r)
            return out
        # xml reader: getattr(self, 'parse_' + node.tag)(node, fmt)
        parts = None
        if isinstance(fn, ast.Call) and isinstance(fn.func, ast.Name) and fn.func.id == "getattr" and len(fn.args) >= 2 and f.cls is not None:
            from .astutil import template_parts
            parts = template_parts(None, fn.args[1])        # 'parse_' + tag, 'parse_%s' % tag, f'parse_{tag}', ...
        if parts and len(parts) == 2 and parts[0][0] == "lit" and parts[1][0] == "hole" and parts[0][1]:
            prefix = parts[0][1]
            out = [m for c in [f.cls] + list(f.cls.subclasses) for name, m in sorted(c.methods.items())
                   if name.startswith(prefix) and name != prefix.rstrip("_")]
            return _uniq(out) or None
        # validation: handler(obj) in Validation.validate
        if f.qualname == "odml.validation.Validation.validate" and isinstance(fn, ast.Name):
            env = self.envs.get(f.qualname, {})
            ks = env.get(fn.id, set())
            if not ks or ks <= set([UNKNOWN]):
                default, custom = self.registry()
                out = []
                for lst in default.values():
                    out += lst
                out += [h for _, _, h in custom]
                return _uniq(out) or None
        return None

    def setter_targets(self, target, f, env=None, conds=None):
        """property setters an attribute store `x.attr = v` may invoke; [] for a plain field store."""
        if env is None:
            env = self.envs.get(f.qualname, {})
        out = []
        ks = self.narrowed(target.value, f, env, conds) if conds else self.ek(target.value, f, env)
        for k in ks:
            cls = self.class_by_kind(k)
            if cls is not None and cls.has_prop(target.attr):
                s = cls.lookup_prop(target.attr, "setter")
                if s is not None and s not in out:
                    out.append(s)
        return out

    def getter_targets(self, attr_node, f, env=None):
        """non-trivial property getters an attribute load may invoke."""
        if env is None:
            env = self.envs.get(f.qualname, {})
        out = []
        for k in self.ek(attr_node.value, f, env):
            cls = self.class_by_kind(k)
            if cls is not None and cls.has_prop(attr_node.attr):
                g = cls.lookup_prop(attr_node.attr, "getter")
                if g is not None and trivial_getter_field(g) is None and g not in out:
                    out.append(g)
        return out


def _uniq(xs):
    out = []
    for x in xs:
        if x not in out:
            out.append(x)
    return out


def _isinstance_atoms(test, pol):
    """[(isinstance call, polarity)] atoms that must hold when `test` has truth value pol."""
    out = []
    if isinstance(test, ast.Call) and isinstance(test.func, ast.Name) and test.func.id == "isinstance" and len(test.args) == 2:
        out.append((test, pol))
    elif isinstance(test, ast.UnaryOp) and isinstance(test.op, ast.Not):
        out += _isinstance_atoms(test.operand, not pol)
    elif isinstance(test, ast.BoolOp):
        if isinstance(test.op, ast.And) and pol:
            for v in test.values:
                out += _isinstance_atoms(v, True)
        elif isinstance(test.op, ast.Or) and not pol:
            for v in test.values:
                out += _isinstance_atoms(v, False)
    return out


class _View(dict):
    """env overlaid with narrowed kinds for some names (read through, never written)."""
    def __init__(self, base, over):
        dict.__init__(self)
        self.base = base
        self.over = over

    def __contains__(self, k):
        return k in self.over or k in self.base

    def __getitem__(self, k):
        if k in self.over:
            return self.over[k]
        return self.base[k]

    def get(self, k, default=None):
        if k in self.over:
            return self.over[k]
        return self.base.get(k, default)


class _Frozen(set):
    """a reviewed return kind set: updates by the solver are ignored."""
    def update(self, *a):
        pass

    def add(self, x):
        pass

    def __ior__(self, other):
        return self
