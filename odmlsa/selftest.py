"""Thorough tier: the checker is tested both ways, in memory.

For the property under test
  * every seeded defect kept under /verif/seeded/<id>-<n>/patch.diff is applied to the *current* source map
    (no scratch copy on disk) and the check must report at least one NEW violation (known findings do not count);
  * every behaviour preserving twin (tables below: renamed locals, reordered independent statements, comment and
    docstring edits, an added unrelated helper) must leave the verdict unchanged: no new violation.
A miss or a false alarm is an ANALYSIS-ERROR (the check is broken), never a verdict about the repository.
Patches that no longer apply (the repository moved on) are skipped and listed.
"""
import glob
import json
import os
import re
import sys

from .model import AnalysisError, Program, load_sources
from .report import Report, VERIF


# ------------------------------------------------------------------ in-memory unified diff
def apply_unified_diff(sources, diff_text):
    """returns a new source map or None if some hunk does not apply."""
    out = dict(sources)
    files = re.split(r"^diff --git .*$", diff_text, flags=re.M)
    for chunk in files:
        m = re.search(r"^\+\+\+ [ab]/(\S+)", chunk, flags=re.M)
        if not m:
            continue
        path = m.group(1)
        if path not in out:
            return None
        lines = out[path].split("\n")
        hunks = re.split(r"^@@ .*?@@.*$", chunk, flags=re.M)[1:]
        headers = re.findall(r"^@@ -(\d+)(?:,(\d+))? \+(\d+)(?:,(\d+))? @@", chunk, flags=re.M)
        offset = 0
        for hdr, body in zip(headers, hunks):
            old_start = int(hdr[0])
            old, new = [], []
            for ln in body.split("\n")[1:]:
                if ln.startswith("\\"):
                    continue
                if ln.startswith("-"):
                    old.append(ln[1:])
                elif ln.startswith("+"):
                    new.append(ln[1:])
                elif ln.startswith(" ") or ln == "":
                    old.append(ln[1:] if ln else "")
                    new.append(ln[1:] if ln else "")
            while old and new and old[-1] == "" and new[-1] == "":
                old.pop()
                new.pop()
            # locate the old block near the expected position
            pos = None
            guess = old_start - 1 + offset
            for delta in sorted(range(-60, 61), key=abs):
                p = guess + delta
                if 0 <= p <= len(lines) - len(old) and lines[p:p + len(old)] == old:
                    pos = p
                    break
            if pos is None:
                return None
            lines[pos:pos + len(old)] = new
            offset += len(new) - len(old)
        out[path] = "\n".join(lines)
    return out


# ------------------------------------------------------------------------------- twins
def _rename_local(path, func_re, old, new):
    def edit(src):
        text = src.get(path)
        if text is None:
            return None
        m = re.search(func_re, text)
        if not m:
            return None
        start = m.start()
        nxt = re.search(r"\n    def |\ndef |\nclass ", text[m.end():])
        end = m.end() + (nxt.start() if nxt else len(text) - m.end())
        body = text[start:end]
        if not re.search(r"\b%s\b" % re.escape(old), body):
            return None
        body2 = re.sub(r"(?<![\w.])%s\b" % re.escape(old), new, body)
        d = dict(src)
        d[path] = text[:start] + body2 + text[end:]
        return d
    return edit


def _insert_after(path, anchor_re, text_to_insert):
    def edit(src):
        text = src.get(path)
        if text is None:
            return None
        m = re.search(anchor_re, text, flags=re.M)
        if not m:
            return None
        d = dict(src)
        d[path] = text[:m.end()] + text_to_insert + text[m.end():]
        return d
    return edit


def _replace(path, old, new):
    def edit(src):
        text = src.get(path)
        if text is None or text.count(old) != 1:
            return None
        d = dict(src)
        d[path] = text.replace(old, new)
        return d
    return edit


HELPER = '''

def _odmlsa_twin_helper(values):
    """An unrelated helper added by a refactoring."""
    total = []
    for val in values:
        total.append(str(val))
    return ", ".join(total)
'''

# behaviour preserving edits; each is (description, edit function). Applied to every property's check.
TWINS = [
    ("comment and blank lines at the top of base.py", _insert_after("odml/base.py", r"\A", "# refactoring note: no functional change\n\n")),
    ("unrelated helper appended to base.py", _insert_after("odml/base.py", r"\Z", HELPER)),
    ("unrelated helper appended to section.py", _insert_after("odml/section.py", r"\Z", HELPER)),
    ("unrelated helper appended to property.py", _insert_after("odml/property.py", r"\Z", HELPER)),
    ("unrelated helper appended to validation.py", _insert_after("odml/validation.py", r"\Z", HELPER)),
    ("unrelated helper appended to dict_parser.py", _insert_after("odml/tools/dict_parser.py", r"\Z", HELPER)),
    ("unrelated helper appended to odmlparser.py", _insert_after("odml/tools/odmlparser.py", r"\Z", HELPER)),
    ("unrelated helper appended to rdf_converter.py", _insert_after("odml/tools/rdf_converter.py", r"\Z", HELPER)),
    ("unrelated helper appended to version_converter.py", _insert_after("odml/tools/converters/version_converter.py", r"\Z", HELPER)),
    ("unrelated helper appended to templates.py", _insert_after("odml/templates.py", r"\Z", HELPER)),
    ("local renamed in Sectionable.insert", _rename_local("odml/base.py", r"    def insert\(self, position, section\):", "position", "pos")),
    ("local renamed in BaseSection.merge", _rename_local("odml/section.py", r"    def merge\(self, section=None, strict=True\):", "mine", "own_child")),
    ("local renamed in BaseProperty.extend", _rename_local("odml/property.py", r"    def extend\(self, obj, strict=True\):", "new_value", "converted")),
    ("local renamed in XMLReader.parse_tag", _rename_local("odml/tools/xmlparser.py", r"    def parse_tag\(self, root, fmt, insert_children=True\):", "curr_text", "node_text")),
    ("local renamed in DictReader.parse_sections", _rename_local("odml/tools/dict_parser.py", r"    def parse_sections\(self, section_list\):", "children_secs", "sub_sections")),
    ("local renamed in run_validation", _rename_local("odml/validation.py", r"    def run_validation\(self\):", "prop", "curr_prop")),
    ("local renamed in format_cardinality", _rename_local("odml/util.py", r"def format_cardinality\(in_val\):", "v_min", "lower")),
    ("local renamed in RDFWriter.save_odml_list", _rename_local("odml/tools/rdf_converter.py", r"    def save_odml_list\(self, parent_node, rdf_predicate, odml_list\):", "curr_item", "entry")),
    ("docstring edited in SmartList.remove", _replace("odml/base.py", '        Remove an element from this list.\n', '        Remove an element (by identity) from this list.\n')),
    ("message text edited in BaseSection.insert", _replace("odml/section.py", '"Property with name \'%s\' already exists." % obj.name)', '"A Property named \'%s\' already exists." % obj.name)')),
    ("independent statements reordered in BaseSection.__init__",
     _replace("odml/section.py", "        self._definition = definition\n        self._reference = reference\n",
              "        self._reference = reference\n        self._definition = definition\n")),
    ("independent statements reordered in BaseProperty.__init__",
     _replace("odml/property.py", "        self._value_origin = value_origin\n        self._unit = unit\n",
              "        self._unit = unit\n        self._value_origin = value_origin\n")),
    ("if/else flipped in ValidationError.__repr__ (equivalent)",
     _replace("odml/validation.py", "            if self.obj.name and self.obj.name != self.obj.id:\n                print_str = \"%s[%s]\" % (print_str, self.obj.name)\n            else:\n                print_str = \"%s[%s]\" % (print_str, self.obj.id)\n",
              "            if not (self.obj.name and self.obj.name != self.obj.id):\n                print_str = \"%s[%s]\" % (print_str, self.obj.id)\n            else:\n                print_str = \"%s[%s]\" % (print_str, self.obj.name)\n")),
]


def _run_check_on(pid, sources):
    import importlib
    mod = importlib.import_module("odmlsa.checks.%s" % pid.lower())
    # analyses are cached per Program object
    prog = Program(sources=sources)
    rep = Report(pid, "thorough", 0)
    try:
        mod.run(prog, rep)
    except Exception:
        if not any(i["status"] == "violation" for i in rep.items):
            raise
    new = [i for i in rep.items if i["status"] == "violation"]
    from . import analysis
    analysis._CACHE.pop(id(prog), None)
    return new, rep


_JOB_SOURCES = {}


def _job(args):
    """worker: (kind, name, pid) -> (kind, name, outcome, details); sources are inherited through fork."""
    kind, name, pid = args
    os.environ["ODMLSA_NOEVIDENCE"] = "1"
    try:
        new, _ = _run_check_on(pid, _JOB_SOURCES[(kind, name)])
    except AnalysisError as exc:
        return (kind, name, "analysis-error", [str(exc)[:200]])
    except Exception as exc:           # a crash of the checker on a variant is a defect of the checker
        return (kind, name, "crash", [repr(exc)[:200]])
    return (kind, name, "violation" if new else "silent", ["[%s] %s" % (i["rule"], i["instance"][:80]) for i in new[:3]])


def variants(pid, base_sources):
    """(seeds, twins, skipped): every seeded defect of this property and every behaviour preserving variant, as source maps."""
    seeds, twins, skipped, inapplicable = {}, {}, [], []
    for d in sorted(glob.glob(os.path.join(VERIF, "seeded", "%s-*" % pid))):
        pf = os.path.join(d, "patch.diff")
        if not os.path.exists(pf):
            continue
        name = os.path.basename(d)
        with open(pf) as fobj:
            patched = apply_unified_diff(base_sources, fobj.read())
        if patched is None:
            skipped.append(name)
        else:
            seeds[name] = patched
    # the repairs made in /repo, reversed: a fixed finding suppresses nothing, so the defect must be reported again
    for pf in sorted(glob.glob(os.path.join(VERIF, "reverts", "%s-*.diff" % pid))):
        name = "revert of fix " + os.path.basename(pf)[:-5]
        with open(pf) as fobj:
            patched = apply_unified_diff(base_sources, fobj.read())
        if patched is None:
            skipped.append(name + " (does not apply any more)")
        else:
            seeds[name] = patched
    for desc, edit in TWINS:
        twin = edit(base_sources)
        if twin is None:
            inapplicable.append(desc)
        else:
            twins[desc] = twin
    for pf in sorted(glob.glob(os.path.join(VERIF, "twins", "*.diff"))):
        name = "refactoring " + os.path.basename(pf)[:-5]
        with open(pf) as fobj:
            patched = apply_unified_diff(base_sources, fobj.read())
        if patched is None:
            inapplicable.append(name)
        else:
            twins[name] = patched
    return seeds, twins, skipped, inapplicable


def run(pid, prog, rep):
    import multiprocessing
    base_sources = prog.sources
    seeds, twins, skipped, inapplicable = variants(pid, base_sources)
    meta = {}
    for name in seeds:
        mp = os.path.join(VERIF, "seeded", name, "meta.json")
        if os.path.exists(mp):
            with open(mp) as fobj:
                meta[name] = json.load(fobj)
    _JOB_SOURCES.clear()
    jobs = []
    for name, src in seeds.items():
        _JOB_SOURCES[("seed", name)] = src
        jobs.append(("seed", name, pid))
    for name, src in twins.items():
        _JOB_SOURCES[("twin", name)] = src
        jobs.append(("twin", name, pid))
    n_proc = max(1, min(int(os.environ.get("ODMLSA_JOBS", "16")), len(jobs)))
    if n_proc > 1:
        ctx = multiprocessing.get_context("fork")
        with ctx.Pool(n_proc) as pool:
            results = pool.map(_job, jobs, chunksize=1)
    else:
        results = [_job(j) for j in jobs]
    fired, missed, silent, alarms = [], [], [], []
    for kind, name, outcome, details in results:
        if kind == "seed":
            expected = meta.get(name, {}).get("expected_detection", True)
            if outcome in ("violation", "analysis-error"):
                fired.append({"seed": name, "reported": details if outcome == "violation" else "ANALYSIS-ERROR: %s" % details[0]})
            elif outcome == "crash":
                missed.append("%s (checker crashed: %s)" % (name, details[0]))
            elif expected:
                missed.append(name)
            else:
                skipped.append(name + " (documented miss: %s)" % meta.get(name, {}).get("why_missed", "value level"))
        else:
            if outcome == "silent":
                silent.append(name)
            else:
                alarms.append({"twin": name, "reported": details if outcome == "violation" else "%s: %s" % (outcome.upper(), details[0])})
    rep.selftest = {"seeded_defects_fired": fired, "seeded_defects_missed": missed, "seeds_skipped": skipped,
                    "twins_silent": len(silent), "twin_false_alarms": alarms, "twins_inapplicable": inapplicable,
                    "rule": "seeded defects (sub-agent authored, confirmed against the real library) are applied in memory and must be "
                            "reported; behaviour preserving twins (small edits and six whole-module refactorings by sub-agents) must not be"}
    rep.extra["evaluations"] = max(1, len(rep.items)) + len(fired) + len(missed) + len(silent) + len(alarms)
    print("selftest %s: %d seeded defects reported, %d missed, %d skipped; %d twins silent, %d false alarms"
          % (pid, len(fired), len(missed), len(skipped), len(silent), len(alarms)))
    if missed or alarms:
        raise AnalysisError("self-test failed for %s: missed seeds %s, twin false alarms %s" % (pid, missed, [a["twin"] for a in alarms]))
