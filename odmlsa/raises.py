"""Raise summaries with guard chains and call-site discharge.

A RaiseSite is an exception that may escape a function:
    exc     class name
    origin  (function short name, normalised text of the raising construct)  - position independent
    guards  tuple of (atom text, polarity) that must hold for the raise to happen, expressed in the
            terms (parameters, attributes) of the function whose summary holds the site
    chain   call path from the summarised function down to the origin (function short names + call text)

Explicit `raise` statements are exact.  Library calls raise according to the reviewed table
LIB_RAISES.  A callee's site is lifted to the caller by substituting actual for formal parameters in
its guards; it is discharged (dead at that call site) when a guard evaluates to false from
    - literal arguments (strict=False, None, omitted defaults),
    - the kinds of the arguments (isinstance atoms, `is None` atoms, SmartList content type),
    - facts established on every path to the call (dominating branch conditions and simple alias
      stores), compared after getter normalisation, provided none of the names in the fact is
      re-bound and none of the lists it mentions is mutated in between.
"""
import ast
import re

from .cfg import enclosing_handlers
from .events import node_events
from .model import FuncInfo, unparse, walk_no_nested

EXC_PARENTS = {
    "KeyError": ["LookupError", "Exception"], "IndexError": ["LookupError", "Exception"], "LookupError": ["Exception"],
    "ValueError": ["Exception"], "TypeError": ["Exception"], "AttributeError": ["Exception"], "RuntimeError": ["Exception"],
    "NotImplementedError": ["RuntimeError", "Exception"], "OSError": ["Exception"], "FileNotFoundError": ["OSError", "Exception"],
    "AssertionError": ["Exception"], "ParserException": ["Exception"], "InvalidVersionException": ["ParserException", "Exception"],
    "UnicodeDecodeError": ["ValueError", "Exception"], "URLError": ["OSError", "Exception"],
    "XMLSyntaxError": ["Exception"], "YAMLError": ["Exception"], "JSONDecodeError": ["ValueError", "Exception"],
    "Exception": [], "CsvError": ["Exception"],
}
# library calls that may raise on caller supplied data: name -> exception classes
LIB_RAISES = {
    "uuid.UUID": ("ValueError",),
    "int": ("ValueError",), "float": ("ValueError",),
    "dt.datetime.strptime": ("ValueError",), "datetime.datetime.strptime": ("ValueError",),
    "json.loads": ("JSONDecodeError",), "json.load": ("JSONDecodeError",),
    "yaml.safe_load": ("YAMLError",), "yaml.load": ("YAMLError",),
    "ET.XML": ("XMLSyntaxError",), "ET.parse": ("XMLSyntaxError", "OSError"), "ET.fromstring": ("XMLSyntaxError",),
    "urllib2.urlopen": ("URLError", "ValueError"), "open": ("OSError",), "os.makedirs": ("OSError",),
    "csv.reader": ("CsvError",), "list": (), "os.listdir": ("OSError",), "tempfile.mkdtemp": ("OSError",),
}


# spellings of a library exception class in an except clause -> the class name used in the tables above
HANDLER_SPELLINGS = {"csv.Error": "CsvError", "_csv.Error": "CsvError"}


def norm(e):
    """getter normalised text (shared with checks.rules_tree.norm_text)"""
    from .checks.rules_tree import norm_text
    return norm_text(e)


def catches(handler_classes, exc):
    if "*" in handler_classes or "BaseException" in handler_classes:
        return True
    for h in handler_classes:
        h = HANDLER_SPELLINGS.get(h, h).split(".")[-1]
        if h == exc or h in EXC_PARENTS.get(exc, ["Exception"]):
            return True
        if h == "Exception":
            return True
    return False


class RaiseSite(object):
    __slots__ = ("exc", "origin", "guards", "chain", "lineno", "path", "call", "tgt", "evkind")

    def __init__(self, exc, origin, guards=(), chain=(), lineno=0, path="", call=None, tgt=None, evkind=None):
        self.exc = exc
        self.origin = origin
        self.guards = tuple(guards)
        self.chain = tuple(chain)
        self.lineno = lineno
        self.path = path
        self.call = call        # AST (in the current function) of the call / attribute / container the first chain element stands for
        self.tgt = tgt          # FuncInfo directly called there
        self.evkind = evkind    # event kind: call, store_attr, load_prop, contains, ...

    def key(self):
        return (self.exc, self.origin, self.chain)

    def label(self):
        return "%s@%s" % (self.exc, self.origin[0])

    def __repr__(self):
        return "<%s at %s `%s` via %s>" % (self.exc, self.origin[0], self.origin[1][:40], "->".join(c for c in self.chain))


def atoms_of(test, pol):
    """[(text, polarity)] atoms necessarily true/false when `test` evaluates to pol."""
    out = []
    if isinstance(test, ast.BoolOp):
        if isinstance(test.op, ast.And) and pol:
            for v in test.values:
                out += atoms_of(v, True)
        elif isinstance(test.op, ast.Or) and not pol:
            for v in test.values:
                out += atoms_of(v, False)
        else:
            out.append((norm(test), pol))
        return out
    if isinstance(test, ast.UnaryOp) and isinstance(test.op, ast.Not):
        return atoms_of(test.operand, not pol)
    if isinstance(test, ast.Compare) and len(test.ops) == 1 and isinstance(test.ops[0], ast.IsNot):
        return [(norm(ast.Compare(left=test.left, ops=[ast.Is()], comparators=test.comparators)), not pol)]
    if isinstance(test, ast.Compare) and len(test.ops) == 1 and isinstance(test.ops[0], ast.NotIn):
        return [(norm(ast.Compare(left=test.left, ops=[ast.In()], comparators=test.comparators)), not pol)]
    if isinstance(test, ast.Compare) and len(test.ops) == 1 and isinstance(test.ops[0], ast.NotEq):
        return [(norm(ast.Compare(left=test.left, ops=[ast.Eq()], comparators=test.comparators)), not pol)]
    return [(norm(test), pol)]


_IDENT = re.compile(r"(?<![\w.])([A-Za-z_]\w*)")


def substitute(text, mapping):
    """replace identifiers (not attribute names) by the mapped texts."""
    def rep(m):
        n = m.group(1)
        return mapping.get(n, n)
    return _IDENT.sub(rep, text)


_STR = re.compile(r"'[^']*'|\"[^\"]*\"")


def names_in_text(text):
    return set(m.group(1) for m in _IDENT.finditer(_STR.sub("''", text)))


class Raises(object):
    def __init__(self, analysis, exclude=("RuntimeError",), lib=True, contracts=(), owner=None):
        self.contracts = list(contracts)
        self.owner = owner
        self.contract_hits = []
        self.an = analysis
        self.p = analysis.p
        self.k = analysis.k
        self.s = analysis.s
        self.exclude = set(exclude)
        self.lib = lib
        self.R = {}
        self._busy = set()
        self.discharged = []      # (caller short, site, reason)
        self._facts_cache = {}
        self._ev_cache = {}
        self._dead_cache = {}

    # ----------------------------------------------------------------- facts at a node
    def facts_at(self, f, node):
        key = (f.qualname, node.id)
        if key not in self._facts_cache:
            self._facts_cache[key] = self._facts_at(f, node)
        extra = self.__dict__.get("_ev_guard_facts", {}).get(key)
        if extra:
            return self._facts_cache[key] + extra
        return self._facts_cache[key]

    def _guard_facts(self, f, node, ev):
        """facts from the expression level tests under which the event runs (`a if t else b`, `t and a`): same vocabulary as
        the dominating branch conditions; the names of such a test cannot change between the test and the operand"""
        gs = ev.get("guards") or ()
        if not gs:
            return []
        ax = self.an.alias_expander(f) if hasattr(self.an, "alias_expander") else None
        from .astutil import atoms_of as _atoms_of
        nf = (lambda e: norm(ax.expand(e, node))) if ax is not None else norm
        out = []
        for test, pol in gs:
            if any(isinstance(x, ast.NamedExpr) for x in ast.walk(test)):
                continue
            for text, p in _atoms_of(test, pol, nf):
                out.append((text, p))
        return out

    def _event_dead_under_entry(self, f, g, node, ev, entry):
        """the event sits in an operand whose expression level test is refuted by the entry facts"""
        gs = ev.get("guards") or ()
        if not gs or not entry:
            return False
        ax = self.an.alias_expander(f) if hasattr(self.an, "alias_expander") else None
        for test, pol in gs:
            if any(isinstance(x, ast.NamedExpr) for x in ast.walk(test)):
                continue
            ttext = norm(ax.expand(test, node)) if ax is not None else norm(test)
            names = names_in_text(ttext)
            rel = [(t, v) for (t, v) in entry if names_in_text(t) & names]
            if not rel or not all(self._fact_still_valid(f, g, g.entry, node, t) for t, _ in rel):
                continue
            v = self._tri_eval(ttext, list(rel), {})
            if v is not None and v != pol:
                return True
        return False

    def _facts_at(self, f, node):
        """[(text, polarity)] facts that hold whenever `node` executes (dominating branch conditions),
        valid at node: no name in the fact re-bound and no mentioned list mutated in between."""
        g = self.s.cfg(f)
        out = []
        ax = self.an.alias_expander(f) if hasattr(self.an, "alias_expander") else None
        from .astutil import atoms_of as _atoms_of
        for test, pol, br in g.dominating_conditions(node):
            if pol not in ("true", "false"):
                continue
            nf = (lambda e, br=br: norm(ax.expand(e, br))) if ax is not None else norm
            for text, p in _atoms_of(test, pol == "true", nf):
                if self._fact_still_valid(f, g, br, node, text, pol=p):
                    out.append((text, p))
        out += self._universal_loop_facts(f, g, node)
        out += self._helper_post_facts(f, g, node)
        out += self._none_result_facts(f, g, node, out)
        # dominating stores of a constant:  X.attr = None  =>  (X.attr is None) holds until X.attr is stored again
        for n in g.nodes:
            if n.kind == "stmt" and isinstance(n.ast, ast.Assign) and len(n.ast.targets) == 1 and n.id != node.id \
                    and isinstance(n.ast.targets[0], ast.Attribute) and isinstance(n.ast.value, ast.Constant) \
                    and n.ast.value.value is None and g.dominates(n, node):
                t = norm(n.ast.targets[0])
                if self._fact_still_valid(f, g, n, node, t + " None", stores_to=t):
                    out.append(("%s is None" % t, True))
        # alias facts from dominating simple stores  X.attr = name
        for n in g.nodes:
            if n.kind == "stmt" and isinstance(n.ast, ast.Assign) and len(n.ast.targets) == 1 and n.id != node.id \
                    and isinstance(n.ast.targets[0], ast.Attribute) and isinstance(n.ast.value, ast.Name) and g.dominates(n, node):
                t = norm(n.ast.targets[0])
                if self._fact_still_valid(f, g, n, node, t + " " + n.ast.value.id, stores_to=t):
                    out.append(("ALIAS %s = %s" % (t, n.ast.value.id), True))
        return out

    # ------------------------------------------------------------ post-facts of private helpers
    def post_facts(self, h, depth=0):
        """[(text, polarity)] facts that hold at every normal exit of the private helper h, in h's vocabulary; the name that is
        returned is written RET.  (`if not ok(x): raise` ... `return x`  gives  ok(RET).)"""
        cache = self.__dict__.setdefault("_post_cache", {})
        if h.qualname in cache:
            return cache[h.qualname]
        cache[h.qualname] = []          # recursion guard
        if depth > 3 or h.is_generator:
            return []
        g = self.s.cfg(h)
        exits = []
        for k, p in g.exit.pred:
            if k == "exc" or p.kind == "raise":
                continue
            exits.append(p)
        common = None
        for p in exits:
            facts = set(self.facts_at(h, p))
            ret = p.ast.value if p.kind == "return" and p.ast is not None else None
            if isinstance(ret, ast.Name):
                facts = set((re.sub(r"(?<![\w.])%s\b" % re.escape(ret.id), "RET", t), pol) for t, pol in facts)
            elif ret is not None and not isinstance(ret, ast.Constant):
                facts = set((t, pol) for t, pol in facts)
            common = facts if common is None else (common & facts)
        out = sorted(x for x in (common or set()) if not x[0].startswith("ALIAS "))
        cache[h.qualname] = out
        return out

    def _none_result_facts(self, f, g, node, facts):
        """`x = self._helper(a)` ... `x is None` known: when the helper hands back None at one place only (its other results cannot be None)
        the conditions of that place hold, in the caller's terms.  (`children = self._child_list_for(obj); if children is None: raise` refuses
        exactly the objects that are neither a Section nor a Property.)"""
        from .dataflow import reaching_defs, def_value
        from .astutil import atoms_of as _atoms_of
        out = []
        for text, pol in list(facts):
            m = re.match(r"^(\w+) is None$", text)
            if not m or pol is not True:
                continue
            name = m.group(1)
            defs = list(reaching_defs(g, node, name))
            if len(defs) != 1 or defs[0].kind == "entry":
                continue
            call = def_value(defs[0], name)
            if not isinstance(call, ast.Call):
                continue
            fn = call.func
            hname = fn.attr if isinstance(fn, ast.Attribute) else fn.id if isinstance(fn, ast.Name) else ""
            if not hname.startswith("_") or hname.startswith("__"):
                continue
            tgts = [t for t in self.s.targets(call, f) if isinstance(t, FuncInfo)]
            if len(tgts) != 1 or tgts[0].is_generator:
                continue
            h = tgts[0]
            hg = self.s.cfg(h)
            rets = [n for n in hg.nodes if n.kind == "return"]
            nones = [n for n in rets if n.ast.value is None or (isinstance(n.ast.value, ast.Constant) and n.ast.value.value is None)]
            others = [n for n in rets if n not in nones]
            falls = [p for k0, p in hg.exit.pred if k0 not in ("return", "exc") and p.kind not in ("return", "raise")]
            if len(nones) != 1 or falls:
                continue
            env = self.k.envs.get(h.qualname, {})
            sure = True
            for n in others:
                ks = self.k.ek(n.ast.value, h, env)
                if not ks or "None" in ks or "?" in ks:
                    sure = False
            if not sure:
                continue
            args = self.s.arg_exprs(call, h, f)
            allp = h.params + h.kwonly
            mapping = {}
            for i, pn in enumerate(allp):
                if i in args:
                    mapping[pn] = norm(args[i])
            for test, tp, br in hg.dominating_conditions(nones[0]):
                if tp not in ("true", "false"):
                    continue
                for t2, p2 in _atoms_of(test, tp == "true", norm):
                    names = names_in_text(t2)
                    if any(x not in mapping and x in (h.params + h.kwonly) for x in names):
                        continue
                    if any(x in self.s.local_names(h) and x not in mapping for x in names):
                        continue
                    out.append((substitute(t2, mapping), p2))
        return out

    def _helper_post_facts(self, f, g, node):
        """facts established by calls of private helpers that dominate `node` and returned normally."""
        out = []
        for n in g.nodes:
            if n.id == node.id or n.kind != "stmt" or not g.dominates(n, node):
                continue
            st = n.ast
            call, target = None, None
            if isinstance(st, ast.Assign) and len(st.targets) == 1 and isinstance(st.targets[0], ast.Name) and isinstance(st.value, ast.Call):
                call, target = st.value, st.targets[0].id
            elif isinstance(st, ast.Expr) and isinstance(st.value, ast.Call):
                call = st.value
            if call is None:
                continue
            fn = call.func
            name = fn.attr if isinstance(fn, ast.Attribute) else fn.id if isinstance(fn, ast.Name) else ""
            if not name.startswith("_") or name.startswith("__"):
                continue
            tgts = [t for t in self.s.targets(call, f) if isinstance(t, FuncInfo)]
            if len(tgts) != 1:
                continue
            h = tgts[0]
            pf = self.post_facts(h)
            if not pf:
                continue
            args = self.s.arg_exprs(call, h, f)
            allp = h.params + h.kwonly
            mapping = {}
            hazard = set()
            for i, pn in enumerate(allp):
                if i in args:
                    mapping[pn] = norm(args[i])
                    if target is not None and target in names_in_text(mapping[pn]):
                        hazard.add(pn)
                elif pn in h.defaults:
                    mapping[pn] = unparse(h.defaults[pn])
            for text, pol in pf:
                names = names_in_text(text)
                if "RET" in names and target is None:
                    continue
                if any(x in hazard for x in names):
                    continue
                if any(x not in allp and x != "RET" and x in self.s.local_names(h) for x in names):
                    continue         # mentions a local of the helper
                m2 = dict(mapping)
                if target is not None:
                    m2["RET"] = target
                t2 = substitute(text, m2)
                if self._fact_still_valid(f, g, n, node, t2, pol=pol):
                    out.append((t2, pol))
        return out

    def _universal_loop_facts(self, f, g, node):
        """`for u in L: if test(u): raise` completed earlier, `for v in L:` now (L a parameter that is not re-bound):
        every element passed the test, so not test(v) holds for element-local tests (only u, classes, constants)."""
        out = []
        cur = None
        for test, pol, br in g.dominating_conditions(node):
            if pol == "iter" and isinstance(br.ast.iter, ast.Name) and br.ast.iter.id in f.params and isinstance(br.ast.target, ast.Name):
                cur = br
        if cur is None:
            return out
        L, v = cur.ast.iter.id, cur.ast.target.id
        for n in walk_no_nested(f.node):
            if isinstance(n, ast.Assign) and any(isinstance(t, ast.Name) and t.id == L for t in n.targets):
                return out
        for other in g.nodes:
            if other.kind != "for" or other.id == cur.id or not g.dominates(other, cur):
                continue
            if not (isinstance(other.ast.iter, ast.Name) and other.ast.iter.id == L and isinstance(other.ast.target, ast.Name)):
                continue
            u = other.ast.target.id
            for st in other.ast.body:
                if isinstance(st, ast.If) and not st.orelse and any(isinstance(x, ast.Raise) for x in st.body):
                    for text, p in atoms_of(st.test, False):
                        names = names_in_text(text)
                        local = [x for x in names if x not in (u, "isinstance", "not", "and", "or", "None", "True", "False", "str")
                                 and not any(c.name == x for c in self.p.classes.values()) and x not in ("Iterable",)]
                        if u in names and not local and "." not in text.replace(u + ".", "", 0).split("(")[0]:
                            if "._" in text or ".name" in text:
                                continue      # state dependent (names, lists): not element-local
                            out.append((substitute(text, {u: v}), p))
        return out

    def _fact_still_valid(self, f, g, src, dst, text, stores_to=None, pol=None):
        """a fact stays valid from src to dst unless a name in it is re-bound, an attribute it reads is stored,
        or - for membership facts - the list gains (negative fact) / loses (positive fact) an element."""
        from .dataflow import node_defs
        names = names_in_text(text)
        lists = set(m for m in ("_sections", "_props", "_values") if m in text)
        attrs = set(re.findall(r"\.(_\w+)", text)) - lists
        adders = ("append", "insert", "extend", "__setitem__", "__iadd__", "+=")
        removers = ("remove", "pop", "clear", "__delitem__", "__setitem__")
        for n in g.between(src, dst, skip_kinds=("exc",)):
            if node_defs(n) & names:
                return False
            if lists or stores_to or attrs:
                for w in self.s.node_writes(f, n):
                    if w.kind == "list" and lists and (w.field in lists or w.field == "self"):
                        if pol is False and w.op in adders:
                            return False
                        if pol is True and w.op in removers:
                            return False
                        if pol is None:
                            return False
                    if w.kind == "attr" and w.field in lists:
                        return False      # list re-bound
                    if w.kind == "attr" and w.field in attrs and w.visible() and not stores_to:
                        # an attribute read by the fact is stored (e.g. a rename): only relevant when the
                        # stored object can be the one the fact talks about - conservatively: always
                        if w.field in ("_name", "_dtype", "_id"):
                            return False
                    if stores_to and w.kind == "attr" and stores_to.endswith("." + w.field):
                        return False
        return True

    # ------------------------------------------------------------ guard evaluation
    def eval_atom(self, text, pol, f, node, facts, const_map):
        """True / False / None: can the atom `text` have truth value `pol` at this point?  False = impossible."""
        aliases = dict((t[6:].split(" = ")[0], t[6:].split(" = ")[1]) for t, _ in facts if t.startswith("ALIAS "))
        for a, b in aliases.items():
            text = text.replace(a, b)
        # literal / three valued evaluation with the established facts as known atoms
        v = self._tri_eval(text, facts, aliases)
        if v is not None:
            return (v == pol)
        for ft, fp in facts:
            if ft.startswith("ALIAS "):
                continue
            ft2 = ft
            for a, b in aliases.items():
                ft2 = ft2.replace(a, b)
            if ft2 == text:
                return fp == pol
        m = re.match(r"^isinstance\((.+), (.+)\)$", text)
        if m:
            return self._eval_isinstance(m.group(1), m.group(2), pol, f, node)
        m = re.match(r"^hasattr\((.+), '(__iter__|__next__)'\)$", text)
        if m:
            ks = self._kinds_of_text(m.group(1), f, node)
            if ks and "?" not in ks:
                iterable = set(["list", "tuple", "set", "dict", "str", "generator"])
                if m.group(2) == "__iter__" and ks <= iterable:
                    return pol is True
        m = re.match(r"^(.+) is None$", text)
        if m:
            ks = self._kinds_of_text(m.group(1), f, node)
            if ks is not None:
                if ks == set(["None"]):
                    return pol is True
                if "None" not in ks and "?" not in ks:
                    return pol is False
        return None

    def _tri_eval(self, text, facts, aliases):
        """True/False/None (unknown) for a condition text, using constants and established facts."""
        e = self._parse(text)
        if e is None:
            return None
        known = {}
        for ft, fp in facts:
            if ft.startswith("ALIAS "):
                continue
            for a, b in aliases.items():
                ft = ft.replace(a, b)
            known[ft] = fp

        def ev(n):
            t = norm(n)
            if t in known:
                return known[t]
            if isinstance(n, ast.Constant):
                return bool(n.value) if not isinstance(n.value, str) or True else None
            if isinstance(n, ast.UnaryOp) and isinstance(n.op, ast.Not):
                v = ev(n.operand)
                return None if v is None else (not v)
            if isinstance(n, ast.IfExp):
                c = ev(n.test)
                if c is True:
                    return ev(n.body)
                if c is False:
                    return ev(n.orelse)
                a1, b1 = ev(n.body), ev(n.orelse)
                return a1 if a1 is not None and a1 == b1 else None
            if isinstance(n, ast.BoolOp):
                vals = [ev(v) for v in n.values]
                if isinstance(n.op, ast.And):
                    if any(v is False for v in vals):
                        return False
                    return True if all(v is True for v in vals) else None
                if any(v is True for v in vals):
                    return True
                return False if all(v is False for v in vals) else None
            if isinstance(n, ast.Compare) and len(n.ops) == 1:
                l, r = n.left, n.comparators[0]
                op = n.ops[0]
                if isinstance(op, (ast.Is, ast.IsNot, ast.Eq, ast.NotEq)) and isinstance(l, ast.Constant) and isinstance(r, ast.Constant):
                    same = (l.value is r.value) if isinstance(op, (ast.Is, ast.IsNot)) else (l.value == r.value)
                    return same if isinstance(op, (ast.Is, ast.Eq)) else (not same)
                if isinstance(op, ast.IsNot):
                    t2 = norm(ast.Compare(left=l, ops=[ast.Is()], comparators=[r]))
                    if t2 in known:
                        return not known[t2]
                if isinstance(op, ast.NotIn):
                    t2 = norm(ast.Compare(left=l, ops=[ast.In()], comparators=[r]))
                    if t2 in known:
                        return not known[t2]
                if isinstance(op, (ast.Is, ast.IsNot)) and isinstance(r, ast.Constant) and r.value is None and isinstance(l, ast.Constant):
                    return (l.value is None) if isinstance(op, ast.Is) else (l.value is not None)
            return None
        try:
            return ev(e)
        except Exception:
            return None

    def _const_eval(self, text, const_map):
        t = substitute(text, const_map)
        try:
            node = ast.parse(t, mode="eval").body
        except SyntaxError:
            return None

        def ev(n):
            if isinstance(n, ast.Constant):
                return n.value
            if isinstance(n, ast.UnaryOp) and isinstance(n.op, ast.Not):
                return not ev(n.operand)
            if isinstance(n, ast.Compare) and len(n.ops) == 1 and isinstance(n.ops[0], (ast.Is, ast.Eq)):
                return ev(n.left) is ev(n.comparators[0]) if isinstance(n.ops[0], ast.Is) else ev(n.left) == ev(n.comparators[0])
            if isinstance(n, ast.BoolOp):
                vals = [ev(v) for v in n.values]
                return all(vals) if isinstance(n.op, ast.And) else any(vals)
            raise ValueError
        try:
            return bool(ev(node))
        except Exception:
            return None

    def _parse(self, text):
        try:
            return ast.parse(text, mode="eval").body
        except SyntaxError:
            return None

    def _name_kinds_at(self, name, f, node, depth=0):
        """kinds of local `name` at `node` via its reaching definitions (flow sensitive)."""
        from .dataflow import reaching_defs, def_value
        g = self.s.cfg(f)
        env = self.k.envs.get(f.qualname, {})
        out = set()
        for d in reaching_defs(g, node, name):
            if d.kind == "entry":
                out |= set(self.k.param_kinds.get((f.qualname, name), ())) or set(env.get(name, ()))
                if name in f.defaults:
                    out |= self.k.ek(f.defaults[name], f, env)
                # a public function is called by the user too: the kinds seen at the package's own call sites (or a default) are not all there are,
                # unless the reviewed parameter table says so
                if not (f.name.startswith("_") and not f.name.startswith("__")) and (f.short, name) not in self.k.param_table \
                        and not (f.cls is not None and f.cls.name.startswith("_")):
                    out.add("?")
                if f.params and name == f.params[0] and f.has_self and f.cls is not None:
                    out = set(self.k.self_kinds(f.cls))
                continue
            v = def_value(d, name)
            if v is not None:
                if isinstance(v, ast.Name) and depth < 3:
                    out |= self._name_kinds_at(v.id, f, d, depth + 1)
                elif isinstance(v, ast.Call) and isinstance(v.func, ast.Attribute) and v.func.attr == "clone" \
                        and isinstance(v.func.value, ast.Name) and depth < 3:
                    out |= self._name_kinds_at(v.func.value.id, f, d, depth + 1)      # a clone has the class of its original
                else:
                    out |= self.k.ek(v, f, env)
            elif d.kind == "for" and isinstance(d.ast.target, ast.Name):
                it = d.ast.iter
                if isinstance(it, ast.Name) and depth < 3:
                    for k0 in self._name_kinds_at(it.id, f, d, depth + 1):
                        if k0 == "None":
                            continue      # iterating None raises: no element
                        if k0.startswith("SmartList["):
                            out.add(k0[10:-1])
                        else:
                            cls = self.k.class_by_kind(k0)
                            m = cls.lookup_method("__iter__") if cls is not None else None
                            if m is not None:
                                out |= self.k.ret_kinds.get(m.qualname + "#yield", set()) or set(["?"])
                            else:
                                out.add("?")
                else:
                    out |= self.k.elem_kinds(it, f, env)
            else:
                out |= set(env.get(name, ())) or set(["?"])
        return out

    def _kinds_of_text(self, text, f, node):
        e = self._parse(text)
        if e is None:
            return None
        if isinstance(e, ast.Name) and node is not None and e.id in self.s.local_names(f):
            ks = self._name_kinds_at(e.id, f, node)
            g = self.s.cfg(f)
            # isinstance narrowing by the dominating conditions
            for test, pol, _ in g.dominating_conditions(node):
                if pol in ("true", "false"):
                    from .kinds import _isinstance_atoms
                    for sub, spol in _isinstance_atoms(test, pol == "true"):
                        if unparse(sub.args[0]) == e.id:
                            names = self.k._class_names_of(sub.args[1], f)
                            if names:
                                ks = (ks & names) if spol else (ks - names)
            return ks
        g = self.s.cfg(f)
        conds = g.dominating_conditions(node) if node is not None else None
        return set(self.k.narrowed(e, f, self.k.envs.get(f.qualname, {}), conds))

    def _eval_isinstance(self, obj_text, cls_text, pol, f, node):
        ks = self._kinds_of_text(obj_text, f, node)
        if not ks or "?" in ks:
            return None
        # SmartList content type:  isinstance(obj, <list>._content_type)
        if cls_text.endswith("._content_type"):
            lk = self._kinds_of_text(cls_text[:-len("._content_type")], f, node)
            if lk and all(k.startswith("SmartList[") for k in lk):
                names = set(k[10:-1] for k in lk)
                if len(lk) == 1:
                    inside = ks <= names
                    outside = not (ks & names)
                    if inside:
                        return pol is True
                    if outside:
                        return pol is False
            return None
        ce = self._parse(cls_text)
        if ce is None:
            return None
        names = self._class_names(ce, f)
        if not names:
            return None
        if ks <= names:
            return pol is True
        if not (ks & names):
            return pol is False
        return None

    def _class_names(self, ce, f):
        names = self.k._class_names_of(ce, f)
        # the guard may originate in another module: resolve repository class names globally
        for part in (ce.elts if isinstance(ce, ast.Tuple) else [ce]):
            nm = part.attr if isinstance(part, ast.Attribute) else part.id if isinstance(part, ast.Name) else None
            if nm is None:
                continue
            hits = [c for c in self.p.classes.values() if c.name == nm and not c.module.name.endswith(".format")]
            if len(hits) == 1:
                names.add(nm)
                names |= set(x.name for x in hits[0].subclasses)
                if nm in ("Sectionable", "BaseObject"):
                    names.discard(nm)
        builtin = {"str": "str", "list": "list", "tuple": "tuple", "dict": "dict", "int": "int", "float": "float", "bool": "bool"}
        for part in (ce.elts if isinstance(ce, ast.Tuple) else [ce]):
            if isinstance(part, ast.Name) and part.id in builtin:
                names.add(builtin[part.id])
            if isinstance(part, ast.Name) and part.id == "Iterable":
                names |= set(["list", "tuple", "set", "dict", "str", "generator"])
        return names

    # ---------------------------------------------------------------- summaries
    def entry_facts_for(self, tgt, args, f, caller_entry=()):
        """facts about tgt's parameters that follow from constant / omitted arguments at a call
        (None, True, False, other literals), or from the caller's own entry facts for plain names."""
        out = []
        allp = tgt.params + tgt.kwonly
        known = dict(caller_entry)
        for i, p in enumerate(allp):
            if i == 0 and (tgt.has_self or tgt.name == "__init__"):
                continue
            a = args.get(i) if isinstance(args, dict) else None
            if a is None:
                a = tgt.defaults.get(p)
                if a is None:
                    continue
            if isinstance(a, ast.Constant):
                v = a.value
                if v is None:
                    out += [("%s is None" % p, True), (p, False)]
                elif v is True or v is False:
                    out += [(p, v), ("%s is None" % p, False)]
                else:
                    out += [("%s is None" % p, False), (p, bool(v))]
            elif isinstance(a, ast.Name) and f is not None:
                for suffix, key in ((" is None", "%s is None" % a.id), ("", a.id)):
                    if key in known:
                        out.append(("%s%s" % (p, suffix), known[key]))
        return tuple(sorted(set(out)))

    def dead_under_entry(self, f, g, node, entry):
        """node cannot execute when the entry facts hold (a dominating branch is refuted while its names are still unchanged)."""
        if not entry:
            return False
        key = (f.qualname, node.id, entry)
        if key in self._dead_cache:
            return self._dead_cache[key]
        res = False
        ax = self.an.alias_expander(f) if hasattr(self.an, "alias_expander") else None
        for test, pol, br in g.dominating_conditions(node):
            if pol not in ("true", "false"):
                continue
            ttext = norm(ax.expand(test, br)) if ax is not None else norm(test)
            names = names_in_text(ttext)
            rel = [(t, v) for (t, v) in entry if names_in_text(t) & names]
            if not rel:
                continue
            if not all(self._fact_still_valid(f, g, g.entry, br, t) for t, _ in rel):
                continue
            v = self._tri_eval(ttext, list(rel), {})
            if v is not None and v != (pol == "true"):
                res = True
                break
        self._dead_cache[key] = res
        return res

    def summary(self, f, entry=()):
        """list of RaiseSite escaping f (guards in f's terms); entry: facts about f's parameters known at the call"""
        key = (f.qualname, entry)
        if key in self.R:
            return self.R[key]
        if key in self._busy:
            return []
        self._busy.add(key)
        out = {}
        g = self.s.cfg(f)
        for node in g.nodes:
            if not g.reachable(node):
                continue
            if entry and self.dead_under_entry(f, g, node, entry):
                continue
            for ev in node_events(node):
                for site in self.event_raises(f, node, ev, entry=entry):
                    if self._caught_locally(g, node, site.exc):
                        continue
                    out.setdefault(site.key(), site)
            # bare `raise` inside a handler re-raises what the handler caught: modelled by the
            # handler's declared classes
        self._busy.discard(key)
        res = list(out.values())
        if not self._busy:
            self.R[key] = res
        return res

    def _caught_locally(self, g, node, exc):
        for d in enclosing_handlers(g, node):
            for k, h in d.succ:
                if k == "except" and catches(h.info["classes"], exc):
                    return True
        return False

    def own_guards(self, f, node):
        return [(t, p) for (t, p) in self.facts_at(f, node) if not t.startswith("ALIAS ")][-12:]

    def event_raises(self, f, node, ev, with_discharge=True, entry=()):
        key = (f.qualname, node.id, id(ev["ast"]), ev["kind"], with_discharge, entry)
        if key in self._ev_cache:
            return self._ev_cache[key]
        if entry and self._event_dead_under_entry(f, self.s.cfg(f), node, ev, entry):
            res = []
        else:
            extra = self._guard_facts(f, node, ev)
            store = self.__dict__.setdefault("_ev_guard_facts", {})
            fkey = (f.qualname, node.id)
            prev = store.get(fkey)
            if extra:
                store[fkey] = extra
            try:
                res = self._event_raises(f, node, ev, with_discharge, entry)
            finally:
                if extra:
                    if prev is None:
                        store.pop(fkey, None)
                    else:
                        store[fkey] = prev
        if not self._busy or self._busy == set([(f.qualname, entry)]):
            self._ev_cache[key] = res
        return res

    def _event_raises(self, f, node, ev, with_discharge=True, entry=()):
        """RaiseSites an event may produce, in f's terms (already discharged against f's facts)."""
        k = ev["kind"]
        a = ev["ast"]
        out = []
        if k == "raise":
            exc = ev.get("exc")
            if exc is None:
                e = a.exc
                if e is None:
                    # bare raise: re-raises the classes of the enclosing handler
                    classes = self._handler_classes_of(f, node)
                    for c in classes:
                        out.append(RaiseSite(c, (f.short, "re-raise in handler"), self.own_guards(f, node), (), node.lineno, f.module.path))
                    return [s for s in out if s.exc not in self.exclude]
                exc = unparse(e.func if isinstance(e, ast.Call) else e).split(".")[-1]
                if isinstance(e, ast.Name) and e.id not in EXC_PARENTS:
                    classes = self._handler_classes_of(f, node)
                    exc = classes[0] if classes else "Exception"
            if exc in self.exclude:
                return []
            txt = unparse(a).split("\n")[0]
            txt = re.sub(r"\s+", " ", txt)[:90]
            return [RaiseSite(exc, (f.short, txt), self.own_guards(f, node), (), node.lineno, f.module.path)]
        callees = []     # (FuncInfo, {param index: arg expr}, call text)
        if k == "call":
            tgts = self.s.targets(a, f)
            # a receiver stored just before from a local name has the (more precise) kinds of that name
            if isinstance(a.func, ast.Attribute) and isinstance(a.func.value, ast.Attribute):
                rt = norm(a.func.value)
                for t, _ in self.facts_at(f, node):
                    if t.startswith("ALIAS ") and t[6:].split(" = ")[0] == rt:
                        import copy as _copy
                        a2 = _copy.copy(a)
                        a2.func = _copy.copy(a.func)
                        a2.func.value = ast.Name(id=t[6:].split(" = ")[1], ctx=ast.Load())
                        g0 = self.s.cfg(f)
                        tgts = self.k.resolve_call(a2, f, self.k.envs.get(f.qualname, {}), g0.dominating_conditions(node))
            for tgt in tgts:
                if isinstance(tgt, FuncInfo):
                    callees.append((tgt, self.s.arg_exprs(a, tgt, f), self.label(f, node, a.func)))
                elif isinstance(tgt, tuple) and self.lib and tgt[0] in ("ext", "builtin"):
                    name = tgt[1] if tgt[0] == "ext" else tgt[1]
                    name = unparse(a.func) if tgt[0] == "ext" else name
                    for exc in LIB_RAISES.get(name, ()):
                        if exc in self.exclude:
                            continue
                        if name in ("int", "float"):
                            # counted only when applied directly to caller supplied data (a bare parameter)
                            if not (a.args and isinstance(a.args[0], ast.Name) and a.args[0].id in f.params):
                                continue
                            # ... and not after the same text passed str.isdigit() (`t.isdigit() and int(t) >= 0`, or a dominating test)
                            if self._after_isdigit(f, node, a):
                                continue
                        out.append(RaiseSite(exc, (f.short, "%s(...)" % name), self.own_guards(f, node), (), node.lineno, f.module.path))
            # Thread(target=...) : exceptions of the target do not propagate to the caller
        elif k == "store_attr":
            for s in self.k.setter_targets(a, f):
                args = {0: a.value}
                if ev.get("value") is not None:
                    args[1] = ev["value"]
                callees.append((s, args, self.label(f, node, a, " =")))
        elif k == "load_prop":
            for gt in self.k.getter_targets(a, f):
                callees.append((gt, {0: a.value}, self.label(f, node, a)))
        elif k in ("contains", "eq", "iter", "load_sub", "store_sub", "del_sub"):
            recv, name, args = {"contains": (ev.get("container"), "__contains__", [ev.get("item")]),
                                "eq": (ev.get("left"), "__eq__", [ev.get("right")]),
                                "iter": (a, "__iter__", []),
                                "load_sub": (getattr(a, "value", None), "__getitem__", [getattr(a, "slice", None)]),
                                "store_sub": (getattr(a, "value", None), "__setitem__", [getattr(a, "slice", None), ev.get("value")]),
                                "del_sub": (getattr(a, "value", None), "__delitem__", [getattr(a, "slice", None)])}[k]
            if recv is not None:
                for kd in self.k.ek(recv, f, self.k.envs.get(f.qualname, {})):
                    cls = self.k.class_by_kind(kd)
                    m = cls.lookup_method(name) if cls is not None else None
                    if m is not None:
                        amap = {0: recv}
                        for i, x in enumerate(args):
                            if x is not None:
                                amap[i + 1] = x
                        callees.append((m, amap, self.label(f, node, recv, " " + name)))
        facts = None
        own = None
        alts = self._alias_alternatives(f, node, a) if k in ("call", "store_attr", "load_prop") else [({}, [])]
        for tgt, args, ctext in callees:
            if tgt.is_generator and k == "call":
                continue     # calling a generator function runs nothing; iteration does (approximated at the call's consumer)
            for site in self.summary(tgt, self.entry_facts_for(tgt, args, f, entry)):
                lifted0 = self.lift(site, tgt, args, f, node, ctext)
                if lifted0 is None:
                    continue
                lifted0.call, lifted0.tgt, lifted0.evkind = a, tgt, k
                lifted = lifted0
                if alts != [({}, [])]:
                    # the receiver / an argument is a local bound to one of several locations (children = self._sections | self._props):
                    # the site is live iff it is live for one of the bindings, each taken with the conditions of that binding
                    live = None
                    for sub, extra in alts:
                        cand = RaiseSite(lifted0.exc, lifted0.origin, [(substitute(t, sub), p) for t, p in lifted0.guards] + list(extra),
                                         lifted0.chain, lifted0.lineno, lifted0.path, a, tgt, k)
                        if with_discharge:
                            if facts is None:
                                facts = self.facts_at(f, node)
                            if self.dead_reason(cand, tgt, args, f, node, facts + list(extra)):
                                continue
                        live = cand
                        break
                    if live is None:
                        self.discharged.append((f.short, lifted0, "dead for every binding of the aliased list"))
                        continue
                    lifted = live
                if with_discharge:
                    if facts is None:
                        facts = self.facts_at(f, node)
                    dead = self.dead_reason(lifted, tgt, args, f, node, facts)
                    if dead:
                        self.discharged.append((f.short, lifted, dead))
                        continue
                    hit = None
                    for c in self.contracts:
                        try:
                            if c["match"](self.owner, f, node, lifted):
                                hit = c
                                break
                        except Exception:
                            pass
                    if hit is not None:
                        self.contract_hits.append((f.short, lifted, hit["id"]))
                        continue
                # the conditions under which f reaches this call are necessary for the raise as well
                if own is None:
                    own = self.own_guards(f, node)
                lifted.guards = tuple(list(lifted.guards) + [g0 for g0 in own if g0 not in lifted.guards])[-36:]
                out.append(lifted)
        # generator functions: their body runs when iterated; attribute their raises to the call site
        if k == "call":
            for tgt in self.s.targets(a, f):
                if isinstance(tgt, FuncInfo) and tgt.is_generator:
                    for site in self.summary(tgt):
                        lifted = self.lift(site, tgt, self.s.arg_exprs(a, tgt, f), f, node, self.label(f, node, a.func))
                        if lifted is not None:
                            lifted.call, lifted.tgt, lifted.evkind = a, tgt, k
                            out.append(lifted)
        return out

    def label(self, f, node, expr, tail=""):
        """position and name independent text of the receiver chain `expr` in f: the first parameter is written `self`, a local
        variable is replaced by the repository classes it may hold ({Section|Property}); findings and contracts are keyed by it,
        so renaming a local neither hides nor resurrects them."""
        from .astutil import attr_chain
        parts = attr_chain(expr)
        if parts is None:
            if isinstance(expr, ast.Attribute):
                return "%s.%s%s" % (self.label(f, node, expr.value), expr.attr, tail)
            if isinstance(expr, ast.Call):
                return "%s()%s" % (self.label(f, node, expr.func), tail)
            if isinstance(expr, ast.Subscript):
                return "%s[]%s" % (self.label(f, node, expr.value), tail)
            return unparse(expr) + tail
        head = parts[0]
        if f.params and head == f.params[0] and f.has_self:
            head = "self"
        elif (head in f.params or head in f.kwonly) and not (f.name.startswith("_") and not f.name.startswith("__")):
            pass          # parameters of public functions are part of the API: keep their names
        elif head in self.s.local_names(f):
            try:
                ks = self._kinds_of_text(head, f, node) or set()
            except Exception:
                ks = set()
            names = sorted(set(self._kind_label(k) for k in ks) - set(["", None]))
            head = "{%s}" % "|".join(names) if names else "{local}"
        return ".".join([head] + parts[1:]) + tail

    def _kind_label(self, k):
        if k in ("None", "?", "UNKNOWN"):
            return ""
        if k.startswith("SmartList["):
            return "SmartList"
        if k.startswith(("class:", "func:", "module:", "builtin:", "ext:", "fmt:")):
            return k.split(":", 1)[1]
        return k[4:] if k.startswith("Base") else k

    def _after_isdigit(self, f, node, call):
        arg = unparse(call.args[0])
        want = "%s.isdigit()" % arg
        for r in node.expr_roots():
            for b in ast.walk(r):
                if isinstance(b, ast.BoolOp) and isinstance(b.op, ast.And):
                    seen = False
                    for v in b.values:
                        if unparse(v) == want:
                            seen = True
                        elif seen and any(y is call for y in ast.walk(v)):
                            return True
        return (want, True) in self.facts_at(f, node)

    def _alias_alternatives(self, f, node, a):
        """[(substitution {local: location text}, [(atom, polarity)] conditions of that binding)] for the first local in the
        receiver/arguments of the event that is bound (by several reaching definitions) to plain locations only."""
        from .dataflow import reaching_defs
        from .symtext import _is_location
        from .astutil import atoms_of as _atoms_of
        cache = self.__dict__.setdefault("_alt_cache", {})
        ckey = (f.qualname, node.id, id(a))
        if ckey in cache:
            return cache[ckey]
        res = self._alias_alternatives_uncached(f, node, a, reaching_defs, _is_location, _atoms_of)
        cache[ckey] = res
        return res

    def _alias_alternatives_uncached(self, f, node, a, reaching_defs, _is_location, _atoms_of):
        g = self.s.cfg(f)
        exprs = []
        if isinstance(a, ast.Call):
            exprs = [a.func] + list(a.args) + [k0.value for k0 in a.keywords]
        elif isinstance(a, ast.Attribute):
            exprs = [a.value]
        names = []
        for e in exprs:
            for y in ast.walk(e):
                if isinstance(y, ast.Name) and y.id not in f.params and y.id in self.s.local_names(f) and y.id not in names:
                    names.append(y.id)
        for name in names:
            defs = [d for d in reaching_defs(g, node, name)]
            if len(defs) == 1 and defs[0].kind == "stmt" and isinstance(defs[0].ast, ast.Assign) and isinstance(defs[0].ast.value, ast.Call):
                alts = self._helper_location_alternatives(f, defs[0].ast.value, name, _is_location, _atoms_of)
                if alts:
                    return alts
            if len(defs) < 2 or any(d.kind != "stmt" or not isinstance(d.ast, ast.Assign) for d in defs):
                continue
            vals = []
            for d in defs:
                v = None
                for t in d.ast.targets:
                    if isinstance(t, ast.Name) and t.id == name:
                        v = d.ast.value
                    elif isinstance(t, (ast.Tuple, ast.List)) and isinstance(d.ast.value, (ast.Tuple, ast.List)) and len(t.elts) == len(d.ast.value.elts):
                        for i, el in enumerate(t.elts):
                            if isinstance(el, ast.Name) and el.id == name:
                                v = d.ast.value.elts[i]
                vals.append(v)
            if any(v is None or not _is_location(v) for v in vals):
                continue
            out = []
            for d, v in zip(defs, vals):
                conds = []
                for test, pol, br in g.dominating_conditions(d):
                    if pol in ("true", "false"):
                        conds += _atoms_of(test, pol == "true", norm)
                out.append(({name: norm(v)}, conds))
            return out
        return [({}, [])]

    def _helper_location_alternatives(self, f, call, name, _is_location, _atoms_of):
        """`x = self._pick(obj)` where the private helper returns one of several locations of its own object (or None): the bindings of x, each
        with the conditions under which the helper returns it, in the caller's terms"""
        fn = call.func
        hname = fn.attr if isinstance(fn, ast.Attribute) else fn.id if isinstance(fn, ast.Name) else ""
        if not hname.startswith("_") or hname.startswith("__"):
            return None
        tgts = [t for t in self.s.targets(call, f) if isinstance(t, FuncInfo)]
        if len(tgts) != 1 or tgts[0].is_generator:
            return None
        h = tgts[0]
        hg = self.s.cfg(h)
        args = self.s.arg_exprs(call, h, f)
        mapping = {}
        for i, pn in enumerate(h.params + h.kwonly):
            if i in args:
                mapping[pn] = norm(args[i])
        out = []
        for n in hg.nodes:
            if n.kind != "return":
                continue
            v = n.ast.value
            if v is None or (isinstance(v, ast.Constant) and v.value is None):
                continue          # the caller tests `x is None` before it uses x as a receiver
            if not _is_location(v):
                return None
            names_v = names_in_text(norm(v))
            if any(x in self.s.local_names(h) and x not in mapping for x in names_v):
                return None
            conds = []
            for test, pol, br in hg.dominating_conditions(n):
                if pol in ("true", "false"):
                    for t2, p2 in _atoms_of(test, pol == "true", norm):
                        if any(x in self.s.local_names(h) and x not in mapping for x in names_in_text(t2)):
                            continue
                        conds.append((substitute(t2, mapping), p2))
            out.append(({name: substitute(norm(v), mapping)}, conds))
        return out if len(out) >= 1 else None

    def _handler_classes_of(self, f, node):
        """exception classes of the except clause the node belongs to (for bare raise)."""
        for n in ast.walk(f.node):
            if isinstance(n, ast.ExceptHandler):
                if any(x is node.ast for x in ast.walk(n)):
                    from .cfg import handler_classes
                    cs = handler_classes(n)
                    return [c.split(".")[-1] if c != "*" else "Exception" for c in cs]
        return ["Exception"]

    def lift(self, site, tgt, args, f, node, ctext):
        """express a callee site in the caller's terms."""
        allp = tgt.params + tgt.kwonly
        mapping = {}
        const_map = {}
        for i, p in enumerate(allp):
            if i in args:
                mapping[p] = norm(args[i])
            elif p in tgt.defaults:
                mapping[p] = unparse(tgt.defaults[p])
            elif i == 0 and tgt.name == "__init__":
                mapping[p] = "NEWOBJ"
        # `for x in <*varargs>` with exactly one actual argument: x is that argument
        va = args.get("varargs") if isinstance(args, dict) else None
        loopvars = set()
        if tgt.vararg:
            for n in walk_no_nested(tgt.node):
                if isinstance(n, ast.For) and isinstance(n.iter, ast.Name) and n.iter.id == tgt.vararg and isinstance(n.target, ast.Name):
                    loopvars.add(n.target.id)
                    if va is not None and len(va) == 1:
                        mapping[n.target.id] = norm(va[0])
        allp = allp + [v for v in loopvars if v in mapping]
        guards = []
        for (t, pol) in site.guards:
            names = names_in_text(t)
            # atoms over callee locals cannot be transported
            if any(n not in allp and n not in ("isinstance", "None", "True", "False", "hasattr", "len", "not", "is", "in", "and", "or",
                                               "Iterable", "str", "list", "tuple", "dict", "int", "float", "bool")
                   and not self._is_global_name(n, tgt) for n in names):
                continue
            guards.append((substitute(t, mapping), pol))
        chain = ("%s:%s" % (f.short, ctext),) + site.chain
        return RaiseSite(site.exc, site.origin, guards[-30:], chain[:8], site.lineno, site.path)

    def _is_global_name(self, n, tgt):
        if n in tgt.module.classes or n in tgt.module.imports or n in tgt.module.assigns or n in tgt.module.functions:
            return True
        # function level imports of repository classes (from odml.section import BaseSection)
        return any(c.name == n for c in self.p.classes.values())

    def dead_reason(self, lifted, tgt, args, f, node, facts):
        """why the lifted site cannot happen at this call site (None = live)."""
        const_map = {}
        for (t, pol) in lifted.guards:
            v = self.eval_atom(t, pol, f, node, facts, const_map)
            if v is False:
                return "guard `%s` is %s here" % (t, not pol)
        # the guards must be consistent with each other: simple atoms serve as facts for compound ones
        simple = [(t, pol) for (t, pol) in lifted.guards if " and " not in t and " or " not in t]
        if simple:
            for (t, pol) in lifted.guards:
                if " and " in t or " or " in t:
                    v = self._tri_eval(t, list(facts) + simple, {})
                    if v is not None and v != pol:
                        return "guards `%s` = %s and %s cannot hold together" % (t, pol, [x for x in simple if x[0] in t][:2])
            seen = {}
            for (t, pol) in simple:
                if seen.get(t, pol) != pol:
                    return "guards require `%s` to be both true and false" % t
                seen[t] = pol
        # isinstance guards on one object jointly exclude every kind it can have
        per_obj = {}
        for (t, pol) in lifted.guards:
            m = re.match(r"^isinstance\((.+), (.+)\)$", t)
            if m and not m.group(2).endswith("._content_type"):
                per_obj.setdefault(m.group(1), []).append((m.group(2), pol))
        for obj, tests in per_obj.items():
            ks = self._kinds_of_text(obj, f, node)
            if not ks or "?" in ks:
                continue
            rem = set(ks)
            for cls_text, pol in tests:
                ce = self._parse(cls_text)
                if ce is None:
                    continue
                names = self._class_names(ce, f)
                if not names:
                    continue
                rem = (rem & names) if pol else (rem - names)
            if not rem:
                return "isinstance guards on %s exclude all its kinds %s" % (obj, sorted(ks))
        # a fact `not (A and B ...)` contradicts guards that require every conjunct
        gset = set(lifted.guards)
        for ft, fp in facts:
            if fp is False and " and " in ft:
                e = self._parse(ft)
                if isinstance(e, ast.BoolOp) and isinstance(e.op, ast.And):
                    need = []
                    for v in e.values:
                        need += atoms_of(v, True)
                    if need and all(a in gset for a in need):
                        return "guards require `%s`, which is false here" % ft
        return None
