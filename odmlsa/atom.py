"""ATOM: validate-before-mutate on every exceptional path.

For a function f, every CFG path that leaves f by an exception is replayed as a sequence of
events in evaluation order.  Each event contributes
    - live raise sites (explicit raises, reviewed library raises, callee summaries after discharge),
    - visible writes (receiver origin not FRESH; in a constructor the object under construction is
      fresh until it is published into a parent),
    - for a call of a repository function g: [live raises of g] [writes of g] [late raises of g],
      where late(g) are the raises g itself can produce after its own visible writes (computed by the
      same analysis, bottom-up).
A violation is a visible write that is still in effect when the exception escapes f.  A store that
puts back a value saved from the same field before its first store on the path (rollback idiom, in
straight-line code or in a handler) cancels the earlier stores.
Dead-raise contracts (tables.ATOM_CONTRACTS) name the few raises whose infeasibility rests on an
argument the analysis cannot derive; each is one raise origin on one call chain and is printed.
"""
import ast

from .cfg import PathLimit
from .events import node_events
from .kinds import LIST_MUTATORS
from .model import FuncInfo, unparse
from .raises import Raises, catches, norm


class Finding(object):
    def __init__(self, func, site, writes, path_lines, kind="own"):
        self.func = func
        self.site = site
        self.writes = writes
        self.path_lines = path_lines
        self.kind = kind      # 'own' (a write of f precedes the raise) | 'inherited' (callee's own lateness)

    def via(self):
        """the call (or raise) of this function that fails; hops through private helpers of the same class / module are
        skipped, so that moving a block into such a helper does not rename the finding."""
        for c in self.site.chain:
            fn, call = c.split(":", 1)
            callee = call.split(" ")[0].split(".")[-1].split("(")[0]
            recv = call.rsplit(".", 1)[0] if "." in call else ""
            if callee.startswith("_") and not callee.startswith("__") and recv in ("self", "cls", "") and not call.endswith("="):
                continue
            return call
        return "raise"

    def key(self):
        """rule-and-construct key without positions: function, the call (or raise) in it that fails, exception class"""
        return "%s|%s|%s" % (self.func.short, self.via(), self.site.exc)

    def fine_key(self):
        return "%s|%s@%s|%s" % (self.func.short, self.site.exc, self.site.origin[0], self.via())


class Atom(object):
    def __init__(self, analysis, contracts=(), exclude=("RuntimeError",)):
        self.an = analysis
        self.s = analysis.s
        self.k = analysis.k
        self.R = Raises(analysis, exclude=exclude, contracts=contracts, owner=self)
        self.contracts = list(contracts)
        self.memo = {}
        self.busy = set()
        self.contract_hits = []
        self.paths = 0

    # ------------------------------------------------------------------ visibility
    def visible(self, w, f):
        r, t = w.origin
        if r in ("FRESH", "CONST"):
            return False
        if w.kind == "fs" or (r == "GLOBAL" and w.func.startswith(("terminology.", "templates."))):
            return False     # the terminology/template cache is not part of any document
        if r == "GLOBAL" and w.func.startswith("validation."):
            return True
        if f.name == "__init__" and r == "P0" and t in ("", "val"):
            return False     # object under construction
        return True

    # -------------------------------------------------------------------- contracts
    def contract_for(self, f, node, site):
        for c in self.contracts:
            try:
                if c["match"](self, f, node, site):
                    self.contract_hits.append((f.short, site, c["id"]))
                    return c
            except Exception:
                continue
        return None

    # --------------------------------------------------------------------- analysis
    def late(self, g, single_iteration=False):
        """site keys g can raise after its own visible writes (single_iteration: a `for x in *varargs` loop runs once)"""
        return self.analyse(g, single_iteration)["late"]

    def analyse(self, f, single_iteration=False):
        key = (f.qualname, single_iteration)
        if key in self.memo:
            return self.memo[key]
        if f.qualname in self.busy:
            return {"findings": [], "late": {}, "paths": 0}
        self.busy.add(f.qualname)
        res = self._analyse(f, single_iteration)
        self.busy.discard(f.qualname)
        self.memo[key] = res
        return res

    def _event_profile(self, f, node, ev):
        """(early sites, visible writes, late sites) of one event."""
        sites = list(self.R.event_raises(f, node, ev))
        writes = [w for w in self.s.event_writes(f, node, ev) if self.visible(w, f)]
        late = []
        k = ev["kind"]
        callees = []
        if k == "call":
            for tgt in self.s.targets(ev["ast"], f):
                if isinstance(tgt, FuncInfo) and tgt.qualname != f.qualname:
                    callees.append(tgt)
        elif k == "store_attr":
            callees = list(self.k.setter_targets(ev["ast"], f))
        if callees and writes:
            late_keys = set()
            single = False
            if k == "call":
                for g in callees:
                    if g.vararg:
                        args = self.s.arg_exprs(ev["ast"], g, f)
                        single = len(args.get("varargs", [])) <= 1 and not any(isinstance(x, ast.Starred) for x in ev["ast"].args)
            for g in callees:
                if g.qualname in self.busy:
                    continue
                late_keys |= set(self.late(g, single_iteration=single and bool(g.vararg)).keys())
            if late_keys:
                late = [s for s in sites if (s.exc, s.origin) in late_keys]
        return sites, writes, late

    def _analyse(self, f, single_iteration=False):
        g = self.s.cfg(f)
        try:
            # loop_bound n allows a loop body to be entered n+1 times: 0 = one iteration, 1 = two iterations
            # (enough for "write in iteration k, raise in iteration k+1")
            paths = g.paths(loop_bound=0 if single_iteration else 1, limit=8000)
        except PathLimit:
            try:
                paths = g.paths(loop_bound=1, limit=30000)
            except PathLimit:
                paths = []
        exc_paths = [p for p in paths if p[-1][0].kind == "raise_exit"]
        self.paths += len(exc_paths)
        findings = {}
        late = {}
        profiles = {}

        def profile(node):
            if node.id not in profiles:
                evs = node_events(node)
                profiles[node.id] = [(ev,) + self._event_profile(f, node, ev) for ev in evs]
            return profiles[node.id]

        for p in exc_paths:
            self._replay(f, g, p, profile, findings, late)
        # a finding that arises through a recursive call of f repeats a root cause f reports directly
        direct = set((fd.site.exc, fd.site.origin) for fd in findings.values()
                     if fd.kind == "own" and not (fd.site.chain and self._is_recursive_chain(f, fd.site)))
        for fd in findings.values():
            if fd.kind == "own" and fd.site.chain and self._is_recursive_chain(f, fd.site) and (fd.site.exc, fd.site.origin) in direct:
                fd.kind = "subsumed"
        return {"findings": list(findings.values()), "late": late, "paths": len(exc_paths)}

    def _is_recursive_chain(self, f, site):
        """the site is reached through a call whose callee chain passes through f again"""
        return any(c.split(":", 1)[0] == f.short for c in site.chain[1:])

    def _replay(self, f, g, path, profile, findings, late):
        """replay one exceptional path; the escaping exception is raised at the last node left by an
        exc edge that is not followed by a catching handler."""
        # index of the node whose exception escapes
        esc = None
        for i in range(len(path) - 1, -1, -1):
            node, edge = path[i]
            if edge == "exc" and node.kind not in ("dispatch", "withexit", "join"):
                esc = i
                break
        if esc is None:
            return
        # exception class constraints from the dispatch nodes after esc: (dispatch, taken edge, handler)
        after = path[esc + 1:]
        # earlier raise points that were caught: nodes left by exc before esc
        caught_points = [i for i in range(esc) if path[i][1] == "exc" and path[i][0].kind not in ("dispatch", "withexit", "join")]
        # --- collect writes in effect before the escaping node
        stores = []     # entries: dict(w=Write, node, idx)
        saved = {}      # local name -> (obj text, field) captured before first store on this path
        first_store = {}

        def apply_event_writes(node, ev, ws, idx):
            a = ev["ast"]
            if ev["kind"] in ("store_attr",) and isinstance(a, ast.Attribute) and not self.k.setter_targets(a, f):
                key = (norm(a.value), a.attr)
                v = ev.get("value")
                if isinstance(v, ast.Name) and saved.get(v.id) == key:
                    # rollback: cancels every earlier store to this field
                    for s in stores:
                        if s.get("key") == key:
                            s["cancelled"] = True
                    return
                for w in ws:
                    stores.append({"w": w, "key": key, "idx": idx, "node": node})
                first_store.setdefault(key, idx)
                return
            for w in ws:
                stores.append({"w": w, "key": None, "idx": idx, "node": node})

        def note_saves(node, idx):
            st = node.ast
            if node.kind == "stmt" and isinstance(st, ast.Assign) and len(st.targets) == 1 and isinstance(st.targets[0], ast.Name) \
                    and isinstance(st.value, ast.Attribute):
                key = (norm(st.value.value), norm(st.value).rsplit(".", 1)[1])
                if key not in first_store:
                    saved[st.targets[0].id] = key
                else:
                    saved.pop(st.targets[0].id, None)
            elif node.kind == "stmt" and isinstance(st, ast.Assign):
                for t in st.targets:
                    if isinstance(t, ast.Name):
                        saved.pop(t.id, None)

        for i, (node, edge) in enumerate(path[:esc]):
            if node.kind in ("entry", "exit", "raise_exit", "join", "dispatch", "handler", "withexit"):
                continue
            prof = profile(node)
            if edge == "exc":
                # a caught exception: events up to (conservatively: all but the last raising event's writes)
                # the raising event is unknown; take the first event that has live sites caught by the handler
                cut = len(prof)
                for j, (ev, sites, ws, lt) in enumerate(prof):
                    if sites:
                        cut = j
                        break
                for j, (ev, sites, ws, lt) in enumerate(prof[:cut]):
                    apply_event_writes(node, ev, ws, i)
                if cut < len(prof) and prof[cut][0].get("lazy"):
                    # a lazily evaluated argument (generator expression) raised while its consumer was already
                    # mutating: the consumer's writes may have happened partially
                    for (ev2, sites2, ws2, lt2) in prof[cut + 1:]:
                        if ev2["kind"] == "call" and not ev2.get("lazy"):
                            apply_event_writes(node, ev2, ws2, i)
                            break
            else:
                for (ev, sites, ws, lt) in prof:
                    apply_event_writes(node, ev, ws, i)
                note_saves(node, i)
        # --- the escaping node: try each event as the raising one
        node, _ = path[esc]
        prof = profile(node)
        lines = "->".join("L%d" % n.lineno for n, _ in path if n.lineno)[-150:]
        prior = [s for s in stores if not s.get("cancelled")]
        own_before = []
        for j, (ev, sites, ws, lt) in enumerate(prof):
            lazy_first = ev.get("lazy")
            for site in sites:
                if not self._propagates(g, path, esc, site.exc):
                    continue
                is_late = any(site.key() == l.key() for l in lt)
                effective = [s["w"] for s in prior] + own_before + (list(ws) if is_late else [])
                if lazy_first and j + 1 < len(prof):
                    # a lazily evaluated argument (generator expression) runs while the consuming call mutates
                    nxt = [x for x in prof[j + 1:] if x[0]["kind"] == "call" and not x[0].get("lazy")]
                    if nxt:
                        effective = effective + [w for w in nxt[0][2]]
                if effective:
                    kind = "own" if ([s["w"] for s in prior] + own_before) or lazy_first else "inherited"
                    fd = Finding(f, site, effective[:4], lines, kind)
                    # subsumed: the callee that raises has itself a finding for this origin (reported there)
                    if kind == "inherited" and self._callee_has_finding(f, ev, site):
                        fd.kind = "subsumed"
                    fk = fd.fine_key()
                    rank = {"own": 2, "subsumed": 1, "inherited": 0}
                    if fk not in findings or rank[fd.kind] > rank[findings[fk].kind]:
                        findings[fk] = fd
                    late[(site.exc, site.origin)] = site
            # this event completed: its writes are in effect for later events of the node
            a = ev["ast"]
            if ev["kind"] == "store_attr" and isinstance(a, ast.Attribute) and not self.k.setter_targets(a, f):
                key = (norm(a.value), a.attr)
                v = ev.get("value")
                if isinstance(v, ast.Name) and saved.get(v.id) == key:
                    prior = [s for s in prior if s.get("key") != key]
                    continue
            own_before += list(ws)

    def _callee_has_finding(self, f, ev, site):
        callees = []
        if ev["kind"] == "call":
            callees = [t for t in self.s.targets(ev["ast"], f) if isinstance(t, FuncInfo) and t.qualname != f.qualname]
        elif ev["kind"] == "store_attr":
            callees = list(self.k.setter_targets(ev["ast"], f))
        for g in callees:
            if g.qualname in self.busy:
                return True       # recursive call: the finding is reported once, at the outermost activation
            for fd in self.analyse(g)["findings"]:
                if fd.site.origin == site.origin and fd.site.exc == site.exc:
                    return True
        return False

    def _propagates(self, g, path, esc, exc):
        """is the continuation of the path after index esc consistent with an exception of class exc?"""
        for i in range(esc + 1, len(path)):
            node, edge = path[i]
            if node.kind == "dispatch":
                handlers = [h for k, h in node.succ if k == "except"]
                first = None
                for h in handlers:
                    if catches(h.info["classes"], exc):
                        first = h
                        break
                if edge == "except":
                    nxt = path[i + 1][0] if i + 1 < len(path) else None
                    return False   # the exception is caught here: it does not escape from this raise point
                if edge == "exc":
                    if first is not None:
                        return False
            elif node.kind in ("withexit", "join"):
                continue
            elif node.kind == "raise_exit":
                return True
            else:
                return False
        return True
