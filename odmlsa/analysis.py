"""One-stop construction of the shared analyses for a check."""
from .kinds import Kinds
from .summaries import Summaries
from .tables import PARAM_KINDS


class Analysis(object):
    def __init__(self, prog):
        self.p = prog
        self.k = Kinds(prog, PARAM_KINDS)
        self.s = Summaries(prog, kinds=self.k)

    def alias_expander(self, f):
        """Expander restricted to pure location aliases (x = a.b / a[k] / y), cached per function."""
        cache = self.__dict__.setdefault("_alias_x", {})
        if f.qualname not in cache:
            from .symtext import Expander
            cache[f.qualname] = Expander(f, self.s.cfg(f), only_locations=True, inline=self.p)
        return cache[f.qualname]

    def note_coverage(self, rep):
        rep.analysed["call_sites"] = self.s.n_calls
        rep.analysed["unresolved"] = len(self.s.unresolved)
        rep.extra["unresolved_calls"] = sorted(set("%s: %s" % u for u in self.s.unresolved))[:60]
        rep.extra["summary_fixpoint_iterations"] = self.s.iterations


_CACHE = {}


def get(prog):
    # memoised on the Program object itself (object ids are reused after garbage collection)
    if "_analysis" not in prog.__dict__:
        prog.__dict__["_analysis"] = Analysis(prog)
    return prog.__dict__["_analysis"]
