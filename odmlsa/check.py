"""CLI:  python3 -m odmlsa.check <ID> [--tier quick|thorough] [--replay file]

Runs the static check of one property against /repo's current working tree.
"""
import argparse
import importlib
import json
import os
import sys
import traceback

from .model import AnalysisError, Program
from .report import Report, EVIDENCE_DIR


def run_check(pid, tier="quick", seed=0, sources=None, quiet=False):
    """returns (exit_code, report). sources: optional in-memory source map."""
    mod = importlib.import_module("odmlsa.checks.%s" % pid.lower())
    prog = Program(sources=sources)
    rep = Report(pid, tier, seed)
    for m in sorted(prog.modules.values(), key=lambda m0: m0.name):
        for owner, now, cur, old in getattr(m, "restored_names", ()):
            rep.note("private helper %s.%s%s is read as %s%s (matched by its role: kind, parameters, body and referrers of the helper the "
                     "rules know under that name; see odmlsa/roles.py)" % (m.name, now + "." if now else "", cur, owner + "." if owner else "", old))
    try:
        mod.run(prog, rep)
    except Exception as exc:
        # an anchor that vanished / a floor that is not met after violations were already established: the violations are the
        # verdict (exit 1); without any violation the analysis itself is broken (exit 2)
        if not any(i["status"] == "violation" for i in rep.items):
            raise
        rep.note("analysis stopped early after the violations above: %s: %s" % (type(exc).__name__, str(exc)[:200]))
    return prog, rep


def main(argv=None):
    ap = argparse.ArgumentParser()
    ap.add_argument("pid")
    ap.add_argument("--tier", default=os.environ.get("VERIF_TIER", "quick"))
    ap.add_argument("--replay", default=None)
    args = ap.parse_args(argv)
    pid = args.pid.upper()
    tier = args.tier if args.tier in ("quick", "thorough") else "quick"
    try:
        seed = int(os.environ.get("VERIF_SEED", "0"))
    except ValueError:
        seed = 0
    if args.replay:
        with open(args.replay) as fobj:
            rec = json.load(fobj)
        print("replaying violation %s: [%s] %s\n  at %s\n  %s" % (
            rec.get("property"), rec.get("rule"), rec.get("key"), rec.get("where"), rec.get("detail")))
    try:
        prog, rep = run_check(pid, tier, seed)
        if tier == "thorough":
            from . import selftest
            selftest.run(pid, prog, rep)
        code = rep.finish()
    except AnalysisError as exc:
        print("ANALYSIS-ERROR property=%s %s" % (pid, exc))
        sys.exit(2)
    except Exception:
        traceback.print_exc()
        print("ANALYSIS-ERROR property=%s internal error in the checker" % pid)
        sys.exit(2)
    sys.exit(code)


if __name__ == "__main__":
    main()
