"""Repository specific lints shared by several properties.  Each one states a shape that is *absent* from the pinned tree and whose appearance
breaks a clause of the importing property; the expected count is zero, so every rule first proves on a built-in example that it still
recognises the shape (a rule that matches nothing passes vacuously forever)."""
import ast

from ..astutil import calls_in, call_name, where
from ..model import unparse, walk_no_nested


def _self_test(rep, rule, src, pred, what):
    tree = ast.parse(src)
    hits = [n for n in ast.walk(tree) if pred(n)]
    rep.check(bool(hits), rule, "built-in example: %s" % what, "recognised", "the rule does not recognise its own example (%s)" % what, "rules_lints.py")


def literal_bound(f, e):
    """the string constant an expression stands for: a literal, or a name bound exactly once - in the function or at module level - to one"""
    if isinstance(e, ast.Constant) and isinstance(e.value, str):
        return e.value
    if isinstance(e, ast.Name):
        local = [st for st in ast.walk(f.node) if isinstance(st, ast.Assign) and any(isinstance(t, ast.Name) and t.id == e.id for t in st.targets)]
        other = [y for y in ast.walk(f.node) if isinstance(y, ast.Name) and y.id == e.id and isinstance(y.ctx, (ast.Store, ast.Del))]
        if e.id in f.params:
            return None
        if len(local) == 1 and len(other) == 1 and isinstance(local[0].value, ast.Constant) and isinstance(local[0].value.value, str):
            return local[0].value.value
        if not local and not other:
            vals = f.module.assigns.get(e.id, [])
            if len(vals) == 1 and isinstance(vals[0], ast.Constant) and isinstance(vals[0].value, str):
                return vals[0].value
    return None


def _in_modules(prog, modules):
    for f in prog.all_functions():
        if f.module.name in modules:
            yield f


# ------------------------------------------------------------------------------------------------ memoising decorators
MEMO = ("lru_cache", "cache", "cached_property", "functools.lru_cache", "functools.cache", "functools.cached_property")


def _is_memo(d):
    t = unparse(d.func if isinstance(d, ast.Call) else d)
    return t in MEMO or t.split(".")[-1] in ("lru_cache", "cached_property")


def no_memo_decorators(prog, rep, rule, modules, why):
    rep.rule(rule, "no function of %s that looks at the file system, the clock, the network or at attributes of an object is decorated with "
                   "functools.lru_cache / cache / cached_property: %s" % (", ".join(m[5:] for m in modules), why))
    n = 0
    for f in _in_modules(prog, modules):
        n += 1
        bad = [d for d in f.node.decorator_list if _is_memo(d)]
        if bad:
            # a memoised function of its arguments alone (md5 of a url, a joined name) stays the same function; one that looks at the file
            # system, the clock, the network or at an object's attributes does not
            me = f.params[0] if f.params and f.cls is not None else None
            pure_path = ("os.path.join", "os.path.basename", "os.path.dirname", "os.path.splitext", "os.path.split", "os.path.normpath")
            stateful = any((call_name(c).split(".")[0] in ("os", "tempfile", "time", "datetime", "dt", "urllib", "urllib2", "shutil", "glob", "pathlib")
                            and call_name(c) not in pure_path) or call_name(c) in ("open", "urlopen") for c in calls_in(f.node)) or \
                any(isinstance(y, ast.Attribute) and isinstance(y.value, ast.Name) and y.value.id == me for y in ast.walk(f.node)) or \
                any(isinstance(y, ast.Global) for y in ast.walk(f.node))
            if not stateful:
                rep.ok(rule, "%s is memoised but reads only its arguments" % f.short, unparse(bad[0]), f.where)
                continue
        rep.check(not bad, rule, "%s is not memoised" % f.short, "ok",
                  "%s is memoised with %s: %s" % (f.short, unparse(bad[0]) if bad else "", why), f.where,
                  witness="the remembered answer outlives the state it was computed from")
    _self_test(rep, rule, "@lru_cache(maxsize=None)\ndef f():\n    return 1\n",
               lambda n: isinstance(n, ast.FunctionDef) and any(_is_memo(d) for d in n.decorator_list), "@lru_cache")
    rep.note("%s: %d functions examined" % (rule, n))


# ------------------------------------------------------------------------------------------------ process wide warning filters
def no_global_warning_filters(prog, rep, rule):
    rep.rule(rule, "no function of the package changes the process wide warning filters (warnings.simplefilter / filterwarnings / resetwarnings) "
                   "outside a `with warnings.catch_warnings():` block: the 'unresolved issues' warning of a later save would be swallowed")
    n = 0
    for f in prog.all_functions():
        if not f.module.name.startswith("odml"):
            continue
        inside = set()
        for w in walk_no_nested(f.node):
            if isinstance(w, ast.With) and any("catch_warnings" in unparse(i.context_expr) for i in w.items):
                inside |= set(id(y) for b in w.body for y in ast.walk(b))
        for c in calls_in(f.node):
            fn = call_name(c)
            if fn.split(".")[-1] in ("simplefilter", "filterwarnings", "resetwarnings") and fn.split(".")[0] in ("warnings", fn):
                n += 1
                rep.check(id(c) in inside, rule, "%s: %s inside catch_warnings" % (f.short, fn), "scoped",
                          "%s calls %s outside `with warnings.catch_warnings()`: the filter stays installed for the whole process" % (f.short, unparse(c)[:60]),
                          where(f, c), witness="export to RDF once, then save a document with warnings only: no warning is shown")
    _self_test(rep, rule, "def f():\n    warnings.catch_warnings()\n    warnings.simplefilter('ignore')\n",
               lambda n: isinstance(n, ast.Call) and unparse(n.func) == "warnings.simplefilter", "simplefilter without with")
    rep.note("%s: %d filter calls examined" % (rule, n))


# ------------------------------------------------------------------------------------------------ dict.fromkeys with one shared container
def _mutable_display(v):
    return isinstance(v, (ast.List, ast.Dict, ast.Set)) or (isinstance(v, ast.Call) and unparse(v.func) in ("set", "list", "dict", "collections.defaultdict", "defaultdict"))


def no_shared_fromkeys(prog, rep, rule, modules):
    rep.rule(rule, "no dict.fromkeys(keys, <list / set / dict>) in %s: every key would share that one container (a handler registered for "
                   "one odml class would run for all of them)" % ", ".join(m[5:] for m in modules))
    n = 0
    for f in _in_modules(prog, modules):
        for c in calls_in(f.node):
            if isinstance(c.func, ast.Attribute) and c.func.attr == "fromkeys" and len(c.args) == 2:
                n += 1
                rep.check(not _mutable_display(c.args[1]), rule, "%s: %s" % (f.short, unparse(c)[:50]), "immutable default",
                          "%s builds a table with %s: all keys share one %s" % (f.short, unparse(c)[:70], unparse(c.args[1])), where(f, c),
                          witness="Validation(reset=True) with a custom Section rule: the rule also runs on Properties")
    _self_test(rep, rule, "x = dict.fromkeys(k, set())\n",
               lambda n: isinstance(n, ast.Call) and isinstance(n.func, ast.Attribute) and n.func.attr == "fromkeys" and _mutable_display(n.args[1]), "fromkeys(k, set())")
    rep.note("%s: %d fromkeys calls with a default examined" % (rule, n))


# ------------------------------------------------------------------------------------------------ enum members are distinct
def enum_values_distinct(prog, rep, rule, clsname, floor):
    rep.rule(rule, "the members of %s have pairwise distinct values (two names with one value are aliases: a report selected by one id "
                   "also answers to the other)" % clsname)
    cls = prog.cls(clsname)
    vals = {}
    for st in cls.node.body:
        if isinstance(st, ast.Assign) and len(st.targets) == 1 and isinstance(st.targets[0], ast.Name) and not st.targets[0].id.startswith("_"):
            vals.setdefault(unparse(st.value), []).append(st.targets[0].id)
    rep.floor(rule, sum(len(v) for v in vals.values()), floor, "members of %s" % clsname)
    for v, names in sorted(vals.items()):
        rep.check(len(names) == 1, rule, "%s value %s" % (clsname, v), names[0],
                  "%s members %s share the value %s: they are one member under several names" % (clsname, names, v), cls.module.path,
                  witness="filter issues by %s.%s: those of %s come along" % (clsname, names[-1], names[0]))


# ------------------------------------------------------------------------------------------------ mutable class level state of tool classes
_INPLACE = ("append", "extend", "insert", "add", "update", "clear", "pop", "remove", "setdefault", "popitem", "discard", "sort")


def class_level_mutables(prog, rep, rule, classnames):
    rep.rule(rule, "for the classes %s: an attribute that is a list / dict / set display at class level is not changed in place through an "
                   "instance (self.x.append, del self.x[:], self.x[k] = v) unless __init__ binds a fresh one first - all instances would share it"
             % ", ".join(classnames))
    n = 0
    for cname in classnames:
        cls = prog.cls(cname)
        shared = [st.targets[0].id for st in cls.node.body if isinstance(st, ast.Assign) and len(st.targets) == 1 and isinstance(st.targets[0], ast.Name)
                  and _mutable_display(st.value)]
        init = cls.methods.get("__init__")
        fresh = set()
        if init is not None and init.params:
            for st in walk_no_nested(init.node):
                if isinstance(st, ast.Assign):
                    for t in st.targets:
                        if isinstance(t, ast.Attribute) and unparse(t.value) == init.params[0]:
                            fresh.add(t.attr)
        for a in shared:
            if a in fresh:
                continue
            for m in cls.methods.values():
                if not m.params or m.kind in ("static", "classmethod"):
                    continue
                me = m.params[0]
                for x in walk_no_nested(m.node):
                    hit = None
                    if isinstance(x, ast.Call) and isinstance(x.func, ast.Attribute) and x.func.attr in _INPLACE and unparse(x.func.value) == "%s.%s" % (me, a):
                        hit = x
                    elif isinstance(x, (ast.Delete, ast.Assign, ast.AugAssign)):
                        tg = x.targets if isinstance(x, (ast.Delete, ast.Assign)) else [x.target]
                        if any(isinstance(t, ast.Subscript) and unparse(t.value) == "%s.%s" % (me, a) for t in tg) or \
                                (isinstance(x, ast.AugAssign) and unparse(x.target) == "%s.%s" % (me, a)):
                            hit = x
                    if hit is not None:
                        n += 1
                        rep.fail(rule, "%s.%s|%s" % (cname, a, m.name),
                                 "%s.%s is a class level %s that %s changes in place through the instance (`%s`): every %s shares it"
                                 % (cname, a, "container", m.short, unparse(hit)[:50], cname), where(m, hit),
                                 witness="two %s objects: what the second one records shows up in / wipes the first one's %s" % (cname, a))
        rep.ok(rule, "%s: class level containers %s" % (cname, shared), "none changed in place through an instance without a fresh binding in __init__", cls.module.path)
    _self_test(rep, rule, "class A:\n    log = []\n    def f(self):\n        del self.log[:]\n",
               lambda n: isinstance(n, ast.Delete) and isinstance(n.targets[0], ast.Subscript), "del self.log[:]")


# ------------------------------------------------------------------------------------------------ getters compute, they do not remember
def getters_store_nothing(prog, rep, rule, classnames, why):
    rep.rule(rule, "the property getters of %s store no attribute of self: %s" % (", ".join(classnames), why))
    n = 0
    for cname in classnames:
        cls = prog.cls(cname)
        for pname, acc in sorted(cls.props.items()):
            g = acc.get("getter")
            if g is None or not g.params:
                continue
            n += 1
            me = g.params[0]
            stores = [x for x in walk_no_nested(g.node) if isinstance(x, (ast.Assign, ast.AugAssign)) and
                      any(isinstance(t, ast.Attribute) and unparse(t.value) == me for t in (x.targets if isinstance(x, ast.Assign) else [x.target]))]
            rep.check(not stores, rule, "%s.%s getter stores nothing" % (cname, pname), "ok",
                      "the getter of %s.%s stores `%s`: the remembered answer is not updated when the tree changes (%s)"
                      % (cname, pname, unparse(stores[0])[:50] if stores else "", why), g.where,
                      witness="ask once, move an ancestor to another Document, ask again: the old answer")
    rep.floor(rule, n, 3, "getters examined")


# ------------------------------------------------------------------------------------------------ str.strip with a text, not a character set
def strip_with_variable(prog, rep, rule, modules):
    rep.rule(rule, "in %s no lstrip / rstrip / strip is handed a computed text: the argument is a *set of characters*, so "
                   "'/a/a'.lstrip('/a') removes the whole path, not a prefix" % ", ".join(m[5:] for m in modules))
    n = 0
    for f in _in_modules(prog, modules):
        for c in calls_in(f.node):
            if isinstance(c.func, ast.Attribute) and c.func.attr in ("lstrip", "rstrip", "strip") and len(c.args) == 1 \
                    and not (isinstance(c.func.value, ast.Name) and c.func.value.id in ("str", "bytes")):      # str.strip(word): the argument is the text
                n += 1
                lit = isinstance(c.args[0], ast.Constant) or literal_bound(f, c.args[0]) is not None
                rep.check(lit, rule, "%s: %s" % (f.short, unparse(c)[:50]), "literal character set",
                          "%s strips with the computed text `%s`: every leading character that occurs anywhere in it is removed, not the prefix"
                          % (f.short, unparse(c.args[0])[:40]), where(f, c),
                          witness="relative path from /a/a to /a/aa: 'aa' instead of '../aa'")
    _self_test(rep, rule, "x = a.lstrip(parent)\n",
               lambda n: isinstance(n, ast.Call) and isinstance(n.func, ast.Attribute) and n.func.attr == "lstrip" and not isinstance(n.args[0], ast.Constant), "lstrip(parent)")
    rep.note("%s: %d strip calls with an argument examined" % (rule, n))


# ------------------------------------------------------------------------------------------------ iteration over a set display
def _has_str(e):
    return any(isinstance(y, ast.Constant) and isinstance(y.value, str) for y in ast.walk(e))


def set_display_iteration(prog, rep, rule, modules):
    rep.rule(rule, "in %s no `for` statement iterates a set display with text elements (directly or through a name bound once to one): the "
                   "order of such a set changes with PYTHONHASHSEED, so a first-match loop reports differently from process to process"
             % ", ".join(m[5:] for m in modules))
    n = 0
    for modname in modules:
        mod = prog.modules[modname]
        consts = {}
        for st in mod.tree.body:
            if isinstance(st, ast.Assign) and len(st.targets) == 1 and isinstance(st.targets[0], ast.Name):
                consts[st.targets[0].id] = st.value
        for f in _in_modules(prog, (modname,)):
            local = dict(consts)
            for st in walk_no_nested(f.node):
                if isinstance(st, ast.Assign) and len(st.targets) == 1 and isinstance(st.targets[0], ast.Name):
                    local[st.targets[0].id] = st.value
            for st in walk_no_nested(f.node):
                if isinstance(st, ast.For):
                    it = st.iter
                    src = local.get(it.id) if isinstance(it, ast.Name) else it
                    if isinstance(src, ast.Call) and unparse(src.func) in ("set", "frozenset") and src.args:
                        src = ast.Set(elts=[src.args[0]])
                    def order_free(b, var=unparse(st.target)):
                        # filling a table / a set under the loop variable does not depend on the order
                        if isinstance(b, ast.Assign) and len(b.targets) == 1 and isinstance(b.targets[0], ast.Subscript) and unparse(b.targets[0].slice) == var:
                            return True
                        return isinstance(b, ast.Expr) and isinstance(b.value, ast.Call) and isinstance(b.value.func, ast.Attribute) \
                            and b.value.func.attr in ("add", "discard")
                    if isinstance(src, ast.Set) and _has_str(src) and not all(order_free(b) for b in st.body):
                        n += 1
                        rep.fail(rule, "%s|for %s" % (f.short, unparse(st.target)),
                                 "%s iterates the set %s: its order depends on the hash seed of the process" % (f.short, unparse(it)[:40]), where(f, st),
                                 witness="validate the same file under PYTHONHASHSEED=1 and =2: different suggested dtype")
    _self_test(rep, rule, "S = {('a', 1), ('b', 2)}\n", lambda n: isinstance(n, ast.Set) and _has_str(n), "set of pairs")
    if not n:
        rep.ok(rule, "no loop over a set display with text elements", "ok", ", ".join(modules))


# ------------------------------------------------------------------------------------------------ no join while holding a lock
def no_join_under_lock(prog, rep, rule, classnames):
    rep.rule(rule, "in %s no Thread.join() is called inside a `with <lock>:` block (or between acquire() and release()): the loader that is "
                   "joined calls load() for its own includes and would wait for that lock forever" % ", ".join(classnames))
    n = 0
    for cname in classnames:
        cls = prog.cls(cname)
        for m in cls.methods.values():
            for w in walk_no_nested(m.node):
                if isinstance(w, ast.With) and any(("lock" in unparse(i.context_expr).lower()) for i in w.items):
                    for c in [y for b in w.body for y in ast.walk(b) if isinstance(y, ast.Call)]:
                        if isinstance(c.func, ast.Attribute) and c.func.attr == "join" and not c.args:
                            n += 1
                            rep.fail(rule, "%s|join under lock" % m.short, "%s joins a loader thread while holding %s" % (m.short, unparse(w.items[0].context_expr)),
                                     where(m, c), witness="A includes B includes C: load(A) never returns")
    _self_test(rep, rule, "def f(self):\n    with self._lock:\n        t.join()\n",
               lambda n: isinstance(n, ast.With), "join inside with lock")
    if not n:
        rep.ok(rule, "no join under a lock", "ok", ", ".join(classnames))
