"""C16 - readers are total: a document, or a ParserException - never anything else.

Decided: exception escape bound per entry point (XMLReader.from_string/from_file, DictReader.to_odml):
only ParserException / InvalidVersionException escape in strict mode; layering: every call from the
reader functions into the model layer (object creation with parsed arguments, append, setters) sits in a
try that catches everything and reports through self.error; self.error cannot raise in lenient mode and
raises ParserException otherwise; library parse errors are converted; the value helpers called outside
those guards are total on every shape the parsers hand them; reader loops carry no state between siblings
(documents satisfy C03/C04 because children are attached through the owner API only: OWN-1).
NOT decided: non-termination or exotic exceptions inside lxml/yaml/json, wrong-shaped dictionaries
(outside "shaped like an odML dictionary"), YAML scanner errors of the text front end.
"""
import ast

from .. import analysis
from ..astutil import calls_in, call_name, where
from ..cfg import build_cfg, enclosing_handlers
from ..dataflow import private_closure
from ..logic import known
from ..model import AnalysisError, FuncInfo, unparse, walk_no_nested
from ..raises import Raises
from .rules_card import cardinality_roundtrip
from .rules_loops import loop_carried_state

DECIDED = [
    "ESC-2 raise summaries of XMLReader.from_string/from_file and DictReader.to_odml contain only ParserException / InvalidVersionException",
    "LAYER-1 every reader call into the model layer (create with parsed arguments, append, setters) is inside try/except Exception -> self.error",
    "LAYER-2 parsed children are attached one by one (a refusal costs one child, not the rest of the list)",
    "ERR-1 error() raises ParserException unless ignore_errors, then it only warns; warn() cannot raise; _handle_version raises only the two parser exceptions",
    "LIB-1 ET.XML / ET.parse are wrapped: XMLSyntaxError -> ParserException",
    "TOT-1 parse_cardinality (both) is total on every order type of input (no raise, normal form or None)",
    "LOOP-1 no parsed state leaks from one sibling element to the next",
]
NOT_DECIDED = ["library internals (lxml, yaml, json): non-termination, entity expansion", "dictionaries of the wrong shape",
               "YAML scanner/composer errors of ODMLReader (text front end, outside the dictionary reader)"]

MODEL_MODULES = ("odml.base", "odml.section", "odml.property", "odml.doc", "odml.dtypes", "odml.util", "odml.validation")
ALLOWED = ("ParserException", "InvalidVersionException")
READER_FUNCS = ("tools.xmlparser.XMLReader.parse_tag", "tools.dict_parser.DictReader.to_odml",
                "tools.dict_parser.DictReader.parse_sections", "tools.dict_parser.DictReader.parse_properties")


def run(prog, rep):
    rep.decided = DECIDED
    rep.not_decided = NOT_DECIDED
    an = analysis.get(prog)
    an.note_coverage(rep)
    K, S = an.k, an.s
    R = Raises(an)

    # ----------------------------------------------------------------- ESC-2
    rep.rule("ESC-2", "raise summary (explicit raises of the whole package reachable through resolved calls + reviewed library raises, "
                      "minus what enclosing handlers catch) of each entry point: every escaping class is ParserException or "
                      "InvalidVersionException")
    for qn in ("tools.xmlparser.XMLReader.from_string", "tools.xmlparser.XMLReader.from_file", "tools.dict_parser.DictReader.to_odml"):
        f = prog.func(qn)
        rep.saw_function(f)
        sites = R.summary(f)
        if not sites:
            raise AnalysisError("%s has an empty raise summary: the analysis went blind" % qn)
        groups = {}
        for s in sites:
            if s.exc in ALLOWED:
                continue
            if qn.endswith("from_file") and s.exc == "OSError":
                continue      # opening the path itself: outside the property
            groups.setdefault("%s@%s" % (s.exc, s.origin[0]), s)
        rep.check(any(s.exc in ALLOWED for s in sites), "ESC-2", "%s can raise ParserException" % f.short, "ok", "no ParserException in the summary", f.where)
        if not groups:
            rep.ok("ESC-2", "%s: only parser exceptions escape" % f.short, "%d raise sites, all ParserException/InvalidVersionException" % len(sites), f.where)
        for key, s in sorted(groups.items()):
            rep.fail("ESC-2", "%s|%s" % (f.short, key), "%s can leak %s raised in %s (`%s`) via %s"
                     % (f.short, s.exc, s.origin[0], s.origin[1][:50], " -> ".join(c.split(":", 1)[1] for c in s.chain[:5])), f.where,
                     witness="a file that triggers this refusal makes the reader raise %s instead of ParserException" % s.exc)

    # --------------------------------------------------------------- LAYER-1
    rep.rule("LAYER-1", "in parse_tag / to_odml / parse_sections / parse_properties: every call that resolves into the model layer "
                        "(%s) - except the argument-less fmt.create() whose constructors only take their None defaults - lies in a try "
                        "whose handler catches Exception (or everything) and calls self.error(...)" % ", ".join(m[5:] for m in MODEL_MODULES))
    n_calls = 0
    layer_funcs = []
    for qn in READER_FUNCS:
        for h in private_closure(prog.func(qn)):
            if h not in layer_funcs:
                layer_funcs.append(h)
    for f in layer_funcs:
        rep.saw_function(f)
        g = S.cfg(f)
        for node in g.nodes:
            for root in node.expr_roots():
                for c in calls_in(root):
                    tg = [t for t in S.targets(c, f) if isinstance(t, FuncInfo) and t.module.name in MODEL_MODULES]
                    if not tg:
                        continue
                    if unparse(c.func).endswith(".create") and not c.args and not c.keywords:
                        continue     # fmt.create(): all-default construction
                    n_calls += 1
                    ok = _guarded(S, layer_funcs, f, node, set())
                    rep.check(ok, "LAYER-1", "%s: %s guarded" % (f.short, unparse(c)[:40]), "try/except Exception -> self.error",
                              "%s calls %s (-> %s) outside a catch-all handler that reports through self.error: a refusal of the "
                              "model layer leaks as is" % (f.short, unparse(c)[:50], tg[0].short), where(f, c),
                              witness="e.g. two sibling elements with the same name / an unparsable date: KeyError or ValueError instead of ParserException")
    rep.floor("LAYER-1", n_calls, 6, "reader calls into the model layer")
    rep.rule("LAYER-2", "children are attached one by one: no reader function hands a whole list of parsed children to the model layer's "
                        "extend() under a single handler - the first refusal would drop all remaining children in lenient mode")
    bulk = []
    for f in layer_funcs:
        for c in calls_in(f.node):
            if isinstance(c.func, ast.Attribute) and c.func.attr == "extend":
                tg = [t for t in S.targets(c, f) if isinstance(t, FuncInfo) and t.module.name in MODEL_MODULES]
                if tg:
                    bulk.append((f, c, tg[0]))
    if not bulk:
        rep.ok("LAYER-2", "children are appended individually", "no model layer extend() in the readers", "odml/tools")
    for f, c, tg in bulk:
        rep.fail("LAYER-2", "%s|%s" % (f.short, unparse(c.func)), "%s attaches parsed children in bulk with %s (-> %s): in lenient mode one "
                 "unusable child makes the reader drop all children after it" % (f.short, unparse(c)[:50], tg.short), where(f, c),
                 witness="a JSON/YAML file with two equally named root Sections followed by valid ones: only the first Section survives a lenient load")

    # ----------------------------------------------------------------- ERR-1
    rep.rule("ERR-1", "XMLReader.error / DictReader.error: `if self.ignore_errors: return self.warn(...)` then `raise ParserException`; "
                      "warn() has no raise; XMLReader._handle_version raises ParserException / InvalidVersionException only")
    for qn in ("tools.xmlparser.XMLReader.error", "tools.dict_parser.DictReader.error"):
        f = prog.func(qn)
        rep.saw_function(f)
        g = build_cfg(f)
        me = f.params[0]

        def classify(leaf, me=me):
            return "LENIENT" if unparse(leaf) == "%s.ignore_errors" % me else None
        raises = [n for n in g.nodes if n.kind == "raise"]
        ok = bool(raises) and all(isinstance(r.ast.exc, ast.Call) and call_name(r.ast.exc).split(".")[-1] == "ParserException" for r in raises) \
            and all(known(g, r, classify, lambda a: not a["LENIENT"], ["LENIENT"]) for r in raises)
        rep.check(ok, "ERR-1", "%s raises ParserException only when not lenient" % f.short, "%d raise(s), each reachable only with ignore_errors false" % len(raises),
                  "%s does not have the shape `if self.ignore_errors: warn; else raise ParserException`" % f.short, f.where,
                  witness="lenient reading raises / strict reading swallows an error")
        exits = [n for n in g.nodes if n.kind == "return" or (n.kind == "exit")]
        rets = [n for n in g.nodes if n.kind == "return"]
        normal = rets + [p for n in g.nodes if n.kind == "exit" for k, p in n.pred if p.kind not in ("return", "raise") and k not in ("exc",)]
        good = bool(normal) and all(known(g, n, classify, lambda a: a["LENIENT"], ["LENIENT"]) for n in normal)
        rep.check(good, "ERR-1", "%s returns normally only in lenient mode" % f.short, "ok",
                  "%s can return normally although ignore_errors is false: the error is swallowed" % f.short, f.where)
        warned = any(call_name(c) == "%s.warn" % me for c in calls_in(f.node))
        rep.check(warned, "ERR-1", "%s reports through warn in lenient mode" % f.short, "ok", "the lenient branch of %s does not call warn" % f.short, f.where)
    for qn in ("tools.xmlparser.XMLReader.warn", "tools.dict_parser.DictReader.warn"):
        f = prog.func(qn)
        rep.check(not R.summary(f), "ERR-1", "%s cannot raise" % f.short, "ok", "%s can raise %s" % (f.short, R.summary(f)[:2]), f.where)
    hv = prog.func("tools.xmlparser.XMLReader._handle_version")
    excs = set(s.exc for s in R.summary(hv))
    rep.check(excs and excs <= set(ALLOWED), "ERR-1", "_handle_version raises parser exceptions only", str(sorted(excs)), "_handle_version raises %s" % sorted(excs), hv.where)

    # ----------------------------------------------------------------- LIB-1
    rep.rule("LIB-1", "XMLReader.from_string / from_file: the lxml parse call is inside a try whose handler for ET.XMLSyntaxError raises ParserException")
    for qn, fn in (("tools.xmlparser.XMLReader.from_string", "ET.XML"), ("tools.xmlparser.XMLReader.from_file", "ET.parse")):
        f = prog.func(qn)
        g = build_cfg(f)
        ok = False
        for node in g.nodes:
            for root in node.expr_roots():
                for c in calls_in(root):
                    if call_name(c) == fn:
                        for h in enclosing_handlers(g, node):
                            for k2, hn in h.succ:
                                if k2 == "except" and any("XMLSyntaxError" in cn or cn in ("Exception", "*") for cn in hn.info["classes"]):
                                    if any(isinstance(x, ast.Raise) and isinstance(x.exc, ast.Call) and call_name(x.exc) == "ParserException"
                                           for x in ast.walk(hn.ast)):
                                        ok = True
        rep.check(ok, "LIB-1", "%s wraps %s" % (f.short, fn), "XMLSyntaxError -> ParserException", "%s does not convert lxml syntax errors into ParserException" % f.short, f.where,
                  witness="malformed XML leaks lxml.etree.XMLSyntaxError")

    # the recursive descent of parse_element is bounded by libxml2's own depth limit (256): options that lift it are refused
    WIDENING = {"huge_tree": True}
    for f0 in prog.all_functions():
        if f0.module.name != "odml.tools.xmlparser":
            continue
        for c in calls_in(f0.node):
            if call_name(c).endswith("XMLParser"):
                wid = [k.arg for k in c.keywords if k.arg in WIDENING and isinstance(k.value, ast.Constant) and k.value.value == WIDENING[k.arg]]
                rep.check(not wid, "LIB-1", "%s: the XML parser keeps libxml2's depth limit" % f0.short, "no widening option",
                          "%s builds the parser with %s: documents nested deeper than the interpreter's recursion limit make the recursive "
                          "reader raise RecursionError instead of ParserException" % (f0.short, wid), where(f0, c),
                          witness="a well formed odML file with 600 nested <section> elements")

    # ----------------------------------------------------------------- TOT-1 / LOOP-1
    cardinality_roundtrip(prog, rep, which=("xml", "dict"))
    loop_carried_state(prog, rep, [prog.func(q) for q in READER_FUNCS], "LOOP-1")
    rep.note("ODMLReader's YAML text front end catches only yaml.parser.ParserError; scanner/composer errors of PyYAML escape it. "
             "The statement covers the XML reader and the dictionary reader, so this is informational")
    rep.assume("LIB_RAISES table of odmlsa/raises.py lists the library calls that raise on caller data")


def _locally_guarded(g, node):
    for h in enclosing_handlers(g, node):
        for k2, hn in h.succ:
            if k2 == "except" and any(cn in ("Exception", "BaseException", "*") for cn in hn.info["classes"]):
                if any(isinstance(x.func, ast.Attribute) and x.func.attr == "error" for x in calls_in(hn.ast)):
                    return True
    return False


def _guarded(S, funcs, f, node, seen):
    """the node lies in a try whose catch-all handler reports through <self>.error - in f itself or, when f is a private
    helper, at every one of its call sites inside the reader functions (transitively)."""
    g = S.cfg(f)
    if _locally_guarded(g, node):
        return True
    if not (f.name.startswith("_") and not f.name.startswith("__")) or f.qualname in seen:
        return False
    seen = seen | set([f.qualname])
    sites = []
    for h in funcs:
        hg = S.cfg(h)
        for n in hg.nodes:
            for r in n.expr_roots():
                for c in calls_in(r):
                    if (isinstance(c.func, ast.Attribute) and c.func.attr == f.name) or (isinstance(c.func, ast.Name) and c.func.id == f.name):
                        if any(t is f for t in S.targets(c, h)) or True:
                            sites.append((h, n))
    return bool(sites) and all(_guarded(S, funcs, h, n, seen) for h, n in sites)
