"""C16 - readers are total: a document, or a ParserException - never anything else.

Decided: exception escape bound per entry point (XMLReader.from_string/from_file, DictReader.to_odml):
only ParserException / InvalidVersionException escape in strict mode; layering: every call from the
reader functions into the model layer (object creation with parsed arguments, append, setters) sits in a
try that catches everything and reports through self.error; self.error cannot raise in lenient mode and
raises ParserException otherwise; library parse errors are converted; the value helpers called outside
those guards are total on every shape the parsers hand them; reader loops carry no state between siblings
(documents satisfy C03/C04 because children are attached through the owner API only: OWN-1).
NOT decided: non-termination or exotic exceptions inside lxml/yaml/json, wrong-shaped dictionaries
(outside "shaped like an odML dictionary"), YAML scanner errors of the text front end.
"""
import ast
import re

from .. import analysis
from ..astutil import calls_in, call_name, where
from ..cfg import build_cfg, enclosing_handlers
from ..dataflow import private_closure
from ..logic import known
from ..model import AnalysisError, FuncInfo, unparse, walk_no_nested
from ..raises import Raises
from .rules_card import cardinality_roundtrip
from .rules_loops import loop_carried_state

DECIDED = [
    "ESC-2 raise summaries of XMLReader.from_string/from_file and DictReader.to_odml contain only ParserException / InvalidVersionException",
    "LAYER-1 every reader call into the model layer (create with parsed arguments, append, setters) is inside try/except Exception -> self.error",
    "LAYER-2 parsed children are attached one by one (a refusal costs one child, not the rest of the list)",
    "ERR-1 error() raises ParserException unless ignore_errors, then it only warns; warn() cannot raise; _handle_version raises only the two parser exceptions",
    "ROOT-2 the version gate lets a root element pass only if its tag is exactly the name the element dispatch knows for a Document (so the dispatch of the root cannot come back empty)",
    "REGEX-1 no regular expression applied to document text has an unbounded repeat around an unbounded repeat that may be followed by nothing (exponential backtracking: the reader would not return)",
    "LIB-1 ET.XML / ET.parse are wrapped: XMLSyntaxError -> ParserException",
    "TOT-1 parse_cardinality (both) is total on every order type of input (no raise, normal form or None)",
    "LOOP-1 no parsed state leaks from one sibling element to the next",
    'ROW-1 the first row of a csv reader is taken only over a text known to be non-empty',
    'KEY-2 a literal key is looked up in an iterated input dictionary only where the iteration has just met that key',
]
NOT_DECIDED = ["library internals (lxml, yaml, json): non-termination, entity expansion", "dictionaries of the wrong shape",
               "YAML scanner/composer errors of ODMLReader (text front end, outside the dictionary reader)"]

MODEL_MODULES = ("odml.base", "odml.section", "odml.property", "odml.doc", "odml.dtypes", "odml.util", "odml.validation")
ALLOWED = ("ParserException", "InvalidVersionException")
READER_FUNCS = ("tools.xmlparser.XMLReader.parse_tag", "tools.dict_parser.DictReader.to_odml",
                "tools.dict_parser.DictReader.parse_sections", "tools.dict_parser.DictReader.parse_properties")


PARSER_OPTIONS = {
    "huge_tree": (lambda v: isinstance(v, ast.Constant) and v.value is True,
                  "lifts libxml2's depth limit: documents nested deeper than the interpreter's recursion limit make the recursive reader "
                  "raise RecursionError instead of ParserException", "a well formed odML file with 600 nested <section> elements"),
    "recover": (lambda v: not (isinstance(v, ast.Constant) and v.value is False),
                "makes lxml repair malformed input silently: text that is not well-formed XML yields a partial Document instead of a "
                "ParserException (and the loaders cache a truncated terminology instead of None)", "an XML file cut off in the middle"),
    "encoding": (lambda v: not (isinstance(v, ast.Constant) and v.value is None),
                 "overrides the encoding declared in the XML prolog / byte order mark: valid files in another declared encoding are "
                 "refused or decoded wrongly", "a Latin-1 or UTF-16 encoded odML file written by another tool"),
}


RE_FUNCS = ("re.compile", "re.match", "re.search", "re.fullmatch", "re.findall", "re.finditer", "re.sub", "re.subn", "re.split")


def exponential_regex(pattern):
    """reason (text) why the pattern can backtrack exponentially, or None.  Rule: an unbounded repeat whose body - groups unwrapped -
    consists of an unbounded repeat plus items that can all match the empty string: the text matched by the inner repeat can then be
    split between iterations of the outer one in exponentially many ways, and a non matching tail makes the engine try them all."""
    try:
        import re._parser as sp          # python >= 3.11
    except ImportError:                  # pragma: no cover
        import sre_parse as sp
    try:
        tree = sp.parse(pattern)
    except Exception:
        return None
    UNB = sp.MAXREPEAT

    def unwrap(seq):
        items = list(seq)
        while len(items) == 1 and str(items[0][0]) == "SUBPATTERN":
            items = list(items[0][1][3])
        return items

    def nullable(it):
        op, av = str(it[0]), it[1]
        if op in ("MAX_REPEAT", "MIN_REPEAT", "POSSESSIVE_REPEAT"):
            return av[0] == 0 or all(nullable(x) for x in av[2])
        if op == "SUBPATTERN":
            return all(nullable(x) for x in av[3])
        if op == "BRANCH":
            return any(all(nullable(x) for x in alt) for alt in av[1])
        return op in ("AT", "ASSERT", "ASSERT_NOT")

    def unbounded_inner(it):
        op, av = str(it[0]), it[1]
        if op in ("MAX_REPEAT", "MIN_REPEAT"):
            return av[1] == UNB
        if op == "SUBPATTERN":
            inner = unwrap(av[3])
            return len(inner) >= 1 and any(unbounded_inner(x) for x in inner) and all(unbounded_inner(x) or nullable(x) for x in inner)
        return False

    def walk(seq):
        for it in seq:
            op, av = str(it[0]), it[1]
            if op in ("MAX_REPEAT", "MIN_REPEAT"):
                lo, hi, body = av
                items = unwrap(body)
                if hi == UNB and len(items) >= 1 and any(unbounded_inner(x) for x in items) \
                        and all(unbounded_inner(x) or nullable(x) for x in items):
                    return "an unbounded repeat encloses an unbounded repeat that can be followed by the empty string"
                r = walk(body)
                if r:
                    return r
            elif op == "SUBPATTERN":
                r = walk(av[3])
                if r:
                    return r
            elif op == "BRANCH":
                for alt in av[1]:
                    r = walk(alt)
                    if r:
                        return r
            elif op in ("ASSERT", "ASSERT_NOT"):
                r = walk(av[1])
                if r:
                    return r
        return None
    return walk(tree)


def regex_rule(prog, rep, rule="REGEX-1"):
    """every regular expression the model layer applies to document text (Property constructors run the dtype checks while a file is read)"""
    from ..model import canonical_name
    from ..fold import Folder
    rep.rule(rule, "for every call of %s in odml/ outside odml.rdf: the pattern - a literal, a folded constant, or (when it is computed) "
                   "every string literal of the enclosing function that parses as a regular expression - passes the nested-repeat test "
                   "of exponential_regex()" % (RE_FUNCS,))
    fd = Folder(prog)
    n = 0
    for mod in sorted(prog.modules.values(), key=lambda m0: m0.name):
        if mod.name.startswith("odml.rdf") or mod.name.startswith("odml.scripts"):
            continue
        calls = [c for c in ast.walk(mod.tree) if isinstance(c, ast.Call) and c.args and canonical_name(prog, mod, c.func) in RE_FUNCS]
        if not calls:
            continue
        pats = []
        computed = False
        for c in calls:
            try:
                v = fd.try_fold(c.args[0], mod, default=None)
            except Exception:
                v = None
            if isinstance(v, str):
                pats.append((v, c))
            else:
                computed = True
        if computed:
            # the pattern comes out of a table, a loop variable or a parameter: every string literal of the module that is written
            # like a regular expression (doc strings excluded) is a candidate
            docs = set()
            for y in ast.walk(mod.tree):
                if isinstance(y, (ast.FunctionDef, ast.ClassDef, ast.Module)) and y.body and isinstance(y.body[0], ast.Expr) \
                        and isinstance(y.body[0].value, ast.Constant):
                    docs.add(id(y.body[0].value))
            have = set(p0 for p0, _ in pats)
            for y in ast.walk(mod.tree):
                if isinstance(y, ast.Constant) and isinstance(y.value, str) and id(y) not in docs and len(y.value) < 400 \
                        and any(ch in y.value for ch in "+*{") and any(ch in y.value for ch in "\\^$[(") and y.value not in have:
                    pats.append((y.value, y))
                    have.add(y.value)
        for pat, at in pats:
            n += 1
            why = exponential_regex(pat)
            rep.check(why is None, rule, "%s: pattern %r" % (mod.name[5:] if mod.name.startswith("odml.") else mod.name, pat[:40]),
                      "no nested unbounded repeat",
                      "the pattern %r is applied to document text and %s: a long non matching value keeps the reader busy for hours"
                      % (pat[:60], why), "%s:%d" % (mod.path, getattr(at, "lineno", 0)), witness="a text value of 40 digits followed by a letter")
    rep.floor(rule, n, 4, "regular expressions applied to document text")
    # the rule recognises its target shape (a vacuous lint passes forever)
    if exponential_regex(r"^(-+)?(\d+,?)+\.\d+$") is None or exponential_regex(r"^(a+)+$") is None or exponential_regex(r"^(-+)?\d+\.\d+$") is not None:
        raise AnalysisError("exponential_regex() no longer recognises the reference patterns")


def root_gate_rule(prog, rep, rule="ROOT-2"):
    """XMLReader._handle_version: on every normal exit `<root>.tag == <Document format name>` is known, as an exact comparison of the
    unmodified tag with the constant that XMLReader.tags / parse_element dispatch on (a more tolerant gate lets a root through that
    parse_element cannot dispatch: it returns None and from_file(path) fails with AttributeError)."""
    from ..fold import format_tables
    rep.rule(rule, "_handle_version returns normally only on paths that know <root>.tag == %r (the name of format.Document), compared as it is"
             % format_tables(prog)["Document"]["_name"])
    want = format_tables(prog)["Document"]["_name"]
    hv = prog.func("tools.xmlparser.XMLReader._handle_version")
    rep.saw_function(hv)
    g = build_cfg(hv)
    root = hv.params[1] if hv.has_self else hv.params[0]
    from ..fold import Folder
    fd = Folder(prog)

    def clf(lf):
        if isinstance(lf, ast.Compare) and len(lf.ops) == 1 and isinstance(lf.ops[0], ast.Eq):
            sides = [lf.left, lf.comparators[0]]
            tags = [x0 for x0 in sides if unparse(x0) == "%s.tag" % root]
            consts = [x0 for x0 in sides if x0 not in tags]
            if len(tags) == 1 and len(consts) == 1:
                try:
                    v = fd.try_fold(consts[0], hv.module, default=None)
                except Exception:
                    v = None
                if v == want:
                    return "ROOT"
        return None
    exits = [p for k0, p in g.exit.pred if k0 != "exc" and p.kind != "raise"]
    ok = bool(exits) and all(known(g, p, clf, lambda a: a["ROOT"], ["ROOT"]) for p in exits)
    rep.check(ok, rule, "_handle_version admits exactly the root tag %r" % want, "known on every normal exit",
              "_handle_version can return normally for a root whose tag is not exactly %r: parse_element has no entry for it, returns None in "
              "lenient mode, and from_file(path) then raises AttributeError on None" % want, hv.where,
              witness="<odml version=\"1.1\"> read with ignore_errors=True: AttributeError / None instead of ParserException")


def xml_parser_options(prog, rep, rule, names, module="odml.tools.xmlparser"):
    """the lxml XMLParser of the reader (or of the version converter) is built without options that change which inputs are accepted
    (shared by C01, C15, C16, C17, C18)"""
    n = 0
    for f0 in prog.all_functions():
        if f0.module.name != module:
            continue
        for c in calls_in(f0.node):
            if call_name(c).split(".")[-1] == "XMLParser":
                n += 1
                star = [k for k in c.keywords if k.arg is None]
                rep.check(not star, rule, "%s: parser options are spelled out" % f0.short, "no **options", "XMLParser(**...) hides the options", where(f0, c))
                for name in names:
                    test, why, wit = PARSER_OPTIONS[name]
                    bad = [k for k in c.keywords if k.arg == name and test(k.value)]
                    rep.check(not bad, rule, "%s: XMLParser without %s" % (f0.short, name), "ok",
                              "%s builds the parser with %s=%s, which %s" % (f0.short, name, unparse(bad[0].value) if bad else "", why), where(f0, c),
                              witness=wit)
    rep.floor(rule, n, 1, "XMLParser constructions in %s" % module[5:])
    # ... and that parser is the one every document is read with: each lxml parse call of the module hands a parser on
    n_p = 0
    for f0 in prog.all_functions():
        if f0.module.name != module:
            continue
        for c in calls_in(f0.node):
            fn = call_name(c).split(".")[-1]
            if fn in ("parse", "XML", "fromstring") and isinstance(c.func, ast.Attribute) and unparse(c.func.value) in ("ET", "etree", "lxml.etree") and c.args:
                n_p += 1
                given = len(c.args) >= 2 or any(k.arg == "parser" for k in c.keywords)
                rep.check(given, rule, "%s: %s reads with the configured parser" % (f0.short, call_name(c)), "parser handed on",
                          "%s calls %s without the parser that was configured (%s): this entry point accepts other inputs than its siblings" %
                          (f0.short, unparse(c)[:60], ", ".join(names)), where(f0, c),
                          witness="an XML file with a comment loads through from_string but not through from_file")
    rep.floor(rule, n_p, 2, "lxml parse calls in %s" % module[5:])


def run(prog, rep):
    rep.decided = DECIDED
    rep.not_decided = NOT_DECIDED
    an = analysis.get(prog)
    an.note_coverage(rep)
    K, S = an.k, an.s
    R = Raises(an)

    # ----------------------------------------------------------------- ESC-2
    rep.rule("ESC-2", "raise summary (explicit raises of the whole package reachable through resolved calls + reviewed library raises, "
                      "minus what enclosing handlers catch) of each entry point: every escaping class is ParserException or "
                      "InvalidVersionException")
    for qn in ("tools.xmlparser.XMLReader.from_string", "tools.xmlparser.XMLReader.from_file", "tools.dict_parser.DictReader.to_odml"):
        f = prog.func(qn)
        rep.saw_function(f)
        sites = R.summary(f)
        if not sites:
            raise AnalysisError("%s has an empty raise summary: the analysis went blind" % qn)
        groups = {}
        for s in sites:
            if s.exc in ALLOWED:
                continue
            if qn.endswith("from_file") and s.exc == "OSError":
                continue      # opening the path itself: outside the property
            groups.setdefault("%s@%s" % (s.exc, s.origin[0]), s)
        rep.check(any(s.exc in ALLOWED for s in sites), "ESC-2", "%s can raise ParserException" % f.short, "ok", "no ParserException in the summary", f.where)
        if not groups:
            rep.ok("ESC-2", "%s: only parser exceptions escape" % f.short, "%d raise sites, all ParserException/InvalidVersionException" % len(sites), f.where)
        for key, s in sorted(groups.items()):
            rep.fail("ESC-2", "%s|%s" % (f.short, key), "%s can leak %s raised in %s (`%s`) via %s"
                     % (f.short, s.exc, s.origin[0], s.origin[1][:50], " -> ".join(c.split(":", 1)[1] for c in s.chain[:5])), f.where,
                     witness="a file that triggers this refusal makes the reader raise %s instead of ParserException" % s.exc)

    # --------------------------------------------------------------- LAYER-1
    rep.rule("LAYER-1", "in parse_tag / to_odml / parse_sections / parse_properties: every call that resolves into the model layer "
                        "(%s) - except the argument-less fmt.create() whose constructors only take their None defaults - lies in a try "
                        "whose handler catches Exception (or everything) and calls self.error(...)" % ", ".join(m[5:] for m in MODEL_MODULES))
    n_calls = 0
    layer_funcs = []
    for qn in READER_FUNCS:
        for h in private_closure(prog.func(qn)):
            if h not in layer_funcs:
                layer_funcs.append(h)
    for f in layer_funcs:
        rep.saw_function(f)
        g = S.cfg(f)
        for node in g.nodes:
            for root in node.expr_roots():
                for c in calls_in(root):
                    tg = [t for t in S.targets(c, f) if isinstance(t, FuncInfo) and t.module.name in MODEL_MODULES]
                    if not tg:
                        continue
                    if unparse(c.func).endswith(".create") and not c.args and not c.keywords:
                        continue     # fmt.create(): all-default construction
                    n_calls += 1
                    ok = _guarded(S, layer_funcs, f, node, set())
                    rep.check(ok, "LAYER-1", "%s: %s guarded" % (f.short, unparse(c)[:40]), "try/except Exception -> self.error",
                              "%s calls %s (-> %s) outside a catch-all handler that reports through self.error: a refusal of the "
                              "model layer leaks as is" % (f.short, unparse(c)[:50], tg[0].short), where(f, c),
                              witness="e.g. two sibling elements with the same name / an unparsable date: KeyError or ValueError instead of ParserException")
    rep.floor("LAYER-1", n_calls, 6, "reader calls into the model layer")
    rep.rule("LAYER-2", "children are attached one by one: no reader function hands a whole list of parsed children to the model layer's "
                        "extend() under a single handler - the first refusal would drop all remaining children in lenient mode")
    bulk = []
    for f in layer_funcs:
        for c in calls_in(f.node):
            if isinstance(c.func, ast.Attribute) and c.func.attr == "extend":
                tg = [t for t in S.targets(c, f) if isinstance(t, FuncInfo) and t.module.name in MODEL_MODULES]
                if tg:
                    bulk.append((f, c, tg[0]))
    if not bulk:
        rep.ok("LAYER-2", "children are appended individually", "no model layer extend() in the readers", "odml/tools")
    for f, c, tg in bulk:
        rep.fail("LAYER-2", "%s|%s" % (f.short, unparse(c.func)), "%s attaches parsed children in bulk with %s (-> %s): in lenient mode one "
                 "unusable child makes the reader drop all children after it" % (f.short, unparse(c)[:50], tg.short), where(f, c),
                 witness="a JSON/YAML file with two equally named root Sections followed by valid ones: only the first Section survives a lenient load")

    # ----------------------------------------------------------------- ERR-1
    rep.rule("ERR-1", "XMLReader.error / DictReader.error: `if self.ignore_errors: return self.warn(...)` then `raise ParserException`; "
                      "warn() has no raise; XMLReader._handle_version raises ParserException / InvalidVersionException only")
    for qn in ("tools.xmlparser.XMLReader.error", "tools.dict_parser.DictReader.error"):
        f = prog.func(qn)
        rep.saw_function(f)
        g = build_cfg(f)
        me = f.params[0]

        def classify(leaf, me=me):
            return "LENIENT" if unparse(leaf) == "%s.ignore_errors" % me else None
        raises = [n for n in g.nodes if n.kind == "raise"]
        ok = bool(raises) and all(isinstance(r.ast.exc, ast.Call) and call_name(r.ast.exc).split(".")[-1] == "ParserException" for r in raises) \
            and all(known(g, r, classify, lambda a: not a["LENIENT"], ["LENIENT"]) for r in raises)
        rep.check(ok, "ERR-1", "%s raises ParserException only when not lenient" % f.short, "%d raise(s), each reachable only with ignore_errors false" % len(raises),
                  "%s does not have the shape `if self.ignore_errors: warn; else raise ParserException`" % f.short, f.where,
                  witness="lenient reading raises / strict reading swallows an error")
        exits = [n for n in g.nodes if n.kind == "return" or (n.kind == "exit")]
        rets = [n for n in g.nodes if n.kind == "return"]
        normal = rets + [p for n in g.nodes if n.kind == "exit" for k, p in n.pred if p.kind not in ("return", "raise") and k not in ("exc",)]
        good = bool(normal) and all(known(g, n, classify, lambda a: a["LENIENT"], ["LENIENT"]) for n in normal)
        rep.check(good, "ERR-1", "%s returns normally only in lenient mode" % f.short, "ok",
                  "%s can return normally although ignore_errors is false: the error is swallowed" % f.short, f.where)
        warned = any(call_name(c) == "%s.warn" % me for c in calls_in(f.node))
        rep.check(warned, "ERR-1", "%s reports through warn in lenient mode" % f.short, "ok", "the lenient branch of %s does not call warn" % f.short, f.where)
    for qn in ("tools.xmlparser.XMLReader.warn", "tools.dict_parser.DictReader.warn"):
        f = prog.func(qn)
        rep.check(not R.summary(f), "ERR-1", "%s cannot raise" % f.short, "ok", "%s can raise %s" % (f.short, R.summary(f)[:2]), f.where)
    hv = prog.func("tools.xmlparser.XMLReader._handle_version")
    excs = set(s.exc for s in R.summary(hv))
    rep.check(excs and excs <= set(ALLOWED), "ERR-1", "_handle_version raises parser exceptions only", str(sorted(excs)), "_handle_version raises %s" % sorted(excs), hv.where)

    # ----------------------------------------------------------------- LIB-1
    rep.rule("LIB-1", "XMLReader.from_string / from_file: the lxml parse call is inside a try whose handler for ET.XMLSyntaxError raises ParserException")
    for qn, fn in (("tools.xmlparser.XMLReader.from_string", "ET.XML"), ("tools.xmlparser.XMLReader.from_file", "ET.parse")):
        f = prog.func(qn)
        g = build_cfg(f)
        ok = False
        for node in g.nodes:
            for root in node.expr_roots():
                for c in calls_in(root):
                    if call_name(c) == fn:
                        for h in enclosing_handlers(g, node):
                            for k2, hn in h.succ:
                                if k2 == "except" and any("XMLSyntaxError" in cn or cn in ("Exception", "*") for cn in hn.info["classes"]):
                                    if any(isinstance(x, ast.Raise) and isinstance(x.exc, ast.Call) and call_name(x.exc) == "ParserException"
                                           for x in ast.walk(hn.ast)):
                                        ok = True
        rep.check(ok, "LIB-1", "%s wraps %s" % (f.short, fn), "XMLSyntaxError -> ParserException", "%s does not convert lxml syntax errors into ParserException" % f.short, f.where,
                  witness="malformed XML leaks lxml.etree.XMLSyntaxError")

    # the recursive descent of parse_element is bounded by libxml2's own depth limit (256): options that lift it are refused;
    # `recover` would turn malformed text into a partial document instead of a ParserException
    xml_parser_options(prog, rep, "LIB-1", ("huge_tree", "recover"))

    from .common_tables import stateless_tools_rule
    stateless_tools_rule(prog, rep, "STATE-2", ("XMLReader", "DictReader", "ODMLReader"))
    first_row_rule(prog, rep, "ROW-1")
    present_key_rule(prog, rep, "KEY-2")
    keep_children_rule(prog, rep, "KEEP-1")
    path_only_on_str_rule(prog, rep, an, "KIND-1")

    # ---------------------------------------------------------------- REC-1
    rep.rule("REC-1", "XMLReader.warn / DictReader.warn: every path to a normal exit appends the message to self.warnings (show_warnings only "
                      "decides about stderr); in warn / error of both readers the left operand of every `%` is a string literal - a message that "
                      "quotes user data or a foreign exception text is never itself used as a format string")
    from ..logic import must_cross as _mc
    for qn in ("tools.xmlparser.XMLReader", "tools.dict_parser.DictReader"):
        cls0 = prog.cls(qn.split(".")[-1])
        w = cls0.methods.get("warn")
        if w is None:
            raise AnalysisError("%s.warn vanished" % qn)
        rep.saw_function(w)
        g = build_cfg(w)
        me = w.params[0]
        recs = [n for n in g.nodes if any(unparse(c.func) == "%s.warnings.append" % me for r in n.expr_roots() for c in calls_in(r))]
        rep.floor("REC-1", len(recs), 1, "self.warnings.append in %s.warn" % qn)
        rec_ids = set(n.id for n in recs)
        # a normal exit reachable without passing a recording node?
        seen, stack, leak = set(), [g.entry], False
        while stack:
            n = stack.pop()
            if n.id in seen or n.id in rec_ids:
                continue
            seen.add(n.id)
            if n is g.exit:
                leak = True
                break
            for k, m in n.succ:
                if k not in ("exc", "except", "raise"):
                    stack.append(m)
        rep.check(not leak, "REC-1", "%s.warn records on every path" % cls0.name, "ok",
                  "%s.warn can return without appending to self.warnings: a problem of a leniently read file leaves no record" % cls0.name, w.where,
                  witness="lenient reader with show_warnings=False: the document is returned, reader.warnings stays empty")
        for fname in ("warn", "error"):
            f5 = cls0.methods.get(fname)
            if f5 is None:
                continue
            for n5 in walk_no_nested(f5.node):
                if isinstance(n5, ast.BinOp) and isinstance(n5.op, ast.Mod):
                    from .rules_lints import literal_bound as _lb
                    lit = _lb(f5, n5.left) is not None
                    rep.check(lit, "REC-1", "%s.%s: `%s %% ...`" % (cls0.name, fname, unparse(n5.left)[:30]), "literal format",
                              "%s.%s formats with `%s` as the format string: a %% in the quoted data raises TypeError / ValueError instead of "
                              "the ParserException" % (cls0.name, fname, unparse(n5.left)[:60]), where(f5, n5),
                              witness="strict reader, unit=\"50%\": ValueError: unsupported format character")

    # --------------------------------------------------------------- REGEX-1
    regex_rule(prog, rep, "REGEX-1")

    # ---------------------------------------------------------------- ROOT-2
    root_gate_rule(prog, rep, "ROOT-2")

    # ----------------------------------------------------------------- TOT-1 / LOOP-1
    cardinality_roundtrip(prog, rep, which=("xml", "dict"))
    loop_carried_state(prog, rep, [prog.func(q) for q in READER_FUNCS], "LOOP-1")
    rep.note("ODMLReader's YAML text front end catches only yaml.parser.ParserError; scanner/composer errors of PyYAML escape it. "
             "The statement covers the XML reader and the dictionary reader, so this is informational")
    rep.assume("LIB_RAISES table of odmlsa/raises.py lists the library calls that raise on caller data")


def _locally_guarded(g, node):
    for h in enclosing_handlers(g, node):
        for k2, hn in h.succ:
            if k2 == "except" and any(cn in ("Exception", "BaseException", "*") for cn in hn.info["classes"]):
                if any(isinstance(x.func, ast.Attribute) and x.func.attr == "error" for x in calls_in(hn.ast)):
                    return True
    return False


def _guarded(S, funcs, f, node, seen):
    """the node lies in a try whose catch-all handler reports through <self>.error - in f itself or, when f is a private
    helper, at every one of its call sites inside the reader functions (transitively)."""
    g = S.cfg(f)
    if _locally_guarded(g, node):
        return True
    if not (f.name.startswith("_") and not f.name.startswith("__")) or f.qualname in seen:
        return False
    seen = seen | set([f.qualname])
    sites = []
    for h in funcs:
        hg = S.cfg(h)
        for n in hg.nodes:
            for r in n.expr_roots():
                for c in calls_in(r):
                    if (isinstance(c.func, ast.Attribute) and c.func.attr == f.name) or (isinstance(c.func, ast.Name) and c.func.id == f.name):
                        if any(t is f for t in S.targets(c, h)) or True:
                            sites.append((h, n))
    return bool(sites) and all(_guarded(S, funcs, h, n, seen) for h, n in sites)


def first_row_rule(prog, rep, rule="ROW-1"):
    """taking the first row of a csv reader needs a text that is known not to be empty"""
    from ..symtext import Expander, _guards_at
    from ..model import canonical_name
    rep.rule(rule, "in the reader modules, wherever the first row of a csv.reader is taken without a fallback (list(reader)[0], rows[0], next(reader)) "
                   "the reader runs over StringIO(T) for a text T that is known to be non-empty on every path to that point (a dominating truth "
                   "test of the same expression): csv yields at least one row for a non-empty text and none for an empty one, where [0] raises "
                   "IndexError - which no handler of the readers turns into ParserException")
    n = 0
    for mname in ("tools.xmlparser", "tools.dict_parser", "tools.odmlparser"):
        mod = prog.module_of(mname)
        for f in list(mod.functions.values()) + [m for c in mod.classes.values() for m in c.methods.values()]:
            readers = [c for c in ast.walk(f.node) if isinstance(c, ast.Call) and canonical_name(prog, f, c.func) == "csv.reader" and c.args]
            if not readers:
                continue
            g = build_cfg(f)
            x = Expander(f, g)
            for node in g.nodes:
                for root in node.expr_roots():
                    for e in ast.walk(root):
                        first = None
                        if isinstance(e, ast.Subscript) and isinstance(e.ctx, ast.Load) and isinstance(e.slice, ast.Constant) and isinstance(e.slice.value, int):
                            first = e.value
                        elif isinstance(e, ast.Call) and isinstance(e.func, ast.Name) and e.func.id == "next" and len(e.args) == 1:
                            first = e.args[0]
                        if first is None:
                            continue
                        t = x.text(first, node)
                        if "csv.reader(" not in t:
                            continue
                        n += 1
                        src = None
                        for c in ast.walk(x.expand(first, node)):
                            if isinstance(c, ast.Call) and unparse(c.func).split(".")[-1] == "StringIO" and len(c.args) == 1:
                                src = unparse(c.args[0])
                        atoms = _guards_at(x, node)
                        good = src is not None and any(at == src and ap for at, ap in atoms)
                        rep.check(good, rule, "%s: first row of the csv reader" % f.short, "the text %s is known to be non-empty" % src,
                                  "%s takes the first row of a csv reader over `%s`, which is not known to be non-empty here (known: %s): an empty "
                                  "text has no row and the access raises IndexError" % (f.short, src, [a for a, _ in atoms][:3]), where(f, e),
                                  witness="<value>  </value> (white space only) in an XML file: IndexError instead of a document or ParserException")
    rep.note("%s: %d first-row accesses on csv readers" % (rule, n))


def present_key_rule(prog, rep, rule="KEY-2"):
    """a literal key is looked up in an input dictionary only where the iteration has just met that key"""
    from ..symtext import Expander, _guards_at
    rep.rule(rule, "in the dictionary reader, inside a loop `for k in D` over an input dictionary, a lookup D['<literal>'] lies on paths that know "
                   "the literal is a key of D: k == '<literal>' (directly, or of the value is_valid_attribute(k, ...) hands back, which is k or None) "
                   "or '<literal>' in D. A test of anything derived from k (a mapped name, a lower-cased copy) does not say so: the lookup raises "
                   "KeyError outside every handler")
    n = 0
    funcs = []
    for qn in READER_FUNCS:
        if ".dict_parser." not in "." + qn:
            continue
        for h in private_closure(prog.func(qn)):
            if h not in funcs:
                funcs.append(h)
    for f in funcs:
        g = build_cfg(f)
        x = Expander(f, g, inline=prog)
        loops = [h for h in g.nodes if h.kind == "for" and isinstance(h.ast.target, ast.Name)]
        for node in g.nodes:
            for root in node.expr_roots():
                for e in ast.walk(root):
                    if not (isinstance(e, ast.Subscript) and isinstance(e.ctx, ast.Load) and isinstance(e.slice, ast.Constant)
                            and isinstance(e.slice.value, str) and isinstance(e.value, ast.Name)):
                        continue
                    d, key = e.value.id, e.slice.value
                    over = [h for h in loops if g.dominates(h, node) and h.id != node.id and unparse(h.ast.iter) in (d, "%s.keys()" % d, "list(%s)" % d)
                            and any(y is e for y in ast.walk(h.ast))]
                    if not over:
                        continue
                    n += 1
                    k = over[-1].ast.target.id
                    kt = x.text(ast.Name(id=k, ctx=ast.Load()), node)
                    dt = x.text(ast.Name(id=d, ctx=ast.Load()), node)
                    good = False
                    seen_atoms = []
                    for at, ap in _guards_at(x, node):
                        seen_atoms.append(at)
                        if not ap:
                            continue
                        for kk, dd in ((k, d), (kt, dt)):
                            if at in ("%s == %r" % (kk, key), "%r == %s" % (key, kk), "%r in %s" % (key, dd)):
                                good = True
                            if at.endswith(" == %r" % key) and re.match(r"^[\w.]+\.is_valid_attribute\(%s, [^()]*\) == " % re.escape(kk), at):
                                good = True
                    rep.check(good, rule, "%s: %s[%r]" % (f.short, d, key), "the key was just met by the iteration",
                              "%s looks up %s[%r] on a path that does not know %r to be a key of %s (known: %s): KeyError outside every handler"
                              % (f.short, d, key, key, d, seen_atoms[-3:]), where(f, e),
                              witness="a Section dictionary that lists its children under another accepted spelling of the key")
    rep.note("%s: %d literal lookups in iterated input dictionaries" % (rule, n))


def keep_children_rule(prog, rep, rule="KEEP-1"):
    """lenient mode keeps the valid parts: a refused creation of the container does not drop the parsed children"""
    from ..logic import reach_avoiding
    rep.rule(rule, "XMLReader.parse_tag: after the handler of the keyword creation `fmt.create(**arguments)` caught a refusal (lenient mode: "
                   "self.error only warns) every path to a return still passes the decision about the parsed children - the test of "
                   "insert_children or the loop that appends them: the stand-in object receives the valid children")
    f = prog.func("tools.xmlparser.XMLReader.parse_tag")
    n_sites = 0
    for h in private_closure(f):
        g = build_cfg(h)
        creates = [n for n in g.nodes for r in n.expr_roots() for c in calls_in(r)
                   if isinstance(c.func, ast.Attribute) and c.func.attr == "create" and any(k.arg is None for k in c.keywords)]
        if not creates:
            continue
        decisions = set()
        for n in g.nodes:
            if n.kind == "branch" and any(isinstance(y, ast.Name) and y.id == "insert_children" for y in ast.walk(n.ast.test)):
                decisions.add(n.id)
            if n.kind == "for" and any(isinstance(y, ast.Call) and isinstance(y.func, ast.Attribute) and y.func.attr in ("append", "insert", "extend", "_insert_children")
                                       for b in n.ast.body for y in ast.walk(b)):
                decisions.add(n.id)
            if any(isinstance(c.func, ast.Attribute) and c.func.attr.startswith("_") and "child" in c.func.attr for r in n.expr_roots() for c in calls_in(r)):
                decisions.add(n.id)       # a private helper that inserts the children
        for cn in creates:
            for d in enclosing_handlers(g, cn):
                for k, hn in d.succ:
                    if k != "except":
                        continue
                    n_sites += 1
                    lost = any(reach_avoiding(g, hn, p, lambda src, kind, dst: dst.id in decisions, skip_kinds=("exc",))
                               for k0, p in g.exit.pred if k0 != "exc") and hn.id not in decisions
                    if lost and h is not f and not decisions:
                        # the creation (with its handler) lives in a private helper that hands the object back: the children are inserted by its caller
                        lost = False
                        for caller in private_closure(f):
                            cg = build_cfg(caller)
                            cdec = set()
                            for n in cg.nodes:
                                if n.kind == "branch" and any(isinstance(y, ast.Name) and y.id == "insert_children" for y in ast.walk(n.ast.test)):
                                    cdec.add(n.id)
                                if n.kind == "for" and any(isinstance(y, ast.Call) and isinstance(y.func, ast.Attribute)
                                                           and y.func.attr in ("append", "insert", "extend", "_insert_children") for b in n.ast.body for y in ast.walk(b)):
                                    cdec.add(n.id)
                                if any(isinstance(c.func, ast.Attribute) and c.func.attr.startswith("_") and "child" in c.func.attr
                                       for r in n.expr_roots() for c in calls_in(r)):
                                    cdec.add(n.id)
                            for n in cg.nodes:
                                if any(isinstance(c.func, ast.Attribute) and c.func.attr == h.name for r in n.expr_roots() for c in calls_in(r)):
                                    if n.id not in cdec and any(reach_avoiding(cg, n, p, lambda src, kind, dst: dst.id in cdec, skip_kinds=("exc",))
                                                                for k0, p in cg.exit.pred if k0 != "exc"):
                                        lost = True
                    rep.check(not lost, rule, "%s: children survive a refused creation" % h.short, "every path from the handler passes the child insertion",
                              "%s can return from the handler of the refused creation without inserting the parsed children: in lenient mode a "
                              "container with one bad attribute comes back empty" % h.short, where(h, hn.ast) if hn.ast is not None else h.where,
                              witness="<odML> with an unparsable <date> read with ignore_errors=True: an empty Document and one warning")
    rep.floor(rule, n_sites, 1, "handlers around the keyword creation in parse_tag")


_PATH_FUNCS = ("os.path.basename", "os.path.dirname", "os.path.split", "os.path.splitext", "os.path.join", "os.path.exists", "os.path.isfile",
               "os.path.getsize", "os.path.abspath", "os.path.normpath")


def path_only_on_str_rule(prog, rep, an, rule="KIND-1"):
    """a source that may be an open file is treated as a path only where it is known to be text"""
    from ..symtext import Expander, _guards_at
    from ..model import canonical_name
    rep.rule(rule, "XMLReader.from_file is handed file paths and open files (Terminologies._load passes the cache file object; the kind inference "
                   "finds both at its call sites): every os.path function applied to that parameter lies on paths that know isinstance(<it>, str). "
                   "Elsewhere - in particular inside the handler that turns a syntax error into ParserException - it raises TypeError for a file object")
    f = prog.func("tools.xmlparser.XMLReader.from_file")
    src = f.params[1]
    kinds = an.k.param_kinds.get((f.qualname, src), set())
    rep.check("file" in kinds or "?" in kinds, rule, "from_file receives open files as well as paths", str(sorted(kinds)),
              "the kind inference no longer finds a file object among the arguments of from_file (%s): the rule has nothing to protect" % sorted(kinds), f.where)
    n = 0
    for h in private_closure(f):
        g = build_cfg(h)
        x = Expander(h, g)
        for node in g.nodes:
            for r in node.expr_roots():
                for c in calls_in(r):
                    if canonical_name(prog, h, c.func) in _PATH_FUNCS and any(isinstance(a, ast.Name) and a.id == src for a in c.args) and h is f:
                        n += 1
                        atoms = _guards_at(x, node)
                        good = any(t in ("isinstance(%s, str)" % src, "isinstance(%s, (str,))" % src) and pol for t, pol in atoms)
                        rep.check(good, rule, "%s: %s(%s)" % (h.short, canonical_name(prog, h, c.func), src), "under isinstance(%s, str)" % src,
                                  "%s applies %s to %s on a path that does not know it to be text: for the open file the loaders pass it raises TypeError "
                                  "(inside an except block: instead of the ParserException being built)" % (h.short, canonical_name(prog, h, c.func), src),
                                  where(h, c), witness="terminology.load(url) of a resource that is not well-formed XML: TypeError instead of None")
    rep.note("%s: %d path functions applied to the source of from_file" % (rule, n))
