"""C12 - resolving links/includes only adds copies; clean restores.

Decided (footprint clauses): everything the resolving functions write is the linking
Section, its children or the terminology cache; only fresh clones are added and only
for children without a counterpart; strict=False is used and forwarded; clean/unmerge
write only the linking Section and its children; the relative link is recomputed from
the same object the link is resolved from; link/include are persisted attributes.
NOT decided: the restoration law clean(finalize(d)) == d, that the recomputed relative
path designates the same target, chained/nested links, the equality based selection of
what unmerge removes.
"""
import ast
import re

from .. import analysis
from ..astutil import calls_in, call_name, where
from ..cfg import build_cfg
from ..dataflow import private_closure
from ..symtext import Expander, effect_calls, strip_order_keeping
from ..model import AnalysisError, unparse, walk_no_nested
from . import common_tables as ct
from .rules_merge import pure_footprint, strict_forwarded, merge_adds_clones

DECIDED = [
    "PURE-1 finalize / link setter / include setter / merge write only the linking Section, its children and the terminology cache",
    "ALIAS-4 merge adds fresh clones only, and only for children without a counterpart; every source child is handled",
    "FWD-1 resolution merges with strict=False and the flag is forwarded through the recursion",
    "PURE-2 clean / unmerge write only the linking Section and its children",
    "SIB-5 the relative link is recomputed from the object the link is resolved from (self)",
    "TAB-5 link and include are format keys, readable and constructor keywords (saved after clean)",
    "PROV-10 the link / include setters store the value they were given",
    "LOOKUP-1 (shared with C14) path lookup matches names by plain equality",
    "CLEAN-1 clean() reaches every Section below the start: BaseSection.clean passes on to the inherited clean on every path, which visits every child",
    "CACHE-2 the cache file of an included / terminology URL is named by a digest of the whole URL (two URLs never share a cache file)",
    "ID-2 (C11) new_id changes the id only: the clones merge adds keep the name unmerge looks them up by",
    "FIN-1 finalize visits every Section of the document and resolves through the public setters",
    'EQ-1 (imported from C11) the == behind "cleaning restores the document" leaves out the id only',
]
NOT_DECIDED = [
    "restoration law clean o finalize = identity",
    "that the recomputed relative link designates the same target (path arithmetic)",
    "chained / nested links",
    "equality based selection of what unmerge removes",
]


def cache_key_rule(prog, rep, rule="CACHE-2"):
    """(shared with C18) terminology.cache_load / templates.cache_load: the cache file name contains a cryptographic digest whose input is the
    complete url parameter; a digest of a part of it (the base name) lets two different URLs resolve to one cached file."""
    from ..model import canonical_name
    rep.rule(rule, "in both cache_load functions the file that is opened is os.path.join(<cache dir>, <name>) where <name> is built from "
                   "hashlib.<digest>(<url>.encode(...)).hexdigest() of the unmodified url parameter")
    for modname in ("terminology", "templates"):
        f = prog.func(modname + ".cache_load")
        rep.saw_function(f)
        x = Expander(f, inline=prog)
        url = f.params[0]
        digests = []
        for h in private_closure(f):
            hx = x if h is f else Expander(h, inline=prog)
            for c in calls_in(h.node):
                cn = canonical_name(prog, h, c.func)
                if cn.startswith("hashlib.") and c.args:
                    digests.append((h, c, hx.text(c.args[0])))
        rep.check(bool(digests), rule, "%s.cache_load names the cache file by a digest" % modname, "ok",
                  "%s.cache_load no longer derives the cache file name from a digest" % modname, f.where)
        for h, c, arg in digests:
            whole = h is f and (arg == "%s.encode()" % url or arg.startswith("%s.encode(" % url))
            if h is not f:
                # a helper: its digest input must be its own parameter, and the call site must pass the url
                sites = [c2 for c2 in calls_in(f.node) if call_name(c2).split(".")[-1] == h.name]
                hp = [p0 for p0 in h.params if arg in ("%s.encode()" % p0,) or arg.startswith("%s.encode(" % p0)]
                whole = bool(hp) and bool(sites) and all(len(c2.args) > h.params.index(hp[0]) and x.text(c2.args[h.params.index(hp[0])]) == url for c2 in sites)
            rep.check(whole, rule, "%s.cache_load digests the whole URL" % modname, arg[:50],
                      "the digest in the cache file name is computed from `%s`, not from the complete URL: different URLs can share a cache file"
                      % arg[:60], where(h, c), witness="includes of .../rig_a/X.xml#/setup and .../rig_b/X.xml#/setup resolve to the same content")


def run(prog, rep):
    rep.decided = DECIDED
    rep.not_decided = NOT_DECIDED
    an = analysis.get(prog)
    S = an.s
    an.note_coverage(rep)
    pure_footprint(prog, rep, S, ["doc.BaseDocument.finalize", "section.BaseSection.link.setter",
                                  "section.BaseSection.include.setter", "section.BaseSection.merge",
                                  "property.BaseProperty.merge"], "PURE-1")
    merge_adds_clones(prog, rep, S, "ALIAS-4")
    strict_forwarded(prog, rep, "FWD-1")

    # ---------------------------------------------------------------- PURE-2
    rep.rule("PURE-2", "transitive write summary of BaseSection.clean / unmerge and Sectionable.clean: receivers are self "
                       "and its children only (removals from own lists, _link, _merged)")
    for qn in ("section.BaseSection.clean", "section.BaseSection.unmerge", "base.Sectionable.clean"):
        f = prog.func(qn)
        rep.saw_function(f)
        ws = S.visible_writes(f)
        bad = [w for w in ws if not (w.origin[0] == "P0" and w.origin[1] in ("", "child"))]
        rep.check(not bad, "PURE-2", "%s footprint" % f.short, "%d visible writes to self / own children" % len(ws),
                  "%s writes outside the linking Section: %s" % (f.short, [repr(w) for w in bad[:3]]), f.where,
                  witness="clean() changes the referenced Section or another part of the document")
    un = prog.func("section.BaseSection.unmerge")
    fields = set(w.field for w in S.visible_writes(un) if w.kind == "attr" and w.origin == ("P0", ""))
    rep.check(fields <= {"_link", "_merged"}, "PURE-2", "unmerge stores only _link and _merged on self", str(sorted(fields)),
              "unmerge stores other attributes of the linking Section: %s" % sorted(fields - {"_link", "_merged"}), un.where,
              witness="clean() alters attributes of the linking Section")

    # ----------------------------------------------------------------- SIB-5
    rep.rule("SIB-5", "the link setter resolves the path with <self>.get_section_by_path(value) and unmerge recomputes the "
                      "stored link with <self>.get_relative_path(<unmerge target>): same base object on both sides")
    ls = prog.func("section.BaseSection.link.setter")
    res = [c for c in calls_in(ls.node) if isinstance(c.func, ast.Attribute) and c.func.attr == "get_section_by_path"]
    rep.check(len(res) == 1 and unparse(res[0].func.value) == ls.params[0] and unparse(res[0].args[0]) == ls.params[1],
              "SIB-5", "link setter resolves relative to self", "self.get_section_by_path(new_value)",
              "the link is not resolved with self.get_section_by_path(<new value>)", ls.where)
    rec = [n for n in walk_no_nested(un.node) if isinstance(n, ast.Assign)
           and any(unparse(t) == "%s._link" % un.params[0] for t in n.targets)]
    rep.floor("SIB-5", len(rec), 1, "stores to _link in unmerge")
    for st in rec:
        v = st.value
        good = isinstance(v, ast.Call) and isinstance(v.func, ast.Attribute) and v.func.attr == "get_relative_path" \
            and unparse(v.func.value) == un.params[0] and len(v.args) == 1 and unparse(v.args[0]) == un.params[1]
        rep.check(good, "SIB-5", "unmerge: _link = %s" % unparse(v)[:50], "self.get_relative_path(section)",
                  "the stored link is recomputed as %s, not from the linking Section to the unmerge target" % unparse(v)[:80],
                  where(un, st), witness="finalize, clean, finalize again with the target below a shared ancestor: the link resolves elsewhere")
    cl = prog.func("section.BaseSection.clean")
    cs = [c for c in calls_in(cl.node) if call_name(c) == "%s.unmerge" % cl.params[0]]
    from ..symtext import Expander as _Ex
    clx = _Ex(cl, only_locations=True)
    rep.check(len(cs) == 1 and clx.text(cs[0].args[0]) == "%s._merged" % cl.params[0], "SIB-5",
              "clean unmerges the remembered target", "self.unmerge(self._merged)", "clean does not unmerge self._merged", cl.where)
    mg = prog.func("section.BaseSection.merge")
    rem = [n for n in walk_no_nested(mg.node) if isinstance(n, ast.Assign)
           and any(unparse(t) == "%s._merged" % mg.params[0] for t in n.targets)]
    rep.check(len(rem) == 1 and unparse(rem[0].value) == mg.params[1], "SIB-5", "merge remembers its source in _merged", "self._merged = section",
              "merge does not remember the merged Section", mg.where, witness="clean() cannot find what to remove")

    # ---------------------------------------------------------------- PROV-10
    rep.rule("PROV-10", "the link and include setters store exactly what they were given: every store to _link / _include in them is the "
                        "value parameter (or the constant None); resolution may split the value but must not store a part of it")
    for attr in ("link", "include"):
        st0 = prog.func("section.BaseSection.%s.setter" % attr)
        rep.saw_function(st0)
        sx = Expander(st0, inline=prog)
        stores = [n for n in walk_no_nested(st0.node) if isinstance(n, ast.Assign) and unparse(n.targets[0]) == "%s._%s" % (st0.params[0], attr)]
        rep.floor("PROV-10", len(stores), 1, "stores to _%s in its setter" % attr)
        for n in stores:
            t = sx.text(n.value)
            rep.check(t in (st0.params[1], "None"), "PROV-10", "%s setter stores its argument" % attr, t,
                      "the %s setter stores `%s` instead of the value it was given: the stored reference no longer designates the same target" % (attr, t),
                      where(st0, n), witness="an include 'URL#path' is stored as 'URL': after clean() and a save the reference is incomplete")

    # the reference is resolved through the path lookup: names are matched exactly (shared with C14)
    from .c14 import exact_name_match
    exact_name_match(prog, rep, "LOOKUP-1")

    # ---------------------------------------------------------------- PATH-3
    rep.rule("PATH-3", "section.py / base.py / doc.py: no decision relates two tree positions by comparing their path texts character-wise "
                       "(<path>.startswith/endswith/find/in <path> with both operands results of get_path()/get_relative_path() and no "
                       "separator appended): '/a/b1' starts with '/a/b' without being below it, so such a test refuses or re-routes a "
                       "valid link whose target name is a prefix of a name on the linking path")
    def _is_path_text(t):
        return bool(re.search(r"\.get_path\(\)|\.get_relative_path\(", t))
    n_str = 0
    for f3 in list(prog.functions.values()):
        if f3.module.name not in ("odml.section", "odml.base", "odml.doc"):
            continue
        x3 = None
        for n in walk_no_nested(f3.node):
            pair = None
            if isinstance(n, ast.Call) and isinstance(n.func, ast.Attribute) and n.func.attr in ("startswith", "endswith", "find", "index", "count", "rfind") \
                    and len(n.args) >= 1:
                pair = (n.func.value, n.args[0])
            elif isinstance(n, ast.Compare) and len(n.ops) == 1 and isinstance(n.ops[0], (ast.In, ast.NotIn)):
                pair = (n.comparators[0], n.left)
            if pair is None:
                continue
            n_str += 1
            if x3 is None:
                x3 = Expander(f3, only_locations=False)
            try:
                ta, tb = x3.text(pair[0]), x3.text(pair[1])
            except Exception:
                continue
            bad = _is_path_text(ta) and _is_path_text(tb) and "'/'" not in tb
            rep.check(not bad, "PATH-3", "%s: %s" % (f3.qualname, unparse(n)[:60]), "not a character-wise comparison of two paths",
                      "%s decides on `%s` - a character-wise comparison of two path texts (%s against %s): a name that is a prefix of "
                      "another name is taken for its ancestor" % (f3.qualname, unparse(n)[:80], ta[:40], tb[:40]), where(f3, n),
                      witness="/exp/session10/rec with link /exp/session1: finalize() refuses a valid link")
    rep.note("PATH-3: %d substring tests in section/base/doc examined" % n_str)
    _pos = ast.parse("def f(self, o):\n    a = self.get_path()\n    if a.startswith(o.get_path()):\n        raise ValueError()\n").body[0]
    _c = [n for n in ast.walk(_pos) if isinstance(n, ast.Call) and getattr(n.func, "attr", "") == "startswith"]
    rep.check(len(_c) == 1, "PATH-3", "built-in positive example is recognised", "1 call", "the rule does not recognise its own example", "c12.py")

    # --------------------------------------------------------------- CLEAN-1
    rep.rule("CLEAN-1", "BaseSection.clean: every normal path calls the inherited clean (super().clean()); Sectionable.clean calls clean() on "
                        "every element of self / self._sections without an early exit")
    bc = prog.func("section.BaseSection.clean")
    rep.saw_function(bc)
    bg = build_cfg(bc)
    ups = set()
    for n in bg.nodes:
        for root in n.expr_roots():
            for c in calls_in(root):
                if isinstance(c.func, ast.Attribute) and c.func.attr == "clean" and (
                        (isinstance(c.func.value, ast.Call) and call_name(c.func.value) == "super") or
                        (unparse(c.func.value).split(".")[-1] == "Sectionable" and c.args and unparse(c.args[0]) == bc.params[0])):
                    ups.add(n.id)
    from ..logic import reach_avoiding
    ok = bool(ups) and not reach_avoiding(bg, bg.entry, bg.exit, lambda s0, k0, d0: d0.id in ups, skip_kinds=("exc",))
    rep.check(ok, "CLEAN-1", "BaseSection.clean always continues with its children", "super().clean() on every path",
              "BaseSection.clean can return without calling the inherited clean: linking Sections below a linking Section stay resolved",
              bc.where, witness="finalize() then clean() on a document with a linking Section inside a linking Section: the inner one keeps the copies")
    sc = prog.func("base.Sectionable.clean")
    rep.saw_function(sc)
    sg = build_cfg(sc)
    sx = Expander(sc, sg)
    loops = [n for n in sg.nodes if n.kind == "for" and sx.text(strip_order_keeping(n.ast.iter)[0], n) in
             (sc.params[0], "%s._sections" % sc.params[0], "%s.sections" % sc.params[0])]
    good = len(loops) == 1 and not any(isinstance(y, (ast.Break, ast.Return, ast.Continue)) for y in ast.walk(loops[0].ast))
    if good:
        lp = loops[0]
        var = lp.ast.target.id if isinstance(lp.ast.target, ast.Name) else None
        calls = [n for n in sg.nodes if any(isinstance(c.func, ast.Attribute) and c.func.attr == "clean" and unparse(c.func.value) == var
                                            for root in n.expr_roots() for c in calls_in(root))]
        ids = set(n.id for n in calls)
        first = [m for k, m in lp.succ if k == "iter"][0]
        good = bool(ids) and (first.id in ids or not reach_avoiding(sg, first, lp, lambda s0, k0, d0: d0.id in ids, skip_kinds=("exc",)))
    rep.check(good, "CLEAN-1", "Sectionable.clean cleans every child Section", "for child in self: child.clean()",
              "Sectionable.clean does not call clean() on every child Section", sc.where)

    # FOUND-1: a child found by contains() is told from `not found` with `is None` - an empty Section and a Property without values are falsy
    from ..astutil import truthiness_tests
    rep.rule("FOUND-1", "in BaseSection.merge / unmerge / merge_check a local bound to <x>.contains(...) is never tested for truthiness: "
                        "BaseSection and BaseProperty define __len__, so a Section without children and a Property without values count as "
                        "`not found` and their copies survive clean() (or are added twice by merge)")
    n_found = 0
    for mname in ("merge", "unmerge", "merge_check"):
        mf = prog.cls("BaseSection").lookup_method(mname)
        if mf is None:
            continue
        for h in private_closure(mf):
            found = set()
            for st in walk_no_nested(h.node):
                if isinstance(st, ast.Assign) and len(st.targets) == 1 and isinstance(st.targets[0], ast.Name) and isinstance(st.value, ast.Call) \
                        and isinstance(st.value.func, ast.Attribute) and st.value.func.attr == "contains":
                    found.add(st.targets[0].id)
            n_found += len(found)
            for st in ast.walk(h.node):
                tests = [st.test] if isinstance(st, (ast.If, ast.IfExp, ast.While)) else []
                for t0 in tests:
                    for txt, pol, e0 in truthiness_tests(t0):
                        if isinstance(e0, ast.Name) and e0.id in found:
                            rep.fail("FOUND-1", "%s|%s" % (h.short, e0.id), "%s tests the truthiness of `%s`, the result of contains(): a found child "
                                     "that is empty is taken for missing" % (h.short, e0.id), where(h, st),
                                     witness="link target with a Property that has no values: after clean() the copy is still there")
    rep.floor("FOUND-1", n_found, 2, "locals bound to contains() in merge / unmerge / merge_check")
    if n_found:
        rep.ok("FOUND-1", "results of contains() are compared with None", "%d locals" % n_found, "")
    from ..report import import_verdicts
    import_verdicts(prog, rep, "C11", ("ID-2",), "ID-2",
                    "merge adds clone()s of the referenced children and unmerge finds them again through contains(), i.e. by name: new_id(), "
                    "which clone calls, must not touch the name")

    import_verdicts(prog, rep, "C11", ("CLONE-2",), "CLONE-2",
                    "unmerge() removes the children that are == the children of the link / include target: the copies finalize() made with clone() "
                    "must still equal their sources")
    import_verdicts(prog, rep, "C11", ("EQ-1",), "EQ-1",
                    "`cleaning restores the document` is a statement about ==: an __eq__ that leaves out link / include (or any content attribute) "
                    "calls a document restored that is not")

    # --------------------------------------------------------------- CACHE-2
    cache_key_rule(prog, rep, "CACHE-2")

    # ----------------------------------------------------------------- FIN-1
    rep.rule("FIN-1", "Document.finalize loops over self.itersections(recursive=True) and re-assigns link / include through "
                      "the property setters under `is not None` guards")
    fin = prog.func("doc.BaseDocument.finalize")
    fg = build_cfg(fin)
    fx = Expander(fin, fg)
    loops = [n for n in fg.nodes if n.kind == "for" and isinstance(strip_order_keeping(n.ast.iter)[0], ast.Call)
             and unparse(strip_order_keeping(n.ast.iter)[0].func) == "%s.itersections" % fin.params[0]]
    good = len(loops) == 1
    rep.check(good, "FIN-1", "finalize iterates all Sections", "self.itersections(...)", "finalize does not iterate self.itersections()", fin.where,
              witness="a link deeper in the tree is never resolved")
    if good:
        itcall = strip_order_keeping(loops[0].ast.iter)[0]
        each = "EACH(%s)" % fx.text(itcall, loops[0])
        # stores through the setters, read with helpers inlined: (<each>.link = <each>._link) and the same for include
        stores = {}
        hgs = {}
        for h in private_closure(fin):
            hg = build_cfg(h)
            hgs[h.qualname] = hg
            for n in hg.nodes:
                if n.kind == "stmt" and isinstance(n.ast, ast.Assign) and isinstance(n.ast.targets[0], ast.Attribute) \
                        and n.ast.targets[0].attr in ("link", "include"):
                    stores.setdefault(n.ast.targets[0].attr, []).append((h, n))
        for attr in ("link", "include"):
            sts = stores.get(attr, [])
            ok = len(sts) == 1
            if ok:
                h, n = sts[0]
                tv = unparse(n.ast.targets[0].value)
                hx = Expander(h, hgs[h.qualname])
                ok = hx.text(n.ast.value, n) == "%s._%s" % (hx.text(n.ast.targets[0].value, n), attr)
                if h is fin:
                    ok = ok and Expander(fin, fg).text(n.ast.targets[0].value, n) == each
                else:
                    # the helper is applied to the loop element
                    calls = [e for e in effect_calls(prog, fin, lambda c, h=h: isinstance(c.func, ast.Attribute) and c.func.attr == h.name)]
                    ok = ok and len(calls) == 1 and any(unparse(a0) == each for a0 in calls[0].call.args) and tv in h.params
            rep.check(ok, "FIN-1", "finalize resolves %s through the setter" % attr, "<section>.%s = <section>._%s for every Section" % (attr, attr),
                      "finalize does not re-assign <section>.%s from its stored value for the visited Section" % attr, fin.where)
        depth_kw = [k for k in itcall.keywords if k.arg == "max_depth"]
        rep.check(not depth_kw, "FIN-1", "finalize does not limit the depth", "ok", "finalize limits the traversal depth", fin.where)

    # ----------------------------------------------------------------- TAB-5 (link / include persisted)
    tabs, _ = ct.tab5_format_vs_class(prog, rep)
    for k in ("link", "include"):
        rep.check(k in tabs["Section"]["_args"], "TAB-5", "Section format has key %s" % k, "ok",
                  "'%s' is no longer a Section format key: a file saved after clean() loses the reference" % k, "odml/format.py")
    rep.assume("documents satisfy the tree invariant of C03 (children belong to exactly one parent)")
