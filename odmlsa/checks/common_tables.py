"""Table-agreement obligations shared by C01 / C02 / C10 / C15 / C20."""
import ast

from ..facts import MODEL_CLASSES, ctor_keywords, readable_attrs
from ..fold import format_tables
from ..model import AnalysisError
from ..tables import (ODML_1_1_VOCABULARY, ODML_1_1_ROOT_TAGS, ODML_1_1_REQUIRED,
                      CHILD_COLLECTION_KEYS)


def model_class(prog, fmt_name):
    return prog.cls(MODEL_CLASSES[fmt_name])


def tab5_format_vs_class(prog, rep, tabs=None):
    """TAB-5: every format key is readable on, and constructible through, the model class."""
    rep.rule("TAB-5", "for every key k of format.<F>._args: F.map(k) is a readable attribute of the "
                      "model class (else the writers silently skip it) and, unless k names a child "
                      "collection, a keyword of its constructor (else create(**args) raises for every "
                      "file carrying the element); _map keys are _args keys; _map is injective")
    tabs = tabs or format_tables(prog)
    n = 0
    for fname, tab in sorted(tabs.items()):
        cls = model_class(prog, fname)
        readable = readable_attrs(cls)
        kws = ctor_keywords(cls)
        amap = tab["_map"]
        where = "odml/format.py class %s" % fname
        for k in sorted(tab["_args"]):
            py = amap.get(k, k)
            n += 1
            rep.check(py in readable, "TAB-5", "%s.%s readable as %s.%s" % (fname, k, cls.name, py),
                      "attribute readable", "format key '%s' maps to '%s' which %s does not provide: "
                      "the writers skip it silently and the attribute is lost on save" % (k, py, cls.name),
                      where, witness="save a %s with %s set; reload; attribute missing" % (fname, k))
            if k in CHILD_COLLECTION_KEYS:
                continue
            rep.check(kws is None or py in kws, "TAB-5", "%s.%s constructible as %s(%s=)" % (fname, k, cls.name, py),
                      "constructor keyword", "format key '%s' maps to '%s' which is not a keyword of %s.__init__: "
                      "every file carrying <%s> fails to load" % (k, py, cls.name, k), where,
                      witness="load any file with element <%s> in a %s" % (k, fname))
        extra = sorted(set(amap) - set(tab["_args"]))
        rep.check(not extra, "TAB-5", "%s._map keys within _args" % fname, "ok",
                  "_map has keys that are not format arguments: %s" % extra, where)
        vals = list(amap.values())
        rep.check(len(vals) == len(set(vals)), "TAB-5", "%s._map injective" % fname, "ok",
                  "two odML names map to the same python name: %s" % amap, where)
        clash = sorted(v for k, v in amap.items() if v in tab["_args"] and v != k)
        rep.check(not clash, "TAB-5", "%s._map values do not shadow other keys" % fname, "ok",
                  "mapped python name equals another format key: %s" % clash, where)
    return tabs, n


def tab6_vocabulary(prog, rep, tabs):
    rep.rule("TAB-6", "format.<F>._args key set equals the odML 1.1 element vocabulary, _name is the "
                      "1.1 tag name, required flags match, every key is lower-case (the reader "
                      "lower-cases tags before the lookup)")
    for fname, tab in sorted(tabs.items()):
        where = "odml/format.py class %s" % fname
        keys = set(tab["_args"])
        spec = ODML_1_1_VOCABULARY[fname]
        rep.check(keys == spec, "TAB-6", "%s vocabulary" % fname, "keys == odML 1.1 vocabulary (%d)" % len(spec),
                  "format keys differ from the odML 1.1 vocabulary: missing %s, extra %s"
                  % (sorted(spec - keys), sorted(keys - spec)), where,
                  witness="an element outside/inside the vocabulary is written/refused")
        rep.check(tab["_name"] == ODML_1_1_ROOT_TAGS[fname], "TAB-6", "%s tag name" % fname,
                  "_name == %r" % tab["_name"], "_name is %r, odML 1.1 says %r" % (tab["_name"], ODML_1_1_ROOT_TAGS[fname]), where)
        req = set(k for k, v in tab["_args"].items() if v)
        rep.check(req == ODML_1_1_REQUIRED[fname], "TAB-6", "%s required keys" % fname, "required == %s" % sorted(req),
                  "required keys %s differ from odML 1.1 %s" % (sorted(req), sorted(ODML_1_1_REQUIRED[fname])), where)
        bad = sorted(k for k in keys if k != k.lower())
        rep.check(not bad, "TAB-6", "%s keys lower-case" % fname, "ok",
                  "keys %s are not lower-case: written but never accepted by the reader" % bad, where)
        rep.check(tab["is_instance"], "TAB-6", "%s format object is an instance" % fname, "ok",
                  "format.%s is no longer rebound to an instance; property access on it breaks" % fname, where)


def version_constant(prog):
    from ..fold import Folder
    fd = Folder(prog)
    try:
        return fd.module_const("odml.info", "FORMAT_VERSION")
    except Exception as exc:
        raise AnalysisError("cannot fold info.FORMAT_VERSION: %s" % exc)


def resolves_to_format_version(prog, mod, expr, local_imports=None):
    """does `expr` (a Name/Attribute) denote odml.info.FORMAT_VERSION?"""
    if not isinstance(expr, (ast.Name, ast.Attribute)):
        return False
    r = prog.resolve_expr_to_symbol(mod, expr, local_imports)
    return r == ("const", "odml.info", "FORMAT_VERSION")


def own_state_getters(prog, rep, rule="GET-1"):
    """(shared by the XML, the dictionary and the RDF writer, which all read the attributes with getattr(obj, F.map(k))) what a format
    attribute's getter returns is the object's own state: nothing looked up through the parent chain or a path.  Otherwise every
    child is saved with a private copy of a value it only inherits (`repository` has get_repository() for the inherited value)."""
    from .. import analysis
    rep.rule(rule, "return origin summary of the property getter behind every format key (children collections excepted): all origins are the "
                   "object itself / its fields - none reaches the parent chain (`up`) or an object found by a lookup (`reach`)")
    S = analysis.get(prog).s
    tabs = format_tables(prog)
    n = 0
    for fname, tab in sorted(tabs.items()):
        cls = model_class(prog, fname)
        for k in sorted(tab["_args"]):
            if k in CHILD_COLLECTION_KEYS:
                continue
            py = tab["_map"].get(k, k)
            gt = cls.lookup_prop(py, "getter")
            if gt is None:
                continue
            n += 1
            ro = S.ret_origin.get(gt.qualname, set())
            far = sorted(o for o in ro if o[1] and ("up" in o[1] or "reach" in o[1]))
            rep.check(not far, rule, "%s.%s returns own state" % (cls.name, py), "origins %s" % sorted(ro),
                      "the getter of %s.%s can return a value taken from the parent chain / a looked up object (%s): the writers store it with "
                      "every object that merely inherits it" % (cls.name, py, far), gt.where,
                      witness="a Document with a repository and Sections without one: every Section is saved with its own <repository>")
    rep.floor(rule, n, 20, "format attribute getters")


# attributes the reader / writer / converter objects (re)bind outside their constructor, confirmed on the reviewed tree: everything else they
# know is fixed at construction, so two calls on one object do not influence each other
STATE_AFTER_INIT = {
    "XMLWriter": (),
    "XMLReader": (),
    "DictWriter": ("doc",),
    "DictReader": ("parsed_doc",),
    "ODMLWriter": ("parsed_doc",),
    "ODMLReader": ("doc", "parsed_doc", "warnings"),
    "VersionConverter": ("conversion_log",),
    "RDFWriter": ("hub_root",),
    "RDFReader": ("graph",),
}


def stateless_tools_rule(prog, rep, rule, classes):
    """(shared) the tool objects keep no state between two calls beyond what the reviewed table lists"""
    import ast as _ast
    from ..model import unparse as _u
    from ..astutil import where as _where
    rep.rule(rule, "the methods of %s store into attributes of self only in __init__, except for %s: a result kept on the object (a rendered text, a "
                   "parsed source tree) is served again after the document or the file changed, and a list that is re-bound (self.warnings = []) is "
                   "no longer the list other objects were handed" % (", ".join(classes), dict((c, STATE_AFTER_INIT[c]) for c in classes if STATE_AFTER_INIT[c])))
    n = 0
    for cname in classes:
        cls = prog.cls(cname)
        for m in cls.methods.values():
            if m.name == "__init__" or not m.params or m.kind in ("static", "classmethod"):
                continue
            me = m.params[0]
            for st in _ast.walk(m.node):
                tg = st.targets if isinstance(st, _ast.Assign) else [st.target] if isinstance(st, (_ast.AugAssign, _ast.AnnAssign)) else []
                for t in tg:
                    for y in (t.elts if isinstance(t, (_ast.Tuple, _ast.List)) else [t]):
                        if isinstance(y, _ast.Attribute) and isinstance(y.value, _ast.Name) and y.value.id == me:
                            n += 1
                            rep.check(y.attr in STATE_AFTER_INIT[cname], rule, "%s.%s: self.%s" % (cname, m.name, y.attr), "reviewed state",
                                      "%s.%s stores self.%s: the object carries that over to its next call (or replaces an object that was shared "
                                      "with its user)" % (cname, m.name, y.attr), _where(m, st),
                                      witness="use one %s for two calls with a change in between: the second result is that of the first" % cname)
    rep.ok(rule, "%s keep no further state between calls" % "/".join(classes), "%d stores outside __init__, all reviewed" % n, "")
