"""C08 - validation reports exactly the issues the documented rules prescribe.

Decided: registry completeness (every documented rule is registered for exactly the documented
object kinds, derived through the IssueID each handler reports), rank table (errors and warnings
never confused), totality of the rules (no escaping raise, no unguarded index, no attribute that the
inferred class lacks, lookups of named children guarded), the id accumulator of the unique-id rules is
shared through the whole traversal, the driver visits every Section and Property, cardinality reports
are exact (ORD-2, shared with C09).
NOT decided: the if-and-only-if semantics of the remaining rules on arbitrary documents, message texts.
"""
import ast
import re

from .. import analysis
from ..cfg import build_cfg
from ..logic import known
from ..symtext import Expander, effect_calls
from ..astutil import truthiness_tests, atoms_at, value_cases, calls_in, call_name, where, kw
from ..cfg import build_cfg, enclosing_handlers
from ..facts import readable_attrs
from ..fold import Folder
from ..model import AnalysisError, FuncInfo, unparse, walk_no_nested
from ..raises import Raises
from ..dataflow import private_closure
from ..tables import FALSY_SET_ATTRIBUTES, VALIDATION_RULES, VALIDATION_OPTIONAL
from .rules_card import cardinality_validation_rule

DECIDED = [
    "TAB-2 every documented rule is registered for exactly the documented object kinds (handler -> IssueID derived from the code)",
    "TAB-3 every ValidationError is constructed with the rank documented for its IssueID; is_error/is_warning test the two labels",
    "ESC-1 the registered rules and the Validation driver cannot raise: no escaping raise site, indexed access guarded by non-emptiness, named lookups guarded by KeyError handlers, attributes exist on the inferred classes",
    "ACC-1 the unique-id rules thread one shared id map through the whole traversal",
    "DUP-1 object_unique_names reports an object iff its key was met earlier in the same scan (the key set starts empty and every scanned object is recorded)",
    "IDENT-2 Validation.__getitem__ selects the issues of an object by identity (an equal looking object elsewhere has its own issues)",
    "RESET-1 (shared with C19) a Validation object that is run again starts from an empty issue list: the warnings reported are those of the current state",
    "ID-3 (C04 PROV-2 / SIB-1) ids are stored in canonical text form: the duplicate id rule compares ids as strings",
    "WALK-2 run_validation validates the object, every Section below it and every Property of those Sections",
    "ORD-2 cardinality reports are exact over all order types (shared with C09)",
    'DUP-2 every object_unique_names scan over Properties uses the key selector x.name',
]
NOT_DECIDED = ["iff-semantics of the non-cardinality rules on arbitrary documents", "message texts"]

KIND_CLASS = {"odML": "BaseDocument", "section": "BaseSection", "property": "BaseProperty"}


def issue_ids_of(prog, f, seen=None, depth=0):
    """IssueID members a function can report (IssueID.<x> references in it and in the module functions it calls)."""
    seen = seen if seen is not None else set()
    if f.qualname in seen or depth > 3:
        return set()
    seen.add(f.qualname)
    out = set()
    for n in ast.walk(f.node):
        if isinstance(n, ast.Attribute) and isinstance(n.value, ast.Name) and n.value.id == "IssueID":
            out.add(n.attr)
    for c in calls_in(f.node):
        if isinstance(c.func, ast.Name) and c.func.id in f.module.functions:
            out |= issue_ids_of(prog, f.module.functions[c.func.id], seen, depth + 1)
    return out


def tab2_rule(prog, rep, K, rule="TAB-2", only_rank=None):
    """registry completeness (shared with C07, where only the error rules matter: they are what blocks saving)."""
    vmod = prog.module_of("validation")
    default, custom = K.registry()
    # ----------------------------------------------------------------- TAB-2
    rep.rule(rule, "registry = {(kind, handler)} from the module level Validation.register_handler calls; the IssueIDs a handler "
                      "reports are the IssueID.<x> it (or the helpers it calls) mentions; for every documented rule x the set of kinds "
                      "with a handler reporting x equals the documented set; every IssueID member exists; nothing is registered for an "
                      "unknown kind")
    ids = prog.cls("IssueID")
    members = set(k for k, v in ids.attrs.items() if isinstance(v, ast.Constant))
    reported = {}
    n_reg = 0
    for kind, hs in sorted(default.items()):
        rep.check(kind in KIND_CLASS, rule, "registration kind '%s'" % kind, "known kind", "handlers registered for unknown kind %r "
                  "(validate() looks up obj.format().name: odML/section/property)" % kind, vmod.path)
        for h in hs:
            n_reg += 1
            rep.saw_function(h)
            for i in issue_ids_of(prog, h):
                reported.setdefault(i, set()).add(kind)
    rep.floor(rule, n_reg, 14, "registrations")
    for rule_id, (kinds, rank) in sorted(VALIDATION_RULES.items()):
        if only_rank is not None and rank != only_rank:
            continue
        rep.check(rule_id in members, rule, "IssueID.%s exists" % rule_id, "ok", "IssueID.%s vanished" % rule_id, vmod.path)
        got = reported.get(rule_id, set())
        rep.check(got == kinds, rule, "rule %s registered for %s" % (rule_id, sorted(kinds)), str(sorted(got)),
                  "rule %s is reported for kinds %s, documented: %s (missing %s, extra %s)"
                  % (rule_id, sorted(got), sorted(kinds), sorted(kinds - got), sorted(got - kinds)), vmod.path,
                  witness="objects of kind %s are never checked by rule %s" % (sorted(kinds - got), rule_id) if kinds - got else
                  "rule %s fires for objects it is not defined for" % rule_id)
    extra = set(reported) - set(VALIDATION_RULES) - VALIDATION_OPTIONAL
    rep.check(not extra, rule, "no undocumented default rule", "ok", "default registry reports undocumented IssueIDs %s" % sorted(extra), vmod.path)



def tab3_rule(prog, rep, rule="TAB-3", only_rank=None):
    """rank table (shared with C07 for the error rules)."""
    vmod = prog.module_of("validation")
    fd = Folder(prog)
    # ----------------------------------------------------------------- TAB-3
    rep.rule(rule, "for every ValidationError(...) construction: IssueID (4th positional / validation_id=, resolved through the local "
                      "`validation_id = IssueID.x` or the callers' argument) and rank (3rd positional / rank=, default LABEL_ERROR) form a "
                      "pair of the documented rank table; LABEL_ERROR = 'error', LABEL_WARNING = 'warning'")
    labels = {}
    for nm in ("LABEL_ERROR", "LABEL_WARNING"):
        labels[nm] = fd.module_const("odml.validation", nm)
    rep.check(labels == {"LABEL_ERROR": "error", "LABEL_WARNING": "warning"}, rule, "rank labels", str(labels),
              "rank labels are %s" % labels, vmod.path)
    ve = prog.cls("ValidationError")
    init = ve.lookup_method("__init__")
    rep.check(init.params[1:] == ["obj", "msg", "rank", "validation_id"] and unparse(init.defaults.get("rank", ast.Constant(value=0))) == "LABEL_ERROR",
              rule, "ValidationError signature", "(obj, msg, rank=LABEL_ERROR, validation_id=None)",
              "ValidationError.__init__ signature/defaults changed: %s" % init.params, init.where)
    for prop, lab in (("is_error", "LABEL_ERROR"), ("is_warning", "LABEL_WARNING")):
        g = ve.lookup_prop(prop, "getter")
        rets = [unparse(n.value) for n in walk_no_nested(g.node) if isinstance(n, ast.Return)]
        rep.check(rets == ["self.rank == %s" % lab], rule, "ValidationError.%s" % prop, "self.rank == %s" % lab,
                  "%s is %s" % (prop, rets), g.where, witness="warnings block saving / errors do not")
    n_ctor = 0
    for f in vmod.functions.values():
        for c in calls_in(f.node):
            if call_name(c) != "ValidationError":
                continue
            n_ctor += 1
            rank = kw(c, "rank", 2)
            vid = kw(c, "validation_id", 3)
            rank_t = unparse(rank) if rank is not None else "LABEL_ERROR"
            ids_here = set()
            if vid is None:
                ids_here = set(["<none>"])
            elif isinstance(vid, ast.Attribute) and unparse(vid.value) == "IssueID":
                ids_here.add(vid.attr)
            elif isinstance(vid, ast.Name):
                from ..astutil import local_assignments
                defs = local_assignments(f.node, vid.id)
                for d in defs:
                    if isinstance(d, ast.Attribute) and unparse(d.value) == "IssueID":
                        ids_here.add(d.attr)
                if not defs and vid.id in f.params:
                    # passed by the callers
                    for g2 in vmod.functions.values():
                        for c2 in calls_in(g2.node):
                            if call_name(c2) == f.name:
                                a = kw(c2, vid.id, f.params.index(vid.id))
                                if isinstance(a, ast.Attribute) and unparse(a.value) == "IssueID":
                                    ids_here.add(a.attr)
                                elif isinstance(a, ast.Name):
                                    for d in local_assignments(g2.node, a.id):
                                        if isinstance(d, ast.Attribute):
                                            ids_here.add(d.attr)
            if rank_t not in ("LABEL_ERROR", "LABEL_WARNING"):
                # rank passed through by the callers (cardinality helper): checked by ORD-2
                if isinstance(rank, ast.Name) and rank.id in f.params:
                    continue
            for i in sorted(ids_here):
                if i == "<none>":
                    rep.fail(rule, "%s|no-validation-id" % f.short, "ValidationError constructed without validation_id in %s" % f.short, where(f, c),
                             witness="issue cannot be attributed to a rule")
                    continue
                if i not in VALIDATION_RULES:
                    continue
                want = VALIDATION_RULES[i][1]
                if only_rank is not None and want != only_rank:
                    continue
                got = {"LABEL_ERROR": "error", "LABEL_WARNING": "warning"}.get(rank_t, rank_t)
                rep.check(got == want, rule, "%s reports %s as %s" % (f.short, i, got), "documented rank %s" % want,
                          "%s reports IssueID.%s with rank %s, documented: %s" % (f.short, i, got, want), where(f, c),
                          witness="a %s blocks saving" % i if want == "warning" else "a document with %s can be saved" % i)
    rep.floor(rule, n_ctor, 12, "ValidationError constructions")



def run(prog, rep):
    rep.decided = DECIDED
    rep.not_decided = NOT_DECIDED
    an = analysis.get(prog)
    an.note_coverage(rep)
    K, S = an.k, an.s
    vmod = prog.module_of("validation")
    default, custom = K.registry()
    fd = Folder(prog)

    tab2_rule(prog, rep, K, "TAB-2")

    tab3_rule(prog, rep, "TAB-3")

    # ----------------------------------------------------------------- ESC-1
    rep.rule("ESC-1", "for every registered rule h (default and custom) and for Validation.{__init__, run_validation, validate, report, "
                      "__getitem__, error}: (a) the raise summary (explicit raises + reviewed library raises, callee summaries) is "
                      "empty; (b) every constant-index subscript of an attribute/call result is dominated by a truthiness/len test of "
                      "that expression; (c) every name-keyed lookup on a child container sits in a try that catches KeyError; "
                      "(d) every attribute read on an object whose kinds are all repository classes exists on each of them")
    R = Raises(an)
    handlers = []
    for hs in default.values():
        for h in hs:
            if h not in handlers:
                handlers.append(h)
    helpers = [f for f in vmod.functions.values() if f not in handlers and f.name in
               ("section_unique_ids", "property_unique_ids", "object_unique_names", "_cardinality_validation")]
    vcls = prog.cls("Validation")
    driver = [vcls.lookup_method(n) for n in ("__init__", "run_validation", "validate", "report", "__getitem__", "error")]
    for f in handlers + helpers + driver:
        rep.saw_function(f)
        sites = R.summary(f)
        rep.check(not sites, "ESC-1", "%s raises nothing" % f.short, "empty raise summary",
                  "%s can raise %s" % (f.short, sorted(set("%s@%s" % (s.exc, s.origin[0]) for s in sites))[:5]), f.where,
                  witness="validating a document raises instead of reporting")
        if f in driver:
            continue
        g = S.cfg(f)
        env = K.envs.get(f.qualname, {})
        for node in g.nodes:
            for root in node.expr_roots():
                for x in ast.walk(root):
                    # (b) constant index on attribute / call results
                    if isinstance(x, ast.Subscript) and isinstance(x.ctx, ast.Load) and isinstance(x.slice, ast.Constant) \
                            and isinstance(x.slice.value, int) and isinstance(x.value, (ast.Attribute, ast.Call)):
                        base = unparse(x.value)
                        conds = [(unparse(t), pol) for t, pol, _ in g.dominating_conditions(node)]
                        ok = any((t == base and pol == "true") or ("len(%s)" % base in t) or (t == "not %s" % base and pol == "false")
                                 or (base in [unparse(v) for v in ast.walk(tt) if isinstance(v, ast.expr)] and pol == "true" and " or " not in t)
                                 for (t, pol), (tt, _, _) in zip(conds, g.dominating_conditions(node)))
                        rep.check(ok, "ESC-1", "%s: %s guarded" % (f.short, unparse(x)[:40]), "non-emptiness established",
                                  "%s indexes `%s` without a dominating non-emptiness test: IndexError for an empty value list" % (f.short, unparse(x)[:50]),
                                  where(f, x), witness="a Property without values / a dependency target without values")
                    # (c) name keyed lookups
                    if isinstance(x, ast.Subscript) and isinstance(x.ctx, ast.Load) and not isinstance(x.slice, (ast.Constant, ast.Slice)):
                        ks = K.ek(x.value, f, env)
                        if any(k.startswith("SmartList[") or k in ("BaseSection", "BaseDocument") for k in ks):
                            hs = enclosing_handlers(g, node)
                            ok = any(any(c in ("KeyError", "LookupError", "Exception", "*") for c in hn.info["classes"])
                                     for h in hs for k2, hn in h.succ if k2 == "except")
                            rep.check(ok, "ESC-1", "%s: lookup %s guarded" % (f.short, unparse(x)[:40]), "KeyError handled",
                                      "%s looks up `%s` outside a KeyError handler" % (f.short, unparse(x)[:50]), where(f, x),
                                      witness="the named child does not exist")
                    # (d) typed attribute check
                    if isinstance(x, ast.Attribute) and isinstance(x.ctx, ast.Load):
                        ks = K.ek(x.value, f, env)
                        if ks and all(K.class_by_kind(k) is not None and not k.startswith("SmartList") for k in ks):
                            # refine local names by their reaching definitions
                            if isinstance(x.value, ast.Name):
                                ks2 = R._name_kinds_at(x.value.id, f, node)
                                if ks2 and all(K.class_by_kind(k) is not None for k in ks2):
                                    ks = ks2
                            lacking = [k for k in ks if x.attr not in readable_attrs(K.class_by_kind(k))]
                            conds = " ".join(unparse(t) for t, _, _ in g.dominating_conditions(node))
                            guarded = "hasattr(%s, '%s')" % (unparse(x.value), x.attr) in conds
                            if lacking and not guarded and lacking != sorted(ks):
                                pass
                            if lacking and not guarded:
                                rep.fail("ESC-1", "%s|%s.%s" % (f.short, unparse(x.value)[:20], x.attr),
                                         "%s reads .%s on `%s`, whose possible classes %s include %s without that attribute"
                                         % (f.short, x.attr, unparse(x.value), sorted(ks), lacking), where(f, x),
                                         witness="AttributeError while validating")

    acc1_rule(prog, rep, S)
    dup1_rule(prog, rep)
    dup2_rule(prog, rep)
    from ..report import import_verdicts
    import_verdicts(prog, rep, "C04", ("PROV-2", "SIB-1"), "ID-3",
                    "section_unique_ids / property_unique_ids compare the stored id strings: two spellings of one UUID must not both be storable")
    # --------------------------------------------------------------- IDENT-2
    rep.rule("IDENT-2", "Validation.__getitem__: every comparison of <issue>.obj with the key is `is` (odML == is a deep content comparison "
                        "that ignores ids: two Properties with equal content in different Sections would share their issues)")
    gi = prog.cls("Validation").methods.get("__getitem__")
    if gi is None:
        raise AnalysisError("Validation.__getitem__ vanished")
    rep.saw_function(gi)
    cmps = [n for h in private_closure(gi) for n in ast.walk(h.node) if isinstance(n, ast.Compare)
            and any(isinstance(y, ast.Attribute) and y.attr == "obj" for y in ast.walk(n))]
    rep.check(bool(cmps) and all(isinstance(o, (ast.Is, ast.IsNot)) for c in cmps for o in c.ops), "IDENT-2", "issues are looked up by identity",
              "%d comparison(s) with `is`" % len(cmps), "Validation.__getitem__ compares <issue>.obj with %s"
              % sorted(set(type(o).__name__ for c in cmps for o in c.ops)), gi.where,
              witness="validation[prop] also returns the dependency warning of an equal Property in another Section")

    # ---------------------------------------------------------------- WALK-2
    rep.rule("WALK-2", "Validation.run_validation: validate(self.obj); unless the object is a Property: for every Section of "
                       "self.obj.itersections(recursive=True) validate(section) and validate(each of section.properties)")
    rv = vcls.lookup_method("run_validation")
    me = rv.params[0]
    vcalls = [e for e in effect_calls(prog, rv, lambda c: isinstance(c.func, ast.Attribute) and c.func.attr == "validate", expanded=True)
              if unparse(e.call.func) == "%s.validate" % me and len(e.call.args) == 1]
    targets = [unparse(e.call.args[0]) for e in vcalls]
    secs = [t for t in targets if re.match(r"^EACH\(%s\.obj\.itersections\((.*)\)\)$" % re.escape(me), t)]
    ok = len(secs) == 1
    if ok:
        m = re.match(r"^EACH\(%s\.obj\.itersections\((.*)\)\)$" % re.escape(me), secs[0])
        ok = "max_depth" not in m.group(1) and "filter_func" not in m.group(1) and \
            any(t in ("EACH(%s.properties)" % secs[0], "EACH(%s.props)" % secs[0], "EACH(%s._props)" % secs[0]) for t in targets)
    esc = [x for x in walk_no_nested(rv.node) if isinstance(x, (ast.Break, ast.Continue))]
    rep.check(ok and not esc, "WALK-2", "run_validation visits every Section and Property", "ok",
              "run_validation does not validate every Section of itersections() and every Property of each: validates %s" % targets, rv.where,
              witness="issues deeper in the tree are not reported")
    first = [e for e in vcalls if unparse(e.call.args[0]) == "%s.obj" % me]
    g = build_cfg(rv)
    rep.check(len(first) == 1 and all(g.dominates(first[0].node, p0) for _, p0 in g.exit.pred), "WALK-2", "run_validation validates the object itself", "ok",
              "the validated object itself is not validated on every path", rv.where)
    val = vcls.lookup_method("validate")
    vme, vobj = val.params[0], val.params[1]
    recs = [unparse(e.call) for e in effect_calls(prog, val, lambda c: isinstance(c.func, ast.Attribute) and c.func.attr == "error", expanded=True)
            if unparse(e.call.func) == "%s.error" % vme]
    want = "%s.error(EACH(EACH(%s._handlers.get(%s.format().name, []))(%s)))" % (vme, vme, vobj, vobj)
    rep.check(want in recs, "WALK-2", "validate() runs the handlers of the object's kind", "ok",
              "validate() no longer selects handlers by obj.format().name and records what they yield: %s" % recs, val.where)

    # --------------------------------------------------------------- TRUTH-4
    rep.rule("TRUTH-4", "no registered rule decides on the truthiness of an attribute whose set values include falsy ones (%s): "
                        "`if not prop.dependency_value: return` skips the check for a dependency value of 0 / False"
             % ", ".join(sorted(FALSY_SET_ATTRIBUTES)))
    n_t = 0
    for h in handlers + helpers:
        for hh in private_closure(h):
            for n in ast.walk(hh.node):
                tests = [n.test] if isinstance(n, (ast.If, ast.IfExp, ast.While)) else []
                for t0 in tests:
                    for txt, pol, e0 in truthiness_tests(t0):
                        if isinstance(e0, ast.Attribute) and e0.attr in FALSY_SET_ATTRIBUTES:
                            n_t += 1
                            rep.fail("TRUTH-4", "%s|%s" % (hh.short, e0.attr), "%s tests the truthiness of `%s`: %s" % (hh.short, txt, FALSY_SET_ATTRIBUTES[e0.attr]),
                                     where(hh, n), witness="a Property with dependency_value 0 whose dependency holds other values gets no warning")
    if not n_t:
        rep.ok("TRUTH-4", "no truthiness test on %s" % "/".join(sorted(FALSY_SET_ATTRIBUTES)), "rules test `is None`", vmod.path)

    name_cache_rule(prog, rep, "CACHE-3")

    rep.rule("TUP-2", "property_values_check judges an <n>-tuple value by its item count: under a guard that knows the dtype ends in '-tuple' the "
                      "stored value's len() is compared with the n of the dtype (a round trip through the text form accepts an emptied tuple, "
                      "splits an item that contains ';' and raises TypeError for a non-text item)")
    pvc = vmod.functions.get("property_values_check")
    if pvc is None:
        raise AnalysisError("validation.property_values_check vanished")
    n_len = 0
    for h in private_closure(pvc):
        hx = Expander(h, inline=prog)
        for n in ast.walk(h.node):
            if isinstance(n, ast.Compare) and any(isinstance(c, ast.Call) and call_name(c) == "len" for c in ast.walk(n)):
                n_len += 1
    rep.check(n_len >= 1, "TUP-2", "tuple values are counted", "%d len() comparisons" % n_len,
              "property_values_check no longer compares len(<value>) with the tuple size of the dtype", pvc.where,
              witness="prop[0].clear() on a 2-tuple Property: no 'values inconsistent with dtype' warning")

    # ----------------------------------------------------------------- ORD-2
    cardinality_validation_rule(prog, rep)
    from .c19 import reset1_rule
    reset1_rule(prog, rep, "RESET-1")
    from ..report import import_verdicts
    import_verdicts(prog, rep, "C14", ("TRAV-1", "TRAV-2", "TRAV-3", "TRAV-4"), "WALK-I",
                    "run_validation reaches the Sections and Properties of a document through itersections / iterproperties: an object the "
                    "traversal skips is never validated")
    rep.assume("the documented rules table (odmlsa/tables.py VALIDATION_RULES) transcribes the validation docstrings")


def name_cache_rule(prog, rep, rule="CACHE-3"):
    """a child list that remembers names must hear about renames"""
    rep.rule(rule, "SmartList answers `children[<name>]` from the current names of its elements: an instance attribute of SmartList whose stored "
                   "value is computed from element names is a cache, and then every name setter of the model classes (the only writers of _name "
                   "after construction) writes that attribute or calls a SmartList method that does - or every return that reads the cache is "
                   "guarded by a comparison of the found element's .name with the key. Otherwise a look-up after `child.name = ...` finds the "
                   "renamed object under its old name (a dangling dependency goes unreported)")
    cls = prog.cls("SmartList")
    stores = {}      # attribute -> [(function, statement, value)]
    for f in cls.methods.values():
        if not f.params:
            continue
        me = f.params[0]
        for n in walk_no_nested(f.node):
            tgts = n.targets if isinstance(n, ast.Assign) else [n.target] if isinstance(n, (ast.AugAssign, ast.AnnAssign)) else []
            for t in tgts:
                base = t.value if isinstance(t, ast.Subscript) else t
                if isinstance(base, ast.Attribute) and unparse(base.value) == me:
                    stores.setdefault(base.attr, []).append((f, n, getattr(n, "value", None), t))
    writers = {}
    for a, lst in stores.items():
        for f, _, _, _ in lst:
            writers.setdefault(a, set()).add(f.name)
    setters = [f for f in prog.all_functions() if f.kind == "setter" and f.name == "name" and f.cls is not None
               and any(isinstance(n, ast.Assign) and any(isinstance(t, ast.Attribute) and t.attr == "_name" for t in n.targets) for n in walk_no_nested(f.node))]
    rep.floor(rule, len(setters), 2, "name setters that store _name")
    n_cache = 0
    for a, lst in sorted(stores.items()):
        derived = None
        for f, n, v, t in lst:
            x = Expander(f, inline=prog)
            txts = [x.text(v)] if v is not None else []
            if isinstance(t, ast.Subscript):
                txts.append(x.text(t.slice))
            if any(re.search(r"\.name\b|\._name\b", tx) for tx in txts):
                derived = (f, n)
        if derived is None:
            continue
        n_cache += 1
        deaf = []
        for sf in setters:
            hears = False
            for n in walk_no_nested(sf.node):
                if isinstance(n, (ast.Assign, ast.AugAssign, ast.Delete)) and re.search(r"\.%s\b" % re.escape(a), unparse(n).split("=")[0]):
                    hears = True
                if isinstance(n, ast.Call) and isinstance(n.func, ast.Attribute) and (n.func.attr in writers.get(a, ()) or
                                                                                       (n.func.attr in ("clear", "pop", "update") and unparse(n.func.value).endswith("." + a))):
                    hears = True
            if not hears:
                deaf.append(sf.short)
        unguarded = []
        for f in cls.methods.values():
            g = None
            for n in walk_no_nested(f.node):
                if isinstance(n, ast.Return) and n.value is not None:
                    x = Expander(f, inline=prog)
                    if re.search(r"\b%s\.%s\b" % (re.escape(f.params[0]), re.escape(a)), x.text(n.value)):
                        g = g or build_cfg(f)
                        from ..dataflow import node_of_ast
                        ats = atoms_at(g, node_of_ast(g, n.value))
                        if not any(pol and re.search(r"\.name == ", t0) for t0, pol, _ in ats):
                            unguarded.append((f, n))
        bad = bool(deaf) and bool(unguarded)
        rep.check(not bad, rule, "SmartList.%s (from names, built in %s)" % (a, derived[0].short), "renames reach the cache",
                  "SmartList.%s is computed from the names of the elements (%s) and `%s` answers from it, but %s do(es) not touch it: after a "
                  "rename the old name still finds the object" % (a, where(derived[0], derived[1]), unparse(unguarded[0][1])[:60] if unguarded else "",
                                                               ", ".join(deaf)), where(derived[0], derived[1]),
                  witness="look a Property up by name, rename it, look the old name up again: found")
    rep.note("%s: SmartList stores the attributes %s; %d of them computed from element names" % (rule, sorted(stores), n_cache))


def dup1_rule(prog, rep):
    """object_unique_names: the duplicate scan is a `seen set` scan."""
    from ..logic import reach_feasible
    from ..dataflow import reaching_defs, def_value, node_defs
    rep.rule("DUP-1", "object_unique_names: every issue is yielded for the loop element on paths that know `<key of element> in S`, where the "
                      "local S is an empty set when the scan starts, is changed in the loop only by S.add(<key of element>), and every "
                      "completed iteration performs that add")
    vmod = prog.module_of("validation")
    f = vmod.functions.get("object_unique_names")
    if f is None:
        raise AnalysisError("validation.object_unique_names vanished")
    rep.saw_function(f)
    g = build_cfg(f)
    x = Expander(f, g)
    ynodes = [n for n in g.nodes if n.kind == "stmt" and isinstance(n.ast, ast.Expr) and isinstance(n.ast.value, (ast.Yield, ast.YieldFrom))]
    rep.floor("DUP-1", len(ynodes), 1, "issues yielded by object_unique_names")
    for yn in ynodes:
        loops = [h for h in g.nodes if h.kind == "for" and g.dominates(h, yn) and any(isinstance(y, ast.AST) and y is yn.ast for y in ast.walk(h.ast))]
        if not loops:
            rep.fail("DUP-1", "object_unique_names|yield-outside-scan", "an issue is yielded outside the scanning loop", where(f, yn.ast))
            continue
        hd = loops[-1]
        var = hd.ast.target.id if isinstance(hd.ast.target, ast.Name) else None
        # the membership test that guards the yield
        found = {}

        def clf(lf, br, found=found):
            if isinstance(lf, ast.Compare) and len(lf.ops) == 1 and isinstance(lf.ops[0], ast.In) and isinstance(lf.comparators[0], ast.Name) \
                    and var is not None and any(isinstance(y, ast.Name) and y.id == var for y in ast.walk(lf.left)):
                found[lf.comparators[0].id] = unparse(lf.left)
                return "DUP:" + lf.comparators[0].id
            return None
        # discover candidate containers, then demand one that is known at the yield
        for br in g.nodes:
            if br.kind == "branch":
                for lf in ast.walk(br.ast.test):
                    clf(lf, br)
        good = False
        why = "no membership test `<key> in <local>` guards the report"
        for coll, key in sorted(found.items()):
            if not known(g, yn, lambda lf, br, coll=coll: "D" if clf(lf, br) == "DUP:" + coll else None, lambda a: a["D"], ["D"], with_node=True, start=hd):
                continue
            body_ids = set()
            stack = [m for k, m in hd.succ if k == "iter"]
            while stack:
                m = stack.pop()
                if m.id in body_ids or m.id == hd.id:
                    continue
                body_ids.add(m.id)
                stack.extend(m2 for k, m2 in m.succ if k != "exc")
            outer = [d for d in reaching_defs(g, hd, coll) if d.id not in body_ids]
            empty = len(outer) == 1 and outer[0].kind != "entry" and _is_empty_set(def_value(outer[0], coll))
            adds = [m for m in g.nodes if m.id in body_ids and m.kind == "stmt" and isinstance(m.ast, ast.Expr) and isinstance(m.ast.value, ast.Call)
                    and isinstance(m.ast.value.func, ast.Attribute) and m.ast.value.func.attr in ("add", "append")
                    and unparse(m.ast.value.func.value) == coll and len(m.ast.value.args) == 1 and unparse(m.ast.value.args[0]) == key]
            other = [m for m in g.nodes if m.id in body_ids and coll in node_defs(m)]
            every = bool(adds) and not reach_feasible(g, [m for k, m in hd.succ if k == "iter"], hd, stop_ids=set(m.id for m in adds))
            if empty and every and not other:
                good = True
                why = "seen set %s, key %s" % (coll, key)
                break
            why = "`%s in %s` guards the report, but %s" % (key, coll, "the set does not start empty at the scan" if not empty else
                                                          "not every scanned object is recorded in it" if not every else "it is re-bound inside the scan")
        rep.check(good, "DUP-1", "object_unique_names reports repeated keys only", why,
                  "the duplicate scan is not a seen-set scan: %s" % why, where(f, yn.ast),
                  witness="siblings a, a, b: also the first `a` and the unique `b` are reported (or no duplicate at all)")


def _selector(vmod, e):
    """(parameter, returned expression) of a one-argument selector given as lambda or as a module level function with a single return"""
    if isinstance(e, ast.Lambda) and len(e.args.args) == 1:
        return e.args.args[0].arg, e.body
    if isinstance(e, ast.Name) and e.id in vmod.functions:
        fn = vmod.functions[e.id]
        rets = [n for n in ast.walk(fn.node) if isinstance(n, ast.Return)]
        body = [st for st in fn.node.body if not (isinstance(st, ast.Expr) and isinstance(st.value, ast.Constant))]
        if len(fn.params) == 1 and len(rets) == 1 and len(body) == 1 and rets[0].value is not None:
            return fn.params[0], rets[0].value
    return None


def dup2_rule(prog, rep, rule="DUP-2"):
    """the uniqueness key of the Property scan is the name alone"""
    from ..astutil import bound_args
    rep.rule(rule, "every call of object_unique_names whose `children` selector returns the Properties of the object (.properties / .props / "
                   "._props) uses the key selector `x.name` (explicitly or through the default of the parameter): sibling Properties are "
                   "duplicates when their names agree, whatever else differs. A key with more components reports fewer duplicates")
    vmod = prog.module_of("validation")
    oun = vmod.functions.get("object_unique_names")
    if oun is None:
        raise AnalysisError("validation.object_unique_names vanished")
    params = list(oun.params)
    n = 0
    for f in vmod.functions.values():
        for c in ast.walk(f.node):
            if not (isinstance(c, ast.Call) and isinstance(c.func, ast.Name) and c.func.id == "object_unique_names"):
                continue
            args = bound_args(c, params)
            if args is None:
                rep.fail(rule, "%s|opaque-call" % f.short, "object_unique_names is called with * / ** arguments: the selectors are not readable", where(f, c))
                continue
            eff = {}
            for prm, a in zip(params, args):
                eff[prm] = a if a is not None else oun.defaults.get(prm)
            ch = _selector(vmod, eff.get("children")) if eff.get("children") is not None else None
            if ch is None:
                rep.fail(rule, "%s|children-selector" % f.short, "the children selector of this scan is not a readable one-argument function", where(f, c))
                continue
            cp, cbody = ch
            sel = unparse(cbody)
            if sel not in ("%s.properties" % cp, "%s.props" % cp, "%s._props" % cp):
                continue
            n += 1
            rep.saw_function(f)
            key = _selector(vmod, eff.get("attr")) if eff.get("attr") is not None else None
            ok = key is not None and unparse(key[1]) == "%s.name" % key[0]
            rep.check(ok, rule, "%s|property-key" % f.short, "key selector is the name",
                      "the Property scan compares `%s`, not the name alone" % (unparse(key[1]) if key else unparse(eff.get("attr")) if eff.get("attr") is not None else "?"),
                      where(f, c), witness="two sibling Properties named alike that differ in the extra component: no issue, the document is saved")
    rep.floor(rule, n, 1, "Property uniqueness scans")


def _is_empty_set(v):
    return (isinstance(v, ast.Call) and isinstance(v.func, ast.Name) and v.func.id in ("set", "list", "dict") and not v.args and not v.keywords) or \
        (isinstance(v, (ast.List, ast.Dict)) and not getattr(v, "elts", getattr(v, "keys", None)))


def acc1_rule(prog, rep, S):
    vmod = prog.module_of("validation")
    # ----------------------------------------------------------------- ACC-1
    rep.rule("ACC-1", "section_unique_ids / property_unique_ids: the parameter id_map is re-bound only to a fresh {} under `not id_map`, "
                      "and is passed on unchanged to every nested call (one shared map for the whole traversal); document_unique_ids "
                      "creates the map with the document's id and hands it down")
    for name in ("section_unique_ids", "property_unique_ids"):
        f = vmod.functions.get(name)
        if f is None:
            raise AnalysisError("validation.%s vanished" % name)
        if "id_map" not in f.params:
            raise AnalysisError("validation.%s lost its id_map parameter" % name)
        rebinds = [n for n in walk_no_nested(f.node) if isinstance(n, ast.Assign) and any(isinstance(t, ast.Name) and t.id == "id_map" for t in n.targets)]
        g = S.cfg(f)
        for st in rebinds:
            node = [n for n in g.nodes if n.ast is st][0]
            conds = [(t, p) for t, p, _ in atoms_at(g, node)]
            ok = True
            for expr, extra in value_cases(st.value):
                known_atoms = conds + list(extra)
                if isinstance(expr, ast.Name) and expr.id == "id_map":
                    continue            # keeps the map that was handed in
                fresh = (isinstance(expr, ast.Dict) and not expr.keys) or (isinstance(expr, ast.Call) and call_name(expr) == "dict" and not expr.args)
                ok = ok and fresh and (("id_map", False) in known_atoms or ("id_map is None", True) in known_atoms)
            rep.check(ok, "ACC-1", "%s: id_map = %s" % (name, unparse(st.value)[:30]), "fresh map only when none was handed in",
                      "%s re-binds id_map to `%s` (guards %s): ids collected in a sub-tree are forgotten when the traversal returns"
                      % (name, unparse(st.value)[:40], conds), where(f, st),
                      witness="duplicate ids in different branches of the tree are not reported")
        for c in calls_in(f.node):
            if call_name(c) in ("section_unique_ids", "property_unique_ids"):
                a = kw(c, "id_map", 1)
                rep.check(isinstance(a, ast.Name) and a.id == "id_map", "ACC-1", "%s passes id_map to %s" % (name, call_name(c)), "same object",
                          "%s calls %s with `%s` instead of its own id_map" % (name, call_name(c), unparse(a) if a is not None else "nothing"),
                          where(f, c), witness="duplicate ids across siblings / levels are missed")
    # every object is entered into the map in the iteration that looked it up: an id that was not taken is registered before the next
    # object is compared (two phases - compare all, then register all - never compare the objects of one level with each other)
    from ..logic import reach_avoiding as _ra
    for name in ("section_unique_ids", "property_unique_ids"):
        f = vmod.functions.get(name)
        g = S.cfg(f)

        def registers(n, f=f):
            for r in n.expr_roots():
                for y in ast.walk(r):
                    if isinstance(y, ast.Call) and isinstance(y.func, ast.Attribute) and y.func.attr in ("setdefault", "update") and unparse(y.func.value) == "id_map":
                        return True
                    if isinstance(y, ast.Call) and isinstance(y.func, ast.Name) and y.func.id.startswith("_") and y.func.id in f.module.functions \
                            and any(isinstance(a, ast.Name) and a.id == "id_map" for a in y.args):
                        h = f.module.functions[y.func.id]
                        if any(isinstance(t, ast.Subscript) and isinstance(t.ctx, ast.Store) and isinstance(t.value, ast.Name) and t.value.id in h.params
                               for t in ast.walk(h.node)):
                            return True       # a private helper that claims the id in the map it is handed
            st = n.ast
            return n.kind == "stmt" and isinstance(st, ast.Assign) and any(isinstance(t, ast.Subscript) and unparse(t.value) == "id_map" for t in st.targets)
        loops = [h for h in g.nodes if h.kind == "for" and any(isinstance(y, ast.Compare) and any(isinstance(o, (ast.In, ast.NotIn)) for o in y.ops)
                                                                and unparse(y.comparators[0]) == "id_map" for y in ast.walk(h.ast))
                 or (h.kind == "for" and any(registers(m) for m in g.nodes if g.dominates(h, m) and m.id != h.id and any(x is m.ast for x in ast.walk(h.ast))))]
        reg_ids = set(n.id for n in g.nodes if registers(n))
        for hd in loops:
            def reported(src, kind, dst):
                # the edge on which the id was found in the map (the duplicate is reported instead of being registered)
                if src.kind != "branch" or kind not in ("true", "false"):
                    return False
                for y in ast.walk(src.ast.test):
                    if isinstance(y, ast.Compare) and len(y.ops) == 1 and unparse(y.comparators[0]) == "id_map":
                        if isinstance(y.ops[0], ast.In):
                            return kind == "true"
                        if isinstance(y.ops[0], ast.NotIn):
                            return kind == "false"
                return False
            firsts = [m for k0, m in hd.succ if k0 == "iter"]
            body_regs = set(i for i in reg_ids if any(x.id == i and any(y is x.ast for y in ast.walk(hd.ast)) for x in g.nodes))
            idle = any(_ra(g, f0, hd, lambda s0, k0, d0: d0.id in body_regs or s0.id in body_regs or reported(s0, k0, d0), skip_kinds=("exc",))
                       and f0.id not in body_regs for f0 in firsts)
            tests_here = any(isinstance(y, ast.Compare) and unparse(y.comparators[0]) == "id_map" for y in ast.walk(hd.ast)) or bool(body_regs)
            if not tests_here:
                continue
            rep.check(not idle, "ACC-1", "%s: an id that is not taken yet is registered in the same iteration" % name, "ok",
                      "an iteration of `for %s in %s` can finish without registering an id that was not in the map: the objects of one level are "
                      "never compared with each other" % (unparse(hd.ast.target), unparse(hd.ast.iter)[:40]), where(f, hd.ast),
                      witness="two Properties of one Section with the same id: no error, the document is saved")
    du = vmod.functions.get("document_unique_ids")
    cs = [c for c in calls_in(du.node) if call_name(c) == "section_unique_ids"]
    def _seed_map(e):
        # the map handed to the traversal: a local, or a dict display that already holds the document's id
        def holds_id(d):
            return isinstance(d, ast.Dict) and any(k is not None and unparse(k) in ("%s.id" % du.params[0], "%s._id" % du.params[0]) for k in d.keys)
        if isinstance(e, ast.Name):
            defs = [st.value for st in walk_no_nested(du.node) if isinstance(st, ast.Assign) and any(isinstance(t, ast.Name) and t.id == e.id for t in st.targets)]
            keyed = [st for st in walk_no_nested(du.node) if isinstance(st, ast.Assign) and any(
                isinstance(t, ast.Subscript) and unparse(t.value) == e.id and unparse(t.slice) in ("%s.id" % du.params[0], "%s._id" % du.params[0]) for t in st.targets)]
            return bool(defs) and (all(holds_id(d) for d in defs) or bool(keyed))
        return holds_id(e)
    rep.check(len(cs) == 1 and len(cs[0].args) == 2 and unparse(cs[0].args[0]) == du.params[0] and _seed_map(cs[0].args[1]), "ACC-1",
              "document_unique_ids starts the traversal with a map holding the document id", "ok",
              "document_unique_ids does not call section_unique_ids(doc, id_map)", du.where)
