"""Shape typing of converter results (RET-1) and "validated on every path" (PROV-4).

value_type() abstracts an expression to the python type it evaluates to, following single-assignment locals
through reaching definitions, so that the rule is about what is returned and not about how the function is laid out.
"""
import ast
import copy

from ..astutil import call_name
from ..dataflow import reaching_defs, def_value, node_defs
from ..logic import entails, reach_avoiding
from ..model import unparse

SECOND_DIRECTIVES = set("YmdHMS")


def _fmt_seconds_only(fmt):
    if not isinstance(fmt, str):
        return False
    i = 0
    while i < len(fmt):
        if fmt[i] == "%":
            if i + 1 >= len(fmt) or fmt[i + 1] not in SECOND_DIRECTIVES:
                return False
            i += 2
        else:
            i += 1
    return True


def value_type(e, g, node, params, fold_const, depth=0, inline_call=None):
    """abstract type of expression e evaluated at CFG node `node`:
    'int' 'float' 'str' 'bool' 'None' 'datetime' (second resolution) 'date' 'time' 'strlist' (list of stripped strings)
    'default:<key>' (default_values(<literal>)) 'param:<name>' (argument passed through) or '?:<text>'."""
    if depth > 6:
        return set(["?:depth"])
    if isinstance(e, ast.Constant):
        if e.value is None:
            return set(["None"])
        return set([type(e.value).__name__])
    if isinstance(e, ast.IfExp):
        return value_type(e.body, g, node, params, fold_const, depth + 1, inline_call) | value_type(e.orelse, g, node, params, fold_const, depth + 1, inline_call)
    if isinstance(e, ast.Name):
        out = set()
        built = _built_by_append(g, e.id)
        if built is not None:
            return built
        defs = reaching_defs(g, node, e.id)
        if not defs:
            return set(["?:%s" % e.id])
        for d in defs:
            if d.kind == "entry":
                out.add(("param:%s" % e.id) if e.id in params else "?:%s" % e.id)
                continue
            v = def_value(d, e.id)
            if v is None:
                out.add("?:%s" % e.id)
            else:
                out |= value_type(v, g, d, params, fold_const, depth + 1, inline_call)
        return out
    if isinstance(e, ast.ListComp):
        elt = e.elt
        if isinstance(elt, ast.Call) and isinstance(elt.func, ast.Attribute) and elt.func.attr == "strip" and not elt.args:
            return set(["strlist"])
        return set(["?:%s" % unparse(e)[:30]])
    tv = _table_values(e, g, node)
    if tv is not None:
        # a value looked up in a module level table of literals: any of its values (.get also yields None, which the caller tests for)
        out = set()
        for v in tv:
            out |= set(["lambda"]) if isinstance(v, ast.Lambda) else value_type(v, g, node, params, fold_const, depth + 1, inline_call)
        return out
    if isinstance(e, ast.Call):
        callee = _table_values(e.func, g, node)
        if callee is not None and not e.keywords and not any(isinstance(a, ast.Starred) for a in e.args):
            # the looked up value is called: a table of lambdas is a dispatch, each row is judged with the actual arguments put in
            out = set()
            for v in callee:
                if isinstance(v, ast.Lambda) and len(v.args.args) == len(e.args) and not v.args.vararg and not v.args.kwarg:
                    mapping = dict((a.arg, x) for a, x in zip(v.args.args, e.args))
                    body = _Subst(mapping).visit(copy.deepcopy(v.body))
                    out |= value_type(body, g, node, params, fold_const, depth + 1, inline_call)
                elif isinstance(v, ast.Constant) and v.value is None:
                    continue
                elif isinstance(v, (ast.Name, ast.Attribute)) and depth < 6:
                    # a named function kept in the table: the call of that function
                    out |= value_type(ast.copy_location(ast.Call(func=v, args=list(e.args), keywords=[]), e), g, node, params, fold_const, depth + 1, inline_call)
                else:
                    out.add("?:call of table entry %s" % unparse(v)[:30])
            return out
        if inline_call is not None:
            r = inline_call(e)
            if r is not None:
                return value_type(r, g, node, params, fold_const, depth + 1, inline_call)
        fn = call_name(e)
        last = fn.split(".")[-1]
        if fn == "list" and len(e.args) == 1 and isinstance(e.args[0], ast.Call) and call_name(e.args[0]) == "map" and len(e.args[0].args) == 2 \
                and unparse(e.args[0].args[0]) == "str.strip":
            return set(["strlist"])
        if fn in ("int", "float", "str", "bool") and len(e.args) == 1:
            return set([fn])
        if last == "default_values" and len(e.args) == 1 and isinstance(e.args[0], ast.Constant):
            return set(["default:%s" % e.args[0].value])
        if last == "strptime" and "datetime" in fn and len(e.args) == 2:
            fmt = fold_const(e.args[1])
            if _fmt_seconds_only(fmt):
                return set(["datetime"])
            return set(["?:strptime with format %r" % (fmt,)])
        if last == "now" and "datetime" in fn and not e.args:
            return set(["datetime-now"])          # the current time, with microseconds
        if isinstance(e.func, ast.Attribute):
            base = value_type(e.func.value, g, node, params, fold_const, depth + 1, inline_call)
            if last == "date" and not e.args and base <= set(["datetime", "datetime-now"]) and base:
                return set(["date"])
            if last == "time" and not e.args and base == set(["datetime"]):
                return set(["time"])
            if last == "time" and not e.args and base == set(["datetime-now"]):
                return set(["time-with-microseconds"])
            if last == "replace" and any(k.arg == "microsecond" and isinstance(k.value, ast.Constant) and k.value.value == 0 for k in e.keywords):
                # truncating the *current time* gives a second resolution datetime; truncating an argument keeps whatever else it
                # carries (tzinfo), so that is the argument passed through
                if base == set(["datetime-now"]) or base == set(["datetime"]):
                    return set(["datetime"])
                return set(["param-modified:%s" % unparse(e.func.value)[:30]])
        return set(["?:%s" % unparse(e)[:40]])
    return set(["?:%s" % unparse(e)[:40]])


TABLES = {}       # module level name -> ast.Dict display, set by the rule that uses value_type (literal tables of the module it reads)


class _Subst(ast.NodeTransformer):
    def __init__(self, mapping):
        self.mapping = mapping

    def visit_Name(self, n):
        if n.id in self.mapping and isinstance(n.ctx, ast.Load):
            return copy.deepcopy(self.mapping[n.id])
        return n


def _table_values(e, g, node, depth=0):
    """value expressions of the module level literal table that `e` looks a key up in (T[k], T.get(k), T.get(k, d), or a local bound
    once to such a look-up); None when e is no such look-up"""
    if depth > 3:
        return None
    if isinstance(e, ast.Subscript) and isinstance(e.value, ast.Name) and e.value.id in TABLES:
        return list(TABLES[e.value.id].values)
    if isinstance(e, ast.Call) and isinstance(e.func, ast.Attribute) and e.func.attr == "get" and isinstance(e.func.value, ast.Name) \
            and e.func.value.id in TABLES and 1 <= len(e.args) <= 2:
        return list(TABLES[e.func.value.id].values) + ([e.args[1]] if len(e.args) == 2 else [ast.Constant(value=None)])
    if isinstance(e, ast.Name) and g is not None and node is not None:
        defs = list(reaching_defs(g, node, e.id))
        if len(defs) == 1 and defs[0].kind != "entry":
            v = def_value(defs[0], e.id)
            if v is not None:
                return _table_values(v, g, defs[0], depth + 1)
    return None


def _built_by_append(g, name):
    """{'strlist'} when `name` is initialised with [] once and only ever grows by .append(<x>.strip()); None otherwise"""
    inits = [n for n in g.nodes if n.kind == "stmt" and isinstance(n.ast, ast.Assign) and any(isinstance(t, ast.Name) and t.id == name for t in n.ast.targets)]
    if len(inits) != 1 or not (isinstance(inits[0].ast.value, ast.List) and not inits[0].ast.value.elts):
        return None
    muts = []
    for n in g.nodes:
        for r in n.expr_roots():
            for c in ast.walk(r):
                if isinstance(c, ast.Call) and isinstance(c.func, ast.Attribute) and isinstance(c.func.value, ast.Name) and c.func.value.id == name:
                    muts.append(c)
    if not muts:
        return None
    for c in muts:
        if c.func.attr != "append" or len(c.args) != 1:
            return None
        a = c.args[0]
        if not (isinstance(a, ast.Call) and isinstance(a.func, ast.Attribute) and a.func.attr == "strip" and not a.args):
            return None
    return set(["strlist"])


def validated_before(g, node, var, check_leaf, start_defs_ok=None):
    """every path from each reaching definition of `var` to `node` crosses a branch edge that forces
    check_leaf(<leaf>, var) (e.g. valid_type(var)) to be true; definitions accepted by start_defs_ok(value) need no check.
    returns (ok, reason)"""
    def classify(leaf):
        return "OK" if check_leaf(leaf, var) else None

    def edge_ok(src, kind, dst):
        return src.kind == "branch" and kind in ("true", "false") and \
            entails(src.ast.test, kind == "true", classify, lambda a: a["OK"], ["OK"])
    all_defs = set(n.id for n in g.nodes if var in node_defs(n))
    for d in reaching_defs(g, node, var):
        killers = all_defs - set([d.id])

        def edge_ok2(src, kind, dst, killers=killers):
            return dst.id in killers or edge_ok(src, kind, dst)
        if d.kind != "entry":
            v = def_value(d, var)
            if v is not None and start_defs_ok is not None and start_defs_ok(v):
                continue
        if reach_avoiding(g, d, node, edge_ok2, skip_kinds=()):
            return False, "a path from the definition at line %s reaches line %s without the check" % (getattr(d, "lineno", "?"), getattr(node, "lineno", "?"))
    return True, "checked on every path"
