"""Tree events (child list / parent pointer operations) and the pairing simulation used by C03, C04 and C06."""
import ast

from ..astutil import calls_in, call_name, where
from ..events import node_events
from ..model import AnalysisError, ClassInfo, unparse, walk_no_nested

CHILD_FIELDS = ("_sections", "_props")
CHILD_GETTERS = {"sections": "_sections", "properties": "_props", "props": "_props"}
CONTAINER_KINDS = ("BaseSection", "BaseDocument")
RAW_ADD = ("append", "insert", "extend", "__iadd__")
RAW_DEL = ("remove", "pop", "clear", "__delitem__")


def norm_text(e):
    """getter normalised source text: .sections -> ._sections, .parent -> ._parent ..."""
    t = unparse(e) if not isinstance(e, str) else e
    for a, b in (("sections", "_sections"), ("properties", "_props"), ("props", "_props"), ("parent", "_parent"),
                 ("name", "_name")):
        t = t.replace("." + a + " ", "." + b + " ").replace("." + a + ")", "." + b + ")")
        if t.endswith("." + a):
            t = t[:-len(a)] + b
        t = t.replace("." + a + ".", "." + b + ".").replace("." + a + "[", "." + b + "[").replace("." + a + ",", "." + b + ",")
        t = t.replace("." + a + ":", "." + b + ":")
    return t


def is_child_list_expr(an, e, f, conds=None):
    """does expression e denote a child list (SmartList of Sections/Properties)?"""
    ks = an.k.narrowed(e, f, an.k.envs.get(f.qualname, {}), conds) if conds else an.k.ek(e, f, an.k.envs.get(f.qualname, {}))
    return any(k.startswith("SmartList[") for k in ks)


def is_container_expr(an, e, f, conds=None):
    ks = an.k.narrowed(e, f, an.k.envs.get(f.qualname, {}), conds) if conds else an.k.ek(e, f, an.k.envs.get(f.qualname, {}))
    return any(k in CONTAINER_KINDS for k in ks)


def alias_values(fnode, name):
    """every value bound to local `name` (plain and tuple assignments); None in the list when a binding is not an assignment"""
    out = []
    for n in walk_no_nested(fnode):
        if isinstance(n, ast.Assign):
            for t in n.targets:
                if isinstance(t, ast.Name) and t.id == name:
                    out.append(n.value)
                elif isinstance(t, (ast.Tuple, ast.List)):
                    for i, el in enumerate(t.elts):
                        if isinstance(el, ast.Name) and el.id == name:
                            out.append(n.value.elts[i] if isinstance(n.value, (ast.Tuple, ast.List)) and len(n.value.elts) == len(t.elts) else None)
        elif isinstance(n, (ast.For, ast.AugAssign, ast.With)):
            tgts = [n.target] if hasattr(n, "target") else [i.optional_vars for i in n.items if i.optional_vars is not None]
            for t in tgts:
                if any(isinstance(y, ast.Name) and y.id == name for y in ast.walk(t)):
                    out.append(None)
    return out


def _helper_lists(f, v):
    """child list attributes (of the receiver) that the private helper call v can return, or None when v is no such call"""
    from ..symtext import _is_private_helper_call
    if not (isinstance(v, ast.Call) and isinstance(v.func, ast.Attribute)) or f is None:
        return None
    try:
        h = _is_private_helper_call(f, v)
    except Exception:
        h = None
    if h is None or not h.params or not h.has_self:
        return None
    conv = []
    for r in [r.value for r in walk_no_nested(h.node) if isinstance(r, ast.Return)]:
        if r is None or (isinstance(r, ast.Constant) and r.value is None):
            continue
        if isinstance(r, ast.Attribute) and isinstance(r.value, ast.Name) and r.value.id == h.params[0] and (r.attr in CHILD_FIELDS or r.attr in CHILD_GETTERS):
            conv.append(ast.Attribute(value=v.func.value, attr=r.attr, ctx=ast.Load()))
        else:
            return None
    return conv or None


def _list_values(f, name):
    """alias_values with one refinement: a value that is the call of a private helper which returns child lists of its own object (or
    None) - `children = self._child_list_for(obj)` - counts as those child lists of the receiver"""
    from ..symtext import _is_private_helper_call
    out = []
    for v in alias_values(f.node, name):
        h = None
        if isinstance(v, ast.Call):
            try:
                h = _is_private_helper_call(f, v)
            except Exception:
                h = None
        if h is None or not h.params or not h.has_self or not isinstance(v.func, ast.Attribute):
            out.append(v)
            continue
        rets = [r.value for r in walk_no_nested(h.node) if isinstance(r, ast.Return)]
        conv = []
        for r in rets:
            if r is None or (isinstance(r, ast.Constant) and r.value is None):
                continue
            if isinstance(r, ast.Attribute) and isinstance(r.value, ast.Name) and r.value.id == h.params[0] and (r.attr in CHILD_FIELDS or r.attr in CHILD_GETTERS):
                conv.append(ast.Attribute(value=v.func.value, attr=r.attr, ctx=ast.Load()))
            else:
                conv = None
                break
        if conv:
            out.extend(conv)
        else:
            out.append(v)
    return out


def owner_of_list(e, f):
    """text of the object owning the child list expression e ('OWNER(<list>)' when unknown).
    A local that is bound only to child lists of one owner (children = self._sections / self._props) is such a list."""
    if isinstance(e, ast.Attribute) and (e.attr in CHILD_FIELDS or e.attr in CHILD_GETTERS):
        return norm_text(e.value), CHILD_GETTERS.get(e.attr, e.attr)
    hl = _helper_lists(f, e)
    if hl:
        owners = set(norm_text(v.value) for v in hl)
        lists = set(CHILD_GETTERS.get(v.attr, v.attr) for v in hl)
        if len(owners) == 1:
            return owners.pop(), (lists.pop() if len(lists) == 1 else "?")
    if isinstance(e, ast.Name) and f is not None and e.id not in f.params:
        vals = _list_values(f, e.id)
        if vals and all(isinstance(v, ast.Attribute) and (v.attr in CHILD_FIELDS or v.attr in CHILD_GETTERS) for v in vals):
            owners = set(norm_text(v.value) for v in vals)
            lists = set(CHILD_GETTERS.get(v.attr, v.attr) for v in vals)
            if len(owners) == 1:
                return owners.pop(), (lists.pop() if len(lists) == 1 else "?")
    return "OWNER(%s)" % unparse(e), "?"


def _alias_is_child_list(f, e):
    if isinstance(e, ast.Name) and f is not None and e.id not in f.params:
        vals = _list_values(f, e.id)
        return bool(vals) and all(isinstance(v, ast.Attribute) and (v.attr in CHILD_FIELDS or v.attr in CHILD_GETTERS) for v in vals)
    return False


def tree_events(an, f, node, conds=None):
    """ordered tree events of one CFG node (expressions are read with pure location aliases expanded)."""
    out = []
    in_smartlist = f.cls is not None and f.cls.name == "SmartList"
    ax = an.alias_expander(f)

    def X(e):
        if e is None:
            return None
        try:
            return ax.expand(e, node)
        except Exception:
            return e

    def NT(e):
        return norm_text(X(e)) if e is not None and not isinstance(e, str) else norm_text(e)

    def child_list(e):
        return is_child_list_expr(an, X(e), f, conds) or is_child_list_expr(an, e, f, conds) or _alias_is_child_list(f, e)
    for ev in node_events(node):
        k = ev["kind"]
        a = ev["ast"]
        if k == "store_attr" and a.attr == "_parent":
            out.append({"kind": "SETP", "obj": NT(a.value), "value": NT(ev["value"]) if ev.get("value") is not None else "?",
                        "ast": a, "value_ast": X(ev.get("value"))})
        elif k == "store_attr" and a.attr == "parent" and is_model_expr(an, a.value, f):
            out.append({"kind": "API_SETPARENT", "obj": NT(a.value), "value": NT(ev["value"]), "ast": a,
                        "value_ast": X(ev.get("value"))})
        elif k == "store_attr" and a.attr in CHILD_FIELDS:
            out.append({"kind": "REBIND", "owner": NT(a.value), "list": a.attr, "ast": a, "value_ast": ev.get("value")})
        elif k in ("store_sub", "del_sub") and child_list(a.value):
            owner, lst = owner_of_list(X(a.value), f)
            if k == "store_sub":
                out.append({"kind": "API_REPLACE", "owner": owner, "list": lst, "obj": NT(ev["value"]),
                            "key": unparse(a.slice), "ast": a, "listexpr": X(a.value)})
            else:
                out.append({"kind": "DEL_RAW", "owner": owner, "list": lst, "obj": "%s[%s]" % (unparse(X(a.value)), unparse(a.slice)),
                            "ast": a, "listexpr": X(a.value), "how": "del"})
        elif k == "aug_attr" and a.attr in CHILD_FIELDS + tuple(CHILD_GETTERS):
            out.append({"kind": "ADD_RAW", "owner": NT(a.value), "list": CHILD_GETTERS.get(a.attr, a.attr), "obj": "?",
                        "ast": a, "how": "+="})
        elif k == "call" and isinstance(a.func, ast.Attribute):
            m = a.func.attr
            recv = a.func.value
            is_super = isinstance(recv, ast.Call) and call_name(recv) == "super"
            if in_smartlist and is_super and m in RAW_ADD + RAW_DEL + ("__setitem__",):
                kind = "ADD_RAW" if m in RAW_ADD else "DEL_RAW" if m in RAW_DEL else "REPLACE_RAW"
                obj = NT(a.args[-1]) if a.args else "?"
                d = {"kind": kind, "owner": "OWNER(%s)" % f.params[0], "list": "?", "obj": obj, "ast": a, "how": "super." + m,
                     "obj_ast": X(a.args[-1]) if a.args else None}
                if kind == "REPLACE_RAW":
                    d["key"] = unparse(a.args[0])
                out.append(d)
            elif not is_super and child_list(recv) and m in RAW_ADD + RAW_DEL + ("sort", "reverse"):
                owner, lst = owner_of_list(X(recv), f)
                if m in ("sort", "reverse"):
                    continue
                tgts = an.s.targets(a, f)
                defined = any(hasattr(t, "qualname") for t in tgts)     # SmartList overrides it
                if not tgts or all(not hasattr(t, "qualname") for t in tgts):
                    # an alias of a child list: the method is SmartList's when SmartList defines it
                    sl = an.p.classes.get("odml.base.SmartList")
                    defined = sl is not None and m in sl.methods
                kind = "ADD" if m in RAW_ADD else "DEL"
                obj = NT(a.args[-1]) if a.args else "?"
                out.append({"kind": kind + ("_SL" if defined else "_RAW"), "owner": owner, "list": lst, "obj": obj, "ast": a,
                            "listexpr": X(recv), "how": m, "obj_ast": X(a.args[-1]) if a.args else None})
            elif not is_super and m in ("append", "insert", "remove", "extend") and is_container_expr(an, X(recv), f, conds) \
                    and not child_list(recv):
                obj = NT(a.args[-1]) if a.args else "?"
                kind = {"append": "API_ADD", "insert": "API_ADD", "extend": "API_EXTEND", "remove": "API_DEL"}[m]
                out.append({"kind": kind, "owner": NT(recv), "obj": obj, "ast": a, "how": m,
                            "obj_ast": X(a.args[-1]) if a.args else None})
    return out


def is_model_expr(an, e, f):
    ks = an.k.ek(e, f, an.k.envs.get(f.qualname, {}))
    return any(k in ("BaseSection", "BaseProperty") for k in ks)


# --------------------------------------------------------------------------- path facts
def path_facts(path, expand=None):
    """{normalised atom text: bool} established by the branch edges of a CFG path.  expand(test, node): rewrite the test first
    (pure location aliases: `cur = self._parent; if cur is not None` is a fact about self._parent)."""
    facts = {}

    def add(test, val):
        if isinstance(test, ast.BoolOp):
            if isinstance(test.op, ast.And) and val:
                for v in test.values:
                    add(v, True)
            elif isinstance(test.op, ast.Or) and not val:
                for v in test.values:
                    add(v, False)
            return
        if isinstance(test, ast.UnaryOp) and isinstance(test.op, ast.Not):
            add(test.operand, not val)
            return
        if isinstance(test, ast.Compare) and len(test.ops) == 1 and isinstance(test.ops[0], ast.IsNot):
            facts[norm_text(ast.Compare(left=test.left, ops=[ast.Is()], comparators=test.comparators))] = not val
            return
        facts[norm_text(test)] = val
    for node, edge in path:
        if node.kind == "branch" and edge in ("true", "false"):
            add(node.ast.test, edge == "true")
            if expand is not None:
                try:
                    add(expand(node.ast.test, node), edge == "true")
                except Exception:
                    pass
    return facts


class TreeState(object):
    """symbolic parent pointers and list memberships along one path."""

    def __init__(self, facts):
        self.facts = facts
        self.ptr = {}        # obj -> text of current _parent ('INIT' = unchanged)
        self.listed = {}     # obj -> set of owner texts; contains 'INIT' while the entry membership is untouched
        self.touched = []
        self.log = []

    def _touch(self, obj):
        if obj not in self.ptr:
            self.ptr[obj] = "INIT"
            self.listed[obj] = set(["INIT"])
            self.touched.append(obj)

    def resolve(self, text):
        """rewrite `<obj>._parent` prefixes with the current pointer of obj when it was stored on this path."""
        for obj, p in self.ptr.items():
            if p not in ("INIT",) and (text == obj + "._parent" or text.startswith(obj + "._parent.")):
                return p + text[len(obj + "._parent"):]
        return text

    def init_parent(self, obj):
        return "%s._parent@entry" % obj

    def owner_matches_entry_parent(self, owner, obj):
        return owner in (obj + "._parent", self.init_parent(obj))

    def add(self, owner, obj, why):
        self._touch(obj)
        owner = self.resolve(owner)
        self.listed[obj].add(owner)
        self.log.append("ADD %s <- %s (%s)" % (owner, obj, why))

    def delete(self, owner, obj, why):
        self._touch(obj)
        r = self.resolve(owner)
        if r in self.listed[obj]:
            self.listed[obj].discard(r)
        elif self.owner_matches_entry_parent(owner, obj) or self.owner_matches_entry_parent(r, obj):
            self.listed[obj].discard("INIT")
        else:
            # removal from a list the object was not known to be in: treat as removal of the entry membership
            self.listed[obj].discard("INIT")
        self.log.append("DEL %s -/- %s (%s)" % (r, obj, why))

    def setp(self, obj, value, why):
        self._touch(obj)
        self.ptr[obj] = self.resolve(value)
        self.log.append("SETP %s._parent = %s (%s)" % (obj, self.ptr[obj], why))

    def entry_parent_is_none(self, obj):
        f = self.facts.get("%s._parent is None" % obj)
        if f is True:
            return True
        if self.facts.get("%s._parent" % obj) is False:
            return True
        return False

    def entry_parent_not_none(self, obj):
        return self.facts.get("%s._parent is None" % obj) is False or self.facts.get("%s._parent" % obj) is True

    def verdict(self, obj, fresh=False):
        """('ok'|'dangling'|'double'|'maydouble'|'unlisted', detail)"""
        listed = set(self.listed[obj])
        ptr = self.ptr[obj]
        if fresh or self.entry_parent_is_none(obj):
            listed.discard("INIT")
        if ptr == "INIT" and listed == set(["INIT"]):
            return ("ok", "untouched")
        real = listed - set(["INIT"])
        if "INIT" in listed and real:
            if ptr != "INIT" and ptr in real and len(real) == 1:
                if self.entry_parent_not_none(obj):
                    return ("double", "%s stays in its previous parent's list and is added to %s" % (obj, sorted(real)))
                return ("maydouble", "%s is added to %s without being detached from a possible previous parent" % (obj, sorted(real)))
            return ("dangling", "%s listed in %s, parent pointer %s" % (obj, sorted(listed), ptr))
        if "INIT" in listed and not real:
            # membership untouched, pointer changed
            if ptr == "INIT":
                return ("ok", "untouched")
            return ("dangling", "%s._parent becomes %s but it stays in its previous parent's list" % (obj, ptr))
        if not listed:
            if ptr in ("None",):
                return ("ok", "detached")
            if ptr == "INIT":
                if fresh or self.entry_parent_is_none(obj):
                    return ("ok", "never attached")
                return ("dangling", "%s was removed from its parent's list but still points to it" % obj)
            return ("dangling", "%s is in no list but its parent pointer is %s" % (obj, ptr))
        if len(real) == 1:
            (o,) = tuple(real)
            if ptr == o:
                return ("ok", "attached to %s" % o)
            if ptr == "INIT":
                return ("dangling", "%s was added to %s's list but its parent pointer was not set" % (obj, o))
            return ("dangling", "%s is listed in %s but points to %s" % (obj, o, ptr))
        return ("double", "%s ends up in several lists: %s" % (obj, sorted(real)))


def hasattr_always_true(an, f, test):
    """`hasattr(E, 'x')` where every kind of E is a repository class that provides x (field, property or method)."""
    if not (isinstance(test, ast.Call) and call_name(test) == "hasattr" and len(test.args) == 2
            and isinstance(test.args[1], ast.Constant)):
        return False
    from ..facts import readable_attrs
    ks = an.k.ek(test.args[0], f, an.k.envs.get(f.qualname, {}))
    if not ks:
        return False
    for k in ks:
        cls = an.k.class_by_kind(k)
        if cls is None or test.args[1].value not in readable_attrs(cls):
            return False
    return True


def infeasible(an, f, path):
    """a path that takes the false edge of a tautological hasattr test (or the true edge of its negation)."""
    for node, edge in path:
        if node.kind == "branch" and edge in ("true", "false"):
            t = node.ast.test
            neg = False
            if isinstance(t, ast.UnaryOp) and isinstance(t.op, ast.Not):
                t, neg = t.operand, True
            if hasattr_always_true(an, f, t) and ((edge == "false") != neg):
                return True
    return False
