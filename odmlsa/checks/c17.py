"""C17 - batch conversion tools never touch their inputs and isolate bad files.

Decided: per-file isolation of the two command line tools (everything that can fail inside the per-file
loop sits in a catch-all handler that reports and goes on; nothing leaves the loop early); every file
system write reachable from the tools goes to a path whose directory is the freshly created output
directory (or FormatConverter's explicit / derived output directory), inputs contribute only their base
name without extension; no deleting/renaming call is reachable; each file list is converted with the
source format of its glob pattern; all three lists are always processed.
NOT decided: byte identity of the inputs beyond "no write sink on an input path", content of the
outputs, an explicitly given output directory that equals the input directory.
"""
import ast
import re

from .. import analysis
from ..astutil import calls_in, call_name, where, kw, local_assignments, atoms_at
from ..symtext import Expander, effect_calls, canon_text, canon_expr
from ..cfg import build_cfg, enclosing_handlers
from ..model import AnalysisError, FuncInfo, unparse, walk_no_nested, canonical_name
from ..astutil import template_parts, bound_args

_PROG = [None]


def _cn(c, f):
    """canonical (import style independent) name of the callee"""
    try:
        return canonical_name(_PROG[0], f, c.func) or call_name(c)
    except Exception:
        return call_name(c)

DECIDED = [
    "ESC-3 in run_conversion (odmlconvert, odmltordf) every call of the per-file loop that can fail is inside try/except Exception whose handler reports; no raise/break/return in the loop",
    "PROV-9 output paths are os.path.join(<output directory parameter>, <name derived from splitext(basename(input))>); the output directories come from tempfile.mkdtemp under the chosen root",
    "SINK-1 no remove/rename/rmtree and no write-mode open on an input derived path is reachable from the tools",
    "FMT-1 the three file lists (xml/odml, json, yaml globs) are converted with XML, JSON and YAML respectively, unconditionally",
    "MAP-2 (shared with C15) the version converter the tools call counts every occurrence of a repeated sibling name (each gets its own suffix, so the output keeps every entity)",
    "FC-1 FormatConverter: output path = join(output dir, file name); the implicit output dir is <input dir name>_<format> next to the input dir; inputs are only loaded",
    "PARSE-3 the version converter's XML parser is built without encoding / recover (every convertible file gets its output)",
    'FC-1 also: no path is used as a regular expression and no re.escape() result as a replacement when the sub directory is mapped',
]
NOT_DECIDED = ["byte identity of inputs (follows from the absence of write sinks under the library model)", "content of the outputs",
               "an explicit output directory equal to the input directory"]

NO_RAISE_CALLS = ("str", "<report parameter>.write", "os.path.splitext", "os.path.basename", "os.path.join", "<loop variable>.absolute",
                  "<constant>.format")
SCRIPTS = ("scripts.odml_convert", "scripts.odml_to_rdf")
DESTRUCTIVE = ("os.remove", "os.unlink", "os.rename", "os.replace", "os.rmdir", "shutil.rmtree", "shutil.move", "shutil.copy",
               "shutil.copyfile", "os.truncate")


def run(prog, rep):
    rep.decided = DECIDED
    rep.not_decided = NOT_DECIDED
    _PROG[0] = prog
    an = analysis.get(prog)
    an.note_coverage(rep)
    S = an.s

    # ----------------------------------------------------------------- ESC-3
    rep.rule("ESC-3", "run_conversion: inside `for curr_file in file_list` every call other than %s lies in a try whose handlers catch "
                      "Exception (calls inside a handler body must themselves be guarded or harmless); handlers write to report; the loop "
                      "body contains no raise, break or return" % (NO_RAISE_CALLS,))
    for m in SCRIPTS:
        f = prog.func(m + ".run_conversion")
        rep.saw_function(f)
        g = build_cfg(f)
        loops = [n for n in g.nodes if n.kind == "for" and unparse(n.ast.iter) == f.params[0]]
        rep.check(len(loops) == 1, "ESC-3", "%s: one loop over the file list" % f.short, "ok", "expected one loop over %s" % f.params[0], f.where)
        if len(loops) != 1:
            continue
        lp = loops[0]
        ex = Expander(f, g, only_locations=True)
        esc = [x for x in ast.walk(lp.ast) if isinstance(x, (ast.Raise, ast.Break, ast.Return))]
        rep.check(not esc, "ESC-3", "%s: the per-file loop has no early exit" % f.short, "ok",
                  "the per-file loop contains %s: one bad file stops the run" % [type(x).__name__ for x in esc], where(f, esc[0]) if esc else f.where,
                  witness="a broken file early in the list: later convertible files get no output")
        n_guarded = 0
        for node in g.nodes:
            if node.id == lp.id or not g.dominates(lp, node) or not g.reaches(node, lp, skip_kinds=("exc",)):
                continue
            for root in node.expr_roots():
                for c in calls_in(root):
                    fn = call_name(c)
                    if _harmless(ex.expand(c, node), f, lp) or _unfailing_helper(prog, f, c):
                        continue
                    hs = enclosing_handlers(g, node)
                    ok = any(any(cn in ("Exception", "BaseException", "*") for cn in hn.info["classes"])
                             for h in hs for k2, hn in h.succ if k2 == "except")
                    n_guarded += 1
                    rep.check(ok, "ESC-3", "%s: %s guarded" % (f.short, fn), "inside try/except Exception",
                              "%s(...) in the per-file loop of %s is not inside a catch-all handler: a file that makes it fail stops the whole run"
                              % (fn, f.short), where(f, c), witness="an empty / non-XML / unconvertible file in the directory")
        rep.floor("ESC-3", n_guarded, 1, "failing calls in the loop of %s" % f.short)
        for h in [x for x in ast.walk(lp.ast) if isinstance(x, ast.ExceptHandler)]:
            inner_try = [x for x in h.body if isinstance(x, ast.Try)]
            reports = any(_is_report_write(ex.expand(c), f) for c in calls_in(h)) or \
                any(_unfailing_helper(prog, f, c) for c in calls_in(h))
            # ... or only does path arithmetic and falls through to the guarded conversion that follows it in the loop body
            falls = all(_harmless(ex.expand(c), f, lp) for c in calls_in(h)) and \
                not any(isinstance(x, (ast.Continue, ast.Pass)) for x in h.body) and \
                any(isinstance(x, ast.Try) and x.lineno > h.lineno for x in ast.walk(lp.ast))
            rep.check(reports or inner_try or falls, "ESC-3", "%s: handler at line %d reports" % (f.short, h.lineno), "report.write / nested conversion",
                      "an except clause neither reports nor continues with a guarded conversion", where(f, h))

    # ----------------------------------------------------------------- FMT-1
    rep.rule("FMT-1", "main(): xfiles come from '*.odml' and '*.xml' globs, jfiles from '*.json', yfiles from '*.yaml'; run_conversion "
                      "is called three times, unconditionally, with (xfiles, default XML), (jfiles, 'JSON'), (yfiles, 'YAML')")
    for m in SCRIPTS:
        f = prog.func(m + ".main")
        rep.saw_function(f)
        g = build_cfg(f)
        want = {"XML": set(["*.odml", "*.xml"]), "JSON": set(["*.json"]), "YAML": set(["*.yaml"])}
        calls = []
        for node in g.nodes:
            for root in node.expr_roots():
                for c in calls_in(root):
                    if call_name(c) == "run_conversion":
                        calls.append((node, c))
        if len(calls) != 3 and _format_table_form(prog, rep, f, g, calls, want):
            continue
        rep.check(len(calls) == 3, "FMT-1", "%s: three run_conversion calls" % f.short, "ok", "main calls run_conversion %d times" % len(calls), f.where)
        rc = prog.func(m + ".run_conversion")
        fmt_idx = rc.params.index("source_format")
        for node, c in calls:
            lst = unparse(c.args[0])
            fmt = kw(c, "source_format", fmt_idx)
            fmt_v = fmt.value if isinstance(fmt, ast.Constant) else ("XML" if fmt is None else unparse(fmt))
            pats = _list_globs(f, lst)
            rep.check(pats == want.get(fmt_v, set(["?"])), "FMT-1", "%s: %s converted as %s" % (f.short, lst, fmt_v), str(sorted(pats)),
                      "the files %s (globs %s) are converted with source format %s" % (lst, sorted(pats), fmt_v), where(f, c),
                      witness="a valid file of that kind which the other parser cannot read gets no output")
            conds = [(unparse(t), pol) for t, pol, _ in g.dominating_conditions(node) if "isdir" not in unparse(t)]
            rep.check(not conds, "FMT-1", "%s: conversion of %s is unconditional" % (f.short, lst), "ok",
                      "run_conversion(%s) only runs under %s" % (lst, conds), where(f, c))

    # ---------------------------------------------------------------- PROV-9
    rep.rule("PROV-9", "run_conversion / run_rdf_export: every output path is os.path.join(<output dir parameter>, <format string> % "
                       "os.path.splitext(os.path.basename(<input path>))[0]); main(): the directory parameters are results of "
                       "tempfile.mkdtemp(prefix=..., dir=<root>) where root is the working directory or the existing -o directory "
                       "(rdf_dir is created inside out_dir)")
    for m in SCRIPTS:
        mod = prog.module_of(m)
        dirpos = {}        # function name -> indexes of its output directory parameters
        n_sinks = 0
        checked = set()
        for _round in range(4):
            changed = False
            for fname, f in sorted(mod.functions.items()):
                if fname == "main":
                    continue
                x = Expander(f, inline=prog)
                sinks = []
                for c in calls_in(f.node):
                    if isinstance(c.func, ast.Attribute) and c.func.attr in ("write_to_file", "write_file"):
                        path_arg = c.args[0] if c.func.attr == "write_to_file" else (c.args[1] if len(c.args) > 1 else None)
                        sinks.append((c, path_arg))
                dirs = set()
                for c, path_arg in sinks:
                    shape = _out_path_shape(x.expand(path_arg), f) if path_arg is not None else None
                    txt = x.text(path_arg) if path_arg is not None else "?"
                    param_path = isinstance(path_arg, ast.Name) and path_arg.id in f.params and x.text(path_arg) == path_arg.id
                    if (fname, id(c)) not in checked:
                        checked.add((fname, id(c)))
                        n_sinks += 1
                        rep.saw_function(f)
                        if param_path:
                            # the path is handed in: judged at the callers (the parameter is an output *path* parameter)
                            dirpos.setdefault(fname + "#path", []).append(f.params.index(path_arg.id))
                            continue
                        rep.check(shape is not None and shape[0] is not None, "PROV-9", "%s: %s writes into an output directory" % (f.short, c.func.attr), txt[:70],
                                  "output path `%s` is not os.path.join(<output directory parameter>, ...)" % txt[:90], where(f, c),
                                  witness="outputs are written next to (or over) the input files")
                        rep.check(shape is not None and shape[1], "PROV-9", "%s: %s output named by the input's base name without extension" % (f.short, c.func.attr),
                                  "splitext(basename(path))[0]",
                                  "the output file name `%s` is not `<constant> %% os.path.splitext(os.path.basename(<input>))[0]`: inputs with different base "
                                  "names can map to one output (or path separators leak in)" % txt[:90], where(f, c),
                                  witness="rec.day1.xml and rec.day2.xml both become rec.rdf")
                    if shape is not None and shape[0] is not None:
                        dirs.add(shape[0])
                # directories handed on to a sibling function's directory parameter
                for c in calls_in(f.node):
                    if isinstance(c.func, ast.Name) and c.func.id in dirpos and c.func.id != fname:
                        for i in dirpos[c.func.id]:
                            if i < len(c.args):
                                a = c.args[i]
                                ok = isinstance(a, ast.Name) and a.id in f.params
                                if (fname, id(c), i) not in checked:
                                    checked.add((fname, id(c), i))
                                    rep.check(ok, "PROV-9", "%s: %s gets a directory parameter" % (f.short, c.func.id), unparse(a),
                                              "%s passes `%s` as output directory of %s" % (f.short, unparse(a), c.func.id), where(f, c))
                                if ok:
                                    dirs.add(a.id)
                new = sorted(f.params.index(d) for d in dirs if d in f.params)
                if new and new != dirpos.get(fname):
                    dirpos[fname] = sorted(set(dirpos.get(fname, [])) | set(new))
                    changed = True
            if not changed:
                break
        rep.floor("PROV-9", n_sinks, 1, "writer calls in %s" % m)
        f = prog.func(m + ".main")
        x = Expander(f, inline=prog)
        n_rc = 0
        for c in calls_in(f.node):
            if not (isinstance(c.func, ast.Name) and c.func.id == "run_conversion"):
                continue
            n_rc += 1
            rcp = prog.func(m + ".run_conversion").params
            ba = bound_args(c, rcp) or []
            for i in dirpos.get("run_conversion", []):
                a = ba[i] if i < len(ba) else None
                ok, why = _fresh_dir(x.expand(a), f) if a is not None else (False, "missing")
                rep.check(ok, "PROV-9", "%s: run_conversion directory #%d is a fresh directory under the output root" % (f.short, i), why,
                          "run_conversion is called with output directory `%s`, which is not tempfile.mkdtemp(dir=<cwd | -o directory | fresh dir>): %s"
                          % (x.text(a)[:80] if a is not None else "?", why), where(f, c),
                          witness="outputs land in an existing directory (possibly the input directory)")
        rep.floor("PROV-9", n_rc, 1, "run_conversion calls in %s" % f.short)
        rep.floor("PROV-9", len(dirpos.get("run_conversion", [])), 1, "output directory parameters of run_conversion in %s" % m)

    # ---------------------------------------------------------------- SINK-1
    # every convertible file gets its output: the version converter's parser (which all three tools reach) takes the encoding a file declares
    rep.rule("PARSE-3", "the lxml parser of VersionConverter._parse_xml is built without `encoding` and without `recover`: an explicit encoding "
                        "overrides the one a source declares (valid legacy files in ISO-8859-1 / UTF-16 are reported unconvertible and get no "
                        "output), recover turns a broken file into a partial output instead of a reported skip")
    from .c16 import xml_parser_options
    xml_parser_options(prog, rep, "PARSE-3", ("encoding", "recover"), module="odml.tools.converters.version_converter")

    rep.rule("SINK-1", "no call of %s anywhere in the package; every write-mode open reachable from the tools' main() is one of the "
                       "enumerated writers (VersionConverter.write_to_file, ODMLWriter/XMLWriter/RDFWriter.write_file, the terminology "
                       "cache)" % (DESTRUCTIVE,))
    for f in prog.all_functions():
        for c in calls_in(f.node):
            fn = call_name(c)
            if fn in DESTRUCTIVE:
                rep.fail("SINK-1", "%s|%s" % (f.short, fn), "%s calls %s" % (f.short, fn), where(f, c), witness="an input file is deleted/renamed")
    allowed = ("tools.converters.version_converter.VersionConverter.write_to_file", "tools.odmlparser.ODMLWriter.write_file",
               "tools.xmlparser.XMLWriter.write_file", "tools.rdf_converter.RDFWriter.write_file", "terminology.cache_load", "templates.cache_load")
    n_fs = 0
    for m in SCRIPTS:
        f = prog.func(m + ".main")
        for w in S.writes(f):
            if w.kind == "fs" and w.field == "open":
                n_fs += 1
                rep.check(w.func in allowed, "SINK-1", "%s reaches the writer %s" % (f.short, w.func), "enumerated writer",
                          "%s reaches a write-mode open in %s (`%s`)" % (f.short, w.func, w.text), "%s:%s" % (w.func, w.lineno),
                          witness="a file is written outside the output directory")
    rep.floor("SINK-1", n_fs, 4, "write-mode opens reachable from the tools")
    rep.ok("SINK-1", "no destructive file call in the package", "ok", "odml/")

    # ----------------------------------------------------------------- MAP-2
    from .c15 import count_map_rule
    count_map_rule(prog, rep, "MAP-2")

    # ------------------------------------------------------------------ FC-1
    rep.rule("FC-1", "FormatConverter.convert_dir: the output file path is os.path.join(<output dir or mirrored sub-dir>, file_name); "
                     "with output_dir None the directory is join(dirname(dirname(input_dir)), basename(dirname(input_dir)) + '_' + "
                     "res_format); _convert_file only loads input_path (VersionConverter(input_path), odml.load(input_path)) and writes "
                     "output_path")
    cd = prog.func("tools.converters.format_converter.FormatConverter.convert_dir")
    cf = prog.func("tools.converters.format_converter.FormatConverter._convert_file")
    rep.saw_function(cd)
    rep.saw_function(cf)
    x = Expander(cd, inline=prog)
    ind, outd = cd.params[1], cd.params[2]
    IN = "os.path.join(%s, '')" % ind
    want = "os.path.join(os.path.dirname(os.path.dirname(%s)), TEMPLATE(os.path.basename(os.path.dirname(%s)), '_', %s))" % (IN, IN, cd.params[4])

    def ctext(e, n=None):
        return canon_text(prog, cd, x.expand(e, n))
    g = build_cfg(cd)
    implicit = [n for n in g.nodes if n.kind == "stmt" and isinstance(n.ast, ast.Assign) and unparse(n.ast.targets[0]) == outd
                and ("%s is None" % outd, True) in [(t0, p0) for t0, p0, _ in atoms_at(g, n)]]
    def as_dir(t):
        # os.path.join(a, b, '') names the directory os.path.join(a, b)
        return t[:-len(", '')")] + ")" if t.startswith("os.path.join(") and t.endswith(", '')") and t.count(",") >= 2 else t
    rep.check(len(implicit) == 1 and as_dir(ctext(implicit[0].ast.value, implicit[0])) == want, "FC-1", "implicit output directory differs from the input directory", "ok",
              "the implicit output directory is no longer <parent>/<input dir name>_<format>: %s" % [ctext(n.ast.value, n) for n in implicit], cd.where,
              witness="outputs written into the input directory")
    effs = effect_calls(prog, cd, lambda c: call_name(c).split(".")[-1] == "_convert_file" and len(c.args) >= 2)
    ok = len(effs) == 2
    shown = []
    for e in effs:
        c = canon_expr(prog, cd, e.call)
        a0 = unparse(c.args[0])
        n0 = set(y.id for y in ast.walk(c.args[0]) if isinstance(y, ast.Name))
        e1 = c.args[1]
        first = e1.args[0] if isinstance(e1, ast.Call) and unparse(e1.func) == "os.path.join" and e1.args else None
        n1 = set(y for y in [getattr(z, "id", None) for z in ast.walk(first)] if y) if first is not None else set()
        shown.append((a0[:60], unparse(e1)[:60]))
        ok = ok and a0.startswith("os.path.join(") and ind in n0 and outd not in n0 and outd in n1
    rep.check(ok, "FC-1", "convert_dir passes (input path, output path) pairs", "ok",
              "_convert_file is not called with (path in input dir, path in output dir): %s" % shown, cd.where)
    # the mirrored sub-directory: when it is computed by re.sub, the replacement is the output directory as it is - re.escape() is for patterns,
    # in a replacement the backslashes it inserts before '-', '.', ' ' ... stay in the result and name another directory
    from ..dataflow import private_closure
    for h in private_closure(cd):
        hx = Expander(h, inline=prog)
        for c in calls_in(h.node):
            if _cn(c, h).startswith("re.") and _cn(c, h)[3:] in ("sub", "subn", "match", "search", "fullmatch", "findall", "split", "compile") and c.args:
                # a path is no regular expression: a directory name with '+', '(', '[' ... does not match itself (or raises re.error); the
                # mapped output directory is then the input directory and the converted file replaces its source
                pat = hx.expand(c.args[0])
                raw = [y.id for y in ast.walk(pat) if isinstance(y, ast.Name) and y.id in h.params]
                escd = [y2.id for y in ast.walk(pat) if isinstance(y, ast.Call) and _cn(y, h) == "re.escape" for y2 in ast.walk(y) if isinstance(y2, ast.Name)]
                unesc = sorted(set(raw) - set(escd))
                rep.check(not unesc, "FC-1", "%s: no path is used as a regular expression" % h.short, "ok",
                          "%s uses %s as (part of) the pattern of %s: a directory name with a character that is special in regular expressions "
                          "does not match itself, the mirrored output directory is then the input directory itself" % (h.short, unesc, _cn(c, h)),
                          where(h, c), witness="convert_dir('/data/set+1', out, True, 'v1_1'): every file below /data/set+1 is overwritten by its conversion")
            if _cn(c, h) in ("re.sub", "re.subn") and len(c.args) >= 2:
                esc = [y for y in ast.walk(hx.expand(c.args[1])) if isinstance(y, ast.Call) and _cn(y, h) == "re.escape"]
                rep.check(not esc, "FC-1", "%s: the replacement text of re.sub is not escaped" % h.short, "ok",
                          "%s passes re.escape(...) as replacement of re.sub: an output directory with '-', '.', ' ' in its path is mapped to a "
                          "different directory (with back slashes in its name)" % h.short, where(h, c),
                          witness="convert_dir(in, 'out.v2', True, 'v1_1') writes into 'out\\.v2'; the implicit '<in>_json-ld' likewise")
    coff = 1 if cf.has_self else 0            # classmethod / method / module function
    inp, outp = cf.params[coff], cf.params[coff + 1]
    fx = Expander(cf)
    for c in calls_in(cf.node):
        fn = _cn(c, cf)
        if fn.endswith(("write_to_file", "write_file")) or fn in ("odml.save", "fileio.save"):
            arg = c.args[-1] if fn in ("odml.save", "fileio.save") else c.args[0]
            names = set(y.id for y in ast.walk(fx.expand(arg)) if isinstance(y, ast.Name))
            rep.check(outp in names and inp not in names, "FC-1", "_convert_file: %s writes output_path" % fn[-25:], "ok",
                      "%s writes to %s" % (fn, fx.text(arg)), where(cf, c), witness="the input file is overwritten")
        if fn in ("odml.load", "fileio.load", "VersionConverter", "tools.converters.version_converter.VersionConverter"):
            rep.check(fx.text(c.args[0]) == inp, "FC-1", "_convert_file: %s reads input_path" % fn, "ok", "%s is applied to %s" % (fn, fx.text(c.args[0])), where(cf, c))
    from ..report import import_verdicts
    import_verdicts(prog, rep, "C10", ("PROV-7",), "CONTENT-1",
                    "`each output parses as RDF with the content of its source`: what odmltordf and the RDF targets of the format converter write is "
                    "the graph RDFWriter builds")
    import_verdicts(prog, rep, "C15", ("DICT-1", "LOG-1", "TAB-11", "SAME-1", "DICT-2"), "CONTENT-2",
                    "`each output loads as a current-version document with the content of its source`: odmlconvert / odmltordf convert outdated "
                    "files with VersionConverter")
    from ..report import import_verdicts
    import_verdicts(prog, rep, "C02", ("SIB-3",), "PROBE-2",
                    "the probe odml.load(file, 'YAML' / 'JSON') of the tools reads with the plain yaml.safe_load / json.load, as the version converter "
                    "does right after it: the converter relies on what the probe registered on yaml.SafeLoader (the python/unicode constructor)")
    import_verdicts(prog, rep, "C16", ("ERR-1", "ROOT-2"), "PROBE-1",
                    "odmlconvert and odmltordf decide with odml.load whether a file is already current: the readers refuse another format "
                    "version by raising in strict and in lenient mode alike; a version error that the lenient reader only records makes the "
                    "tools skip an outdated file without output")
    rep.assume("tempfile.mkdtemp creates a new, empty directory; os.path.join/splitext/basename are pure")


def _format_table_form(prog, rep, f, g, calls, want):
    """FMT-1 for a table driven main(): the module holds one literal table whose rows pair a source format with its glob patterns;
    run_conversion is called in a loop whose source_format argument and file list are the two loop variables of one `for`.
    Decides the pairing of patterns and formats from the rows; that the file list of a row is globbed with the patterns of that
    row is read from a comprehension / loop over the same table in the function the list comes from."""
    mod = f.module
    rows = {}
    for y in ast.walk(mod.tree):
        if isinstance(y, (ast.Tuple, ast.List)):
            fmts = [e0.value for e0 in y.elts if isinstance(e0, ast.Constant) and e0.value in want]
            pats = [z.value for e0 in y.elts for z in ast.walk(e0) if isinstance(z, ast.Constant) and isinstance(z.value, str) and z.value.startswith("*.")]
            if len(fmts) == 1 and pats and not any(isinstance(e0, (ast.Tuple, ast.List)) and any(
                    isinstance(z, ast.Constant) and z.value in want for z in ast.walk(e0)) for e0 in y.elts):
                rows.setdefault(fmts[0], set()).update(pats)
    if set(rows) != set(want):
        return False
    rc = prog.func(mod.name[len("odml."):] + ".run_conversion")
    fmt_idx = rc.params.index("source_format")
    ok_calls = []
    for node, c in calls:
        fmt = kw(c, "source_format", fmt_idx)
        lst = c.args[0] if c.args else None
        loops = [n for n in g.nodes if n.kind == "for" and g.dominates(n, node) and isinstance(n.ast.target, (ast.Tuple, ast.List))]
        same_loop = any(isinstance(fmt, ast.Name) and isinstance(lst, ast.Name) and
                        set([fmt.id, lst.id]) <= set(e0.id for e0 in lp.ast.target.elts if isinstance(e0, ast.Name)) for lp in loops)
        if same_loop:
            ok_calls.append((node, c))
    if len(ok_calls) != len(calls) or not calls:
        return False
    for fmt_v in sorted(want):
        rep.check(rows[fmt_v] == want[fmt_v], "FMT-1", "%s: table row %s" % (f.short, fmt_v), str(sorted(rows[fmt_v])),
                  "the table pairs the globs %s with source format %s" % (sorted(rows[fmt_v]), fmt_v), f.where,
                  witness="a valid file of that kind which the other parser cannot read gets no output")
    stray = set(z.value for z in ast.walk(mod.tree) if isinstance(z, ast.Constant) and isinstance(z.value, str) and z.value.startswith("*.")) \
        - set(p0 for v in rows.values() for p0 in v)
    rep.check(not stray, "FMT-1", "%s: every glob pattern belongs to a table row" % f.short, "ok", "glob patterns outside the table: %s" % sorted(stray), f.where)
    for node, c in calls:
        conds = [(unparse(t), pol) for t, pol, _ in g.dominating_conditions(node) if pol in ("true", "false") and "isdir" not in unparse(t)]
        rep.check(not conds, "FMT-1", "%s: the table driven conversion is unconditional" % f.short, "ok",
                  "run_conversion only runs under %s" % conds, where(f, c))
    return True


def _harmless(c, f, lp):
    """calls of the per-file loop that cannot fail on a bad file: path arithmetic, str(), writing to the report parameter."""
    fn = _cn(c, f)
    if fn in ("str", "os.path.splitext", "os.path.basename", "os.path.join"):
        return True
    if isinstance(c.func, ast.Attribute):
        recv = c.func.value
        if c.func.attr == "write" and isinstance(recv, ast.Name) and recv.id in f.params:
            return True
        if c.func.attr == "absolute" and isinstance(recv, ast.Name) and lp is not None and isinstance(lp.ast.target, ast.Name) and recv.id == lp.ast.target.id:
            return True
        if c.func.attr == "format" and isinstance(recv, ast.Constant) and isinstance(recv.value, str):
            return True
    return False


_GLOB_HELPERS = {}


def _glob_helpers(fnode, module=None):
    """names of local closures of fnode (and private functions of the module) that glob with their first parameter:
    def find(pattern): ... <path>.rglob(pattern) / <path>.glob(pattern) ..."""
    key = id(fnode)
    if key in _GLOB_HELPERS and _GLOB_HELPERS[key][0] is fnode:
        return _GLOB_HELPERS[key][1]
    out = set()
    cands = [n for n in ast.walk(fnode) if isinstance(n, ast.FunctionDef) and n is not fnode]
    if module is not None:
        cands += [h.node for h in module.functions.values()]
    for h in cands:
        if not h.args.args:
            continue
        p0 = h.args.args[0].arg
        if any(isinstance(c, ast.Call) and isinstance(c.func, ast.Attribute) and c.func.attr in ("glob", "rglob") and c.args
               and isinstance(c.args[0], ast.Name) and c.args[0].id == p0 for c in ast.walk(h)):
            out.add(h.name)
    _GLOB_HELPERS[key] = (fnode, out)
    return out


def _is_glob_call(c, x, helpers=()):
    """<path>.glob('pat') / .rglob('pat'), also through a local alias of the bound method (search = P.rglob if r else P.glob)
    or through a helper that globs with its parameter (find('pat'))"""
    if not (isinstance(c, ast.Call) and c.args and isinstance(c.args[0], ast.Constant) and isinstance(c.args[0].value, str)):
        return False
    if isinstance(c.func, ast.Attribute) and c.func.attr in ("glob", "rglob"):
        return True
    if isinstance(c.func, ast.Name) and c.func.id in helpers:
        return True
    if isinstance(c.func, ast.Name) and x is not None:
        from ..astutil import value_cases
        cases = [e0 for e0, _ in value_cases(x.expand(c.func))]
        return bool(cases) and all(isinstance(e0, ast.Attribute) and e0.attr in ("glob", "rglob") for e0 in cases)
    return False


def _direct_globs(fnode, name, x=None, module=None):
    out = set()
    helpers = _glob_helpers(fnode, module)
    for n in walk_no_nested(fnode):
        if isinstance(n, ast.Assign) and isinstance(n.targets[0], ast.Name) and n.targets[0].id == name:
            for c in calls_in(n.value):
                if _is_glob_call(c, x, helpers):
                    out.add(c.args[0].value)
        if isinstance(n, ast.Expr) and isinstance(n.value, ast.Call) and isinstance(n.value.func, ast.Attribute) and n.value.func.attr == "extend" \
                and unparse(n.value.func.value) == name:
            for c in calls_in(n.value):
                if _is_glob_call(c, x, helpers):
                    out.add(c.args[0].value)
    return out


def _keyed_globs(f, dname, key, depth=0):
    """glob patterns whose matches end up under `key` of the local dictionary `dname` of f: the display it is created with, item stores,
    <d>[key].extend(...) / +=, and - when the dictionary is the result of a module level helper - the same in that helper"""
    out = set()
    x = Expander(f, only_locations=False)
    helpers = _glob_helpers(f.node, f.module)
    slot = "%s[%r]" % (dname, key)
    for n in walk_no_nested(f.node):
        if isinstance(n, ast.Assign) and len(n.targets) == 1:
            t, v = n.targets[0], n.value
            if isinstance(t, ast.Name) and t.id == dname:
                if isinstance(v, ast.Dict):
                    for k0, v0 in zip(v.keys, v.values):
                        if isinstance(k0, ast.Constant) and k0.value == key:
                            out |= set(c.args[0].value for c in calls_in(v0) if _is_glob_call(c, x, helpers))
                elif isinstance(v, ast.Call) and isinstance(v.func, ast.Name) and v.func.id in f.module.functions and depth < 2:
                    h = f.module.functions[v.func.id]
                    for r in walk_no_nested(h.node):
                        if isinstance(r, ast.Return) and isinstance(r.value, ast.Name):
                            out |= _keyed_globs(h, r.value.id, key, depth + 1)
                        elif isinstance(r, ast.Return) and isinstance(r.value, ast.Dict):
                            for k0, v0 in zip(r.value.keys, r.value.values):
                                if isinstance(k0, ast.Constant) and k0.value == key:
                                    hx = Expander(h, only_locations=False)
                                    out |= set(c.args[0].value for c in calls_in(v0) if _is_glob_call(c, hx, _glob_helpers(h.node, h.module)))
            elif unparse(t) == slot:
                out |= set(c.args[0].value for c in calls_in(v) if _is_glob_call(c, x, helpers))
        if isinstance(n, ast.AugAssign) and unparse(n.target) == slot:
            out |= set(c.args[0].value for c in calls_in(n.value) if _is_glob_call(c, x, helpers))
        if isinstance(n, ast.Expr) and isinstance(n.value, ast.Call) and isinstance(n.value.func, ast.Attribute) and n.value.func.attr in ("extend", "append") \
                and unparse(n.value.func.value) == slot:
            out |= set(c.args[0].value for c in calls_in(n.value) if _is_glob_call(c, x, helpers))
    return out


def _list_globs(f, name, depth=0):
    """glob patterns whose matches end up in list `name` of function f (through tuple results of module level helpers)."""
    m = re.match(r"^(\w+)\[(['\"])(\w+)\2\]$", name)
    if m:
        return _keyed_globs(f, m.group(1), m.group(3))
    out = _direct_globs(f.node, name, Expander(f, only_locations=False), f.module)
    if depth > 2:
        return out
    for n in walk_no_nested(f.node):
        if isinstance(n, ast.Assign) and isinstance(n.targets[0], (ast.Tuple, ast.List)) and isinstance(n.value, ast.Call) \
                and isinstance(n.value.func, ast.Name) and n.value.func.id in f.module.functions:
            h = f.module.functions[n.value.func.id]
            for i, t in enumerate(n.targets[0].elts):
                if isinstance(t, ast.Name) and t.id == name:
                    for r in walk_no_nested(h.node):
                        if isinstance(r, ast.Return) and isinstance(r.value, ast.Tuple) and i < len(r.value.elts) and isinstance(r.value.elts[i], ast.Name):
                            out |= _list_globs(h, r.value.elts[i].id, depth + 1)
    return out


def _out_path_shape(e, f):
    """(directory parameter | None, name_ok) for an expanded output path expression."""
    if not (isinstance(e, ast.Call) and _cn(e, f) == "os.path.join" and len(e.args) == 2):
        return None
    d, nm = e.args
    parts = template_parts(None, nm)
    holes = [v for k, v in (parts or []) if k == "hole"]
    lits = "".join(v for k, v in (parts or []) if k == "lit")
    if parts is None or len(holes) != 1 or not lits:
        return (d.id if isinstance(d, ast.Name) and d.id in f.params else None, False)
    stem = holes[0]
    stem_ok = isinstance(stem, ast.Subscript) and isinstance(stem.slice, ast.Constant) and stem.slice.value == 0 \
        and isinstance(stem.value, ast.Call) and _cn(stem.value, f) == "os.path.splitext" and len(stem.value.args) == 1 \
        and isinstance(stem.value.args[0], ast.Call) and _cn(stem.value.args[0], f) == "os.path.basename"
    name_ok = bool(stem_ok and "/" not in lits and "\\" not in lits and ".." not in lits)
    used = set(y.id for y in ast.walk(stem) if isinstance(y, ast.Name))
    dirp = d.id if isinstance(d, ast.Name) and d.id in f.params and d.id not in used else None
    return (dirp, name_ok)


def _fresh_dir(e, f, depth=0):
    """is the expanded expression tempfile.mkdtemp(dir=<root>) with root = cwd / the -o option / another fresh directory?"""
    if not (isinstance(e, ast.Call) and _cn(e, f) == "tempfile.mkdtemp"):
        return False, "not a tempfile.mkdtemp(...) result: %s" % unparse(e)[:50]
    d = kw(e, "dir", None)
    if d is None:
        return False, "mkdtemp without dir= creates the directory in the system temp dir, not under the chosen root"
    if isinstance(d, ast.Call) and depth < 2 and isinstance(d.func, ast.Name) and d.func.id.startswith("_") and d.func.id in f.module.functions:
        # the root is chosen by a private helper: every value it returns is the working directory or the option handed in
        h = f.module.functions[d.func.id]
        hx = Expander(h)
        rets = [n for n in walk_no_nested(h.node) if isinstance(n, ast.Return) and n.value is not None]
        good = bool(rets)
        shown = []
        for r in rets:
            v = hx.expand(r.value)
            shown.append(unparse(v))
            if isinstance(v, ast.Call) and _cn(v, h) == "os.getcwd" and not v.args:
                continue
            if isinstance(v, ast.Name) and v.id in h.params:
                i = h.params.index(v.id)
                a = d.args[i] if i < len(d.args) else None
                if isinstance(a, ast.Subscript) and isinstance(a.slice, ast.Constant) and a.slice.value == "-o":
                    continue
            good = False
        return good, "root %s(...) = %s" % (d.func.id, shown)
    if isinstance(d, ast.Call) and depth < 2:
        return _fresh_dir(d, f, depth + 1)
    if isinstance(d, ast.Name):
        rx = Expander(f)
        roots = [rx.expand(r) if not isinstance(r, ast.AugAssign) else r for r in local_assignments(f.node, d.id)]
        good = bool(roots) and all((isinstance(r, ast.Call) and _cn(r, f) == "os.getcwd" and not r.args) or (isinstance(r, ast.Subscript) and isinstance(r.slice, ast.Constant) and r.slice.value == "-o")
                                   for r in roots)
        return good, "root %s = %s" % (d.id, [unparse(r) for r in roots])
    if isinstance(d, ast.Call) and _cn(d, f) == "os.getcwd" and not d.args:
        return True, "cwd"
    return False, "dir=%s" % unparse(d)[:40]


def _is_report_write(c, f):
    return isinstance(c, ast.Call) and isinstance(c.func, ast.Attribute) and c.func.attr == "write" and isinstance(c.func.value, ast.Name) \
        and c.func.value.id in f.params


def _unfailing_helper(prog, f, c, depth=0):
    """a call of a module level private helper all of whose own failing calls sit in catch-all handlers (it cannot raise)"""
    if not (isinstance(c.func, ast.Name) and c.func.id.startswith("_") and c.func.id in f.module.functions) or depth > 2:
        return False
    h = f.module.functions[c.func.id]
    g = build_cfg(h)
    hx = Expander(h, g, only_locations=True)
    if any(isinstance(y, ast.Raise) for y in walk_no_nested(h.node)):
        return False
    for node in g.nodes:
        for root in node.expr_roots():
            for c2 in calls_in(root):
                if _harmless(hx.expand(c2, node), h, None) or _unfailing_helper(prog, h, c2, depth + 1):
                    continue
                hs = enclosing_handlers(g, node)
                if not any(any(cn in ("Exception", "BaseException", "*") for cn in hn.info["classes"]) for hh in hs for k2, hn in hh.succ if k2 == "except"):
                    return False
    return True
