"""C17 - batch conversion tools never touch their inputs and isolate bad files.

Decided: per-file isolation of the two command line tools (everything that can fail inside the per-file
loop sits in a catch-all handler that reports and goes on; nothing leaves the loop early); every file
system write reachable from the tools goes to a path whose directory is the freshly created output
directory (or FormatConverter's explicit / derived output directory), inputs contribute only their base
name without extension; no deleting/renaming call is reachable; each file list is converted with the
source format of its glob pattern; all three lists are always processed.
NOT decided: byte identity of the inputs beyond "no write sink on an input path", content of the
outputs, an explicitly given output directory that equals the input directory.
"""
import ast

from .. import analysis
from ..astutil import calls_in, call_name, where, kw, local_assignments
from ..cfg import build_cfg, enclosing_handlers
from ..model import AnalysisError, FuncInfo, unparse, walk_no_nested

DECIDED = [
    "ESC-3 in run_conversion (odmlconvert, odmltordf) every call of the per-file loop that can fail is inside try/except Exception whose handler reports; no raise/break/return in the loop",
    "PROV-9 output paths are os.path.join(<output directory parameter>, <name derived from splitext(basename(input))>); the output directories come from tempfile.mkdtemp under the chosen root",
    "SINK-1 no remove/rename/rmtree and no write-mode open on an input derived path is reachable from the tools",
    "FMT-1 the three file lists (xml/odml, json, yaml globs) are converted with XML, JSON and YAML respectively, unconditionally",
    "FC-1 FormatConverter: output path = join(output dir, file name); the implicit output dir is <input dir name>_<format> next to the input dir; inputs are only loaded",
]
NOT_DECIDED = ["byte identity of inputs (follows from the absence of write sinks under the library model)", "content of the outputs",
               "an explicit output directory equal to the input directory"]

NO_RAISE_CALLS = ("str", "report.write", "os.path.splitext", "os.path.basename", "os.path.join", "curr_file.absolute")
SCRIPTS = ("scripts.odml_convert", "scripts.odml_to_rdf")
DESTRUCTIVE = ("os.remove", "os.unlink", "os.rename", "os.replace", "os.rmdir", "shutil.rmtree", "shutil.move", "shutil.copy",
               "shutil.copyfile", "os.truncate")


def run(prog, rep):
    rep.decided = DECIDED
    rep.not_decided = NOT_DECIDED
    an = analysis.get(prog)
    an.note_coverage(rep)
    S = an.s

    # ----------------------------------------------------------------- ESC-3
    rep.rule("ESC-3", "run_conversion: inside `for curr_file in file_list` every call other than %s lies in a try whose handlers catch "
                      "Exception (calls inside a handler body must themselves be guarded or harmless); handlers write to report; the loop "
                      "body contains no raise, break or return" % (NO_RAISE_CALLS,))
    for m in SCRIPTS:
        f = prog.func(m + ".run_conversion")
        rep.saw_function(f)
        g = build_cfg(f)
        loops = [n for n in g.nodes if n.kind == "for" and unparse(n.ast.iter) == f.params[0]]
        rep.check(len(loops) == 1, "ESC-3", "%s: one loop over the file list" % f.short, "ok", "expected one loop over %s" % f.params[0], f.where)
        if len(loops) != 1:
            continue
        lp = loops[0]
        esc = [x for x in ast.walk(lp.ast) if isinstance(x, (ast.Raise, ast.Break, ast.Return))]
        rep.check(not esc, "ESC-3", "%s: the per-file loop has no early exit" % f.short, "ok",
                  "the per-file loop contains %s: one bad file stops the run" % [type(x).__name__ for x in esc], where(f, esc[0]) if esc else f.where,
                  witness="a broken file early in the list: later convertible files get no output")
        n_guarded = 0
        for node in g.nodes:
            if node.id == lp.id or not g.dominates(lp, node) or not g.reaches(node, lp, skip_kinds=("exc",)):
                continue
            for root in node.expr_roots():
                for c in calls_in(root):
                    fn = call_name(c)
                    if fn in NO_RAISE_CALLS:
                        continue
                    hs = enclosing_handlers(g, node)
                    ok = any(any(cn in ("Exception", "BaseException", "*") for cn in hn.info["classes"])
                             for h in hs for k2, hn in h.succ if k2 == "except")
                    n_guarded += 1
                    rep.check(ok, "ESC-3", "%s: %s guarded" % (f.short, fn), "inside try/except Exception",
                              "%s(...) in the per-file loop of %s is not inside a catch-all handler: a file that makes it fail stops the whole run"
                              % (fn, f.short), where(f, c), witness="an empty / non-XML / unconvertible file in the directory")
        rep.floor("ESC-3", n_guarded, 3, "failing calls in the loop of %s" % f.short)
        for h in [x for x in ast.walk(lp.ast) if isinstance(x, ast.ExceptHandler)]:
            inner_try = [x for x in h.body if isinstance(x, ast.Try)]
            reports = any(call_name(c) == "report.write" for c in calls_in(h))
            rep.check(reports or inner_try, "ESC-3", "%s: handler at line %d reports" % (f.short, h.lineno), "report.write / nested conversion",
                      "an except clause neither reports nor continues with a guarded conversion", where(f, h))

    # ----------------------------------------------------------------- FMT-1
    rep.rule("FMT-1", "main(): xfiles come from '*.odml' and '*.xml' globs, jfiles from '*.json', yfiles from '*.yaml'; run_conversion "
                      "is called three times, unconditionally, with (xfiles, default XML), (jfiles, 'JSON'), (yfiles, 'YAML')")
    for m in SCRIPTS:
        f = prog.func(m + ".main")
        rep.saw_function(f)
        g = build_cfg(f)
        globs = {}
        for n in walk_no_nested(f.node):
            if isinstance(n, ast.Assign) and isinstance(n.targets[0], ast.Name):
                for c in calls_in(n.value):
                    if isinstance(c.func, ast.Attribute) and c.func.attr in ("glob", "rglob") and c.args and isinstance(c.args[0], ast.Constant):
                        globs.setdefault(n.targets[0].id, set()).add(c.args[0].value)
            if isinstance(n, ast.Expr) and isinstance(n.value, ast.Call) and isinstance(n.value.func, ast.Attribute) and n.value.func.attr == "extend":
                for c in calls_in(n.value):
                    if isinstance(c.func, ast.Attribute) and c.func.attr in ("glob", "rglob") and c.args and isinstance(c.args[0], ast.Constant):
                        globs.setdefault(unparse(n.value.func.value), set()).add(c.args[0].value)
        want = {"XML": set(["*.odml", "*.xml"]), "JSON": set(["*.json"]), "YAML": set(["*.yaml"])}
        calls = []
        for node in g.nodes:
            for root in node.expr_roots():
                for c in calls_in(root):
                    if call_name(c) == "run_conversion":
                        calls.append((node, c))
        rep.check(len(calls) == 3, "FMT-1", "%s: three run_conversion calls" % f.short, "ok", "main calls run_conversion %d times" % len(calls), f.where)
        rc = prog.func(m + ".run_conversion")
        fmt_idx = rc.params.index("source_format")
        for node, c in calls:
            lst = unparse(c.args[0])
            fmt = kw(c, "source_format", fmt_idx)
            fmt_v = fmt.value if isinstance(fmt, ast.Constant) else ("XML" if fmt is None else unparse(fmt))
            pats = globs.get(lst, set())
            rep.check(pats == want.get(fmt_v, set(["?"])), "FMT-1", "%s: %s converted as %s" % (f.short, lst, fmt_v), str(sorted(pats)),
                      "the files %s (globs %s) are converted with source format %s" % (lst, sorted(pats), fmt_v), where(f, c),
                      witness="a valid file of that kind which the other parser cannot read gets no output")
            dom = all(g.dominates(node, p) for _, p in g.exit.pred if p.kind != "stmt" or "exit(" not in unparse(p.ast))
            conds = [(unparse(t), pol) for t, pol, _ in g.dominating_conditions(node) if "isdir" not in unparse(t)]
            rep.check(not conds, "FMT-1", "%s: conversion of %s is unconditional" % (f.short, lst), "ok",
                      "run_conversion(%s) only runs under %s" % (lst, conds), where(f, c))

    # ---------------------------------------------------------------- PROV-9
    rep.rule("PROV-9", "run_conversion / run_rdf_export: every output path is os.path.join(<output dir parameter>, <format string> % "
                       "os.path.splitext(os.path.basename(<input path>))[0]); main(): the directory parameters are results of "
                       "tempfile.mkdtemp(prefix=..., dir=<root>) where root is the working directory or the existing -o directory "
                       "(rdf_dir is created inside out_dir)")
    for m in SCRIPTS:
        mod = prog.module_of(m)
        for f in mod.functions.values():
            if f.name not in ("run_conversion", "run_rdf_export"):
                continue
            rep.saw_function(f)
            dir_params = [p for p in f.params if p.endswith("_dir")]
            outs = []
            for n in walk_no_nested(f.node):
                if isinstance(n, ast.Assign) and isinstance(n.value, ast.Call) and call_name(n.value) == "os.path.join" \
                        and isinstance(n.targets[0], ast.Name) and n.targets[0].id.startswith("out"):
                    outs.append(n)
            rep.floor("PROV-9", len(outs), 1, "output paths in %s" % f.short)
            for n in outs:
                a = n.value.args
                good_dir = len(a) == 2 and isinstance(a[0], ast.Name) and a[0].id in dir_params
                name_ok = False
                if len(a) == 2 and isinstance(a[1], ast.BinOp) and isinstance(a[1].op, ast.Mod) and isinstance(a[1].left, ast.Constant) \
                        and isinstance(a[1].right, ast.Name):
                    defs = local_assignments(f.node, a[1].right.id)
                    name_ok = len(defs) == 1 and unparse(defs[0]).startswith("os.path.splitext(os.path.basename(") and unparse(defs[0]).endswith("))[0]") \
                        and "/" not in a[1].left.value and ".." not in a[1].left.value
                rep.check(good_dir, "PROV-9", "%s: %s lies in an output directory" % (f.short, n.targets[0].id), unparse(n.value)[:60],
                          "output path `%s` is not built in one of the output directory parameters %s" % (unparse(n.value)[:70], dir_params), where(f, n),
                          witness="outputs are written next to (or over) the input files")
                rep.check(name_ok, "PROV-9", "%s: %s named by the input's base name without extension" % (f.short, n.targets[0].id), "splitext(basename(path))[0]",
                          "the output file name is not `<constant> %% os.path.splitext(os.path.basename(<input>))[0]`: inputs with different base "
                          "names can map to one output (or path separators leak in)", where(f, n),
                          witness="rec.day1.xml and rec.day2.xml both become rec.rdf")
            # every write goes to those variables
            sinks = []
            for c in calls_in(f.node):
                fn = call_name(c)
                if fn.endswith(".write_to_file") or fn.endswith(".write_file"):
                    sinks.append(c)
            for c in sinks:
                path_arg = c.args[0] if call_name(c).endswith("write_to_file") else (c.args[1] if len(c.args) > 1 else None)
                ok = isinstance(path_arg, ast.Name) and path_arg.id in [n.targets[0].id for n in outs]
                rep.check(ok, "PROV-9", "%s: %s writes to an output path" % (f.short, call_name(c)[-30:]), unparse(path_arg) if path_arg is not None else "?",
                          "%s writes to `%s`, which is not one of the derived output paths" % (call_name(c), unparse(path_arg) if path_arg is not None else "?"),
                          where(f, c), witness="the tool writes into the search directory")
        f = prog.func(m + ".main")
        mk = [n for n in walk_no_nested(f.node) if isinstance(n, ast.Assign) and isinstance(n.value, ast.Call) and call_name(n.value) == "tempfile.mkdtemp"]
        mk.sort(key=lambda n: n.lineno)
        rep.floor("PROV-9", len(mk), 1, "mkdtemp calls in %s" % f.short)
        made = set()
        for n in mk:
            d = kw(n.value, "dir", None)
            ok = isinstance(d, ast.Name) and (d.id == "out_root" or d.id in made)
            made.add(n.targets[0].id)
            rep.check(ok, "PROV-9", "%s: %s is a fresh directory under the output root" % (f.short, n.targets[0].id), unparse(n.value)[:60],
                      "%s is not created by tempfile.mkdtemp(dir=out_root|<fresh dir>)" % n.targets[0].id, where(f, n),
                      witness="outputs land in an existing directory (possibly the input directory)")
        roots = local_assignments(f.node, "out_root")
        ok = all(unparse(r) in ("os.getcwd()", "parser['-o']") for r in roots) and roots
        rep.check(bool(ok), "PROV-9", "%s: output root is the cwd or the -o directory" % f.short, str([unparse(r) for r in roots]),
                  "out_root is derived from %s" % [unparse(r) for r in roots], f.where)
        for node_c in calls_in(f.node):
            if call_name(node_c) == "run_conversion":
                dirs = [unparse(a) for a in node_c.args[1:] if isinstance(a, ast.Name) and a.id.endswith("_dir")]
                rep.check(dirs and all(d in made for d in dirs), "PROV-9", "%s: run_conversion gets the fresh directories" % f.short, str(dirs),
                          "run_conversion is called with output directories %s that were not created by mkdtemp" % dirs, where(f, node_c))

    # ---------------------------------------------------------------- SINK-1
    rep.rule("SINK-1", "no call of %s anywhere in the package; every write-mode open reachable from the tools' main() is one of the "
                       "enumerated writers (VersionConverter.write_to_file, ODMLWriter/XMLWriter/RDFWriter.write_file, the terminology "
                       "cache)" % (DESTRUCTIVE,))
    for f in prog.all_functions():
        for c in calls_in(f.node):
            fn = call_name(c)
            if fn in DESTRUCTIVE:
                rep.fail("SINK-1", "%s|%s" % (f.short, fn), "%s calls %s" % (f.short, fn), where(f, c), witness="an input file is deleted/renamed")
    allowed = ("tools.converters.version_converter.VersionConverter.write_to_file", "tools.odmlparser.ODMLWriter.write_file",
               "tools.xmlparser.XMLWriter.write_file", "tools.rdf_converter.RDFWriter.write_file", "terminology.cache_load", "templates.cache_load")
    n_fs = 0
    for m in SCRIPTS:
        f = prog.func(m + ".main")
        for w in S.writes(f):
            if w.kind == "fs" and w.field == "open":
                n_fs += 1
                rep.check(w.func in allowed, "SINK-1", "%s reaches the writer %s" % (f.short, w.func), "enumerated writer",
                          "%s reaches a write-mode open in %s (`%s`)" % (f.short, w.func, w.text), "%s:%s" % (w.func, w.lineno),
                          witness="a file is written outside the output directory")
    rep.floor("SINK-1", n_fs, 4, "write-mode opens reachable from the tools")
    rep.ok("SINK-1", "no destructive file call in the package", "ok", "odml/")

    # ------------------------------------------------------------------ FC-1
    rep.rule("FC-1", "FormatConverter.convert_dir: the output file path is os.path.join(<output dir or mirrored sub-dir>, file_name); "
                     "with output_dir None the directory is join(dirname(dirname(input_dir)), basename(dirname(input_dir)) + '_' + "
                     "res_format); _convert_file only loads input_path (VersionConverter(input_path), odml.load(input_path)) and writes "
                     "output_path")
    cd = prog.func("tools.converters.format_converter.FormatConverter.convert_dir")
    cf = prog.func("tools.converters.format_converter.FormatConverter._convert_file")
    rep.saw_function(cd)
    rep.saw_function(cf)
    t = unparse(cd.node)
    rep.check("output_dir_name = input_dir_name + '_' + res_format" in t and "output_dir = os.path.join(root_dir, output_dir_name)" in t
              and "root_dir = os.path.dirname(os.path.dirname(input_dir))" in t, "FC-1", "implicit output directory differs from the input directory", "ok",
              "the implicit output directory is no longer <parent>/<input dir name>_<format>", cd.where, witness="outputs written into the input directory")
    calls = [c for c in calls_in(cd.node) if call_name(c) == "cls._convert_file"]
    ok = len(calls) == 2
    for c in calls:
        ok = ok and unparse(c.args[0]).startswith(("os.path.join(input_dir", "in_file_path")) and \
            (unparse(c.args[1]).startswith("os.path.join(output_dir") or unparse(c.args[1]) == "out_file_path")
    rep.check(ok, "FC-1", "convert_dir passes (input path, output path) pairs", "ok", "_convert_file is not called with (path in input dir, path in output dir)", cd.where)
    for c in calls_in(cf.node):
        fn = call_name(c)
        if fn.endswith(("write_to_file", "write_file")) or fn == "odml.save":
            arg = c.args[-1] if fn == "odml.save" else c.args[0]
            rep.check(unparse(arg) == "output_path", "FC-1", "_convert_file: %s writes output_path" % fn[-25:], "ok",
                      "%s writes to %s" % (fn, unparse(arg)), where(cf, c), witness="the input file is overwritten")
        if fn in ("odml.load", "VersionConverter"):
            rep.check(unparse(c.args[0]) == "input_path", "FC-1", "_convert_file: %s reads input_path" % fn, "ok", "%s is applied to %s" % (fn, unparse(c.args[0])), where(cf, c))
    rep.assume("tempfile.mkdtemp creates a new, empty directory; os.path.join/splitext/basename are pure")
