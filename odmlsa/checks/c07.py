"""C07 - save never writes an invalid document; a failed save harms no file.

Decided: the validation guard dominates every file creating effect of
ODMLWriter.write_file (all backends), the guard raises ParserException exactly on
accumulated is_error issues, fileio.save reaches the file system only through that
function, every write-mode open in the package renders first (compute-before-open),
and nothing that can fail runs after a file was written.
NOT decided: I/O faults of write() itself (disk full, permissions).
"""
import ast

from ..astutil import calls_in, call_name, where, kw
from ..dataflow import sources_of, private_closure
from ..cfg import build_cfg, enclosing_handlers
from ..dataflow import node_of_ast
from ..model import canonical_name
from ..model import AnalysisError, unparse, walk_no_nested
from .rules_order import compute_before_open, open_sites, is_write_open

DECIDED = [
    "DOM-5 Validation(doc) -> is_error loop -> raise ParserException dominates every file creating effect of ODMLWriter.write_file, for every backend",
    "OWN-4 fileio.save and the format converter's 'odml' branch reach the file system only through ODMLWriter.write_file",
    "ORDER-1 at every write-mode open() of the package the content is computed before the file is opened",
    "ENC-2 the rendered JSON / YAML text is pure ASCII, so writing it to a text file opened with the locale's encoding cannot fail after the open",
    "ORDER-6 in ODMLWriter.write_file nothing that can raise (not even warnings.warn) runs after a file was written",
    "RANK-0 ValidationError.is_error compares the rank with the error label",
    "REG-1 / RANK-1 (shared with C08) every documented error rule is registered for its object kinds and constructs its issues with rank error",
    "REG-2 the handler registry only grows: no method replaces or drops the handlers registered for an object kind",
    "ACC-1 the duplicate-id error rule threads one id map through the whole traversal (shared with C08)",
    'DUP-1 / DUP-2 (shared with C08) the duplicate sibling name rule is a seen-set scan keyed by the Property name alone',
    'ORDER-1 takes a parameter for text only under a dominating isinstance(<parameter>, str) test',
]
NOT_DECIDED = ["I/O faults of write() itself (disk full, permission)", "which documents the validation rules flag (C08)"]


SHRINKING = ("pop", "popitem", "clear", "remove", "discard", "update", "difference_update", "intersection_update", "__delitem__",
             "__setitem__")


def registry_only_grows(prog, rep, rule="REG-2"):
    """(shared with C19) the table Validation._handlers - shared by every validation unless reset=True re-binds it in the
    constructor - is changed by `setdefault(kind, set()).add(handler)` only: an entry is never assigned, deleted or emptied."""
    rep.rule(rule, "in odml.validation every write that reaches `_handlers` is <registry>.setdefault(<kind>, set()).add(<handler>) or the "
                   "re-binding `self._handlers = {}` in Validation.__init__; no `_handlers[kind] = ...`, del, pop, clear, remove, discard, "
                   "update on the registry or on one of its entries")
    vmod = prog.module_of("validation")
    n = 0
    n_bad = 0
    for f in prog.all_functions():
        if f.module is not vmod:
            continue
        for node in ast.walk(f.node):
            bad = None
            if isinstance(node, (ast.Assign, ast.AugAssign, ast.Delete)):
                tgts = node.targets if not isinstance(node, ast.AugAssign) else [node.target]
                for t in tgts:
                    if isinstance(t, ast.Subscript) and "_handlers" in unparse(t.value):
                        bad = "`%s`" % unparse(node).split("\n")[0][:70]
                        # `if kind not in R: R[kind] = set()` is setdefault spelled out
                        if isinstance(node, ast.Assign) and unparse(node.value) == "set()":
                            from ..astutil import atoms_at as _aa
                            from ..dataflow import node_of_ast as _noa
                            g0 = build_cfg(f)
                            n0 = _noa(g0, node.value)
                            want = "%s in %s" % (unparse(t.slice), unparse(t.value))
                            if n0 is not None and any((tx == want and not pol) or (tx == want.replace(" in ", " not in ") and pol) for tx, pol, _ in _aa(g0, n0)):
                                bad = None
                    if isinstance(t, ast.Attribute) and t.attr == "_handlers":
                        n += 1
                        fresh = isinstance(node, ast.Assign) and isinstance(node.value, ast.Dict) and not node.value.keys
                        if not (f.name == "__init__" and fresh):
                            bad = "`%s`" % unparse(node).split("\n")[0][:70]
            if isinstance(node, ast.Call) and isinstance(node.func, ast.Attribute) and "_handlers" in unparse(node.func.value):
                n += 1
                if node.func.attr in SHRINKING:
                    bad = "`%s`" % unparse(node)[:70]
            if bad:
                n_bad += 1
                rep.fail(rule, "%s|%s" % (f.short, bad), "%s changes the handler registry with %s: handlers registered before (the default error "
                         "rules, when the registry is the shared one) are replaced or dropped" % (f.short, bad), where(f, node),
                         witness="doc.validate().register_custom_handler('section', rule); afterwards a Section without type is saved")
    rep.floor(rule, n, 2, "uses of the handler registry")
    if not n_bad:
        rep.ok(rule, "the handler registry is only extended", "%d uses inspected" % n, vmod.path)


def fs_write_nodes(g, func):
    """CFG nodes of func with a file creating effect: a write-mode open or a call of a *.write_file method."""
    out = []
    for n in g.nodes:
        for r in n.expr_roots():
            for c in calls_in(r):
                if is_write_open(c) or unparse(c.func).endswith(".write_file") or call_name(c) in ("os.makedirs", "os.mkdir"):
                    out.append((n, c))
    return out


def run(prog, rep):
    rep.decided = DECIDED
    rep.not_decided = NOT_DECIDED
    wf = prog.func("tools.odmlparser.ODMLWriter.write_file")
    rep.saw_function(wf)
    g = build_cfg(wf)
    doc_param = wf.params[1] if len(wf.params) > 1 else None

    # ----------------------------------------------------------------- DOM-5
    rep.rule("DOM-5", "in ODMLWriter.write_file: v = Validation(<document parameter>) (default arguments: rules run); "
                      "a loop over v.errors accumulates under `if err.is_error`; a test of the accumulator raises "
                      "ParserException on its true side; that test dominates every node with a file creating effect "
                      "(write-mode open, *.write_file call) and is itself dominated by the loop")
    vnodes = []
    for n in g.nodes:
        if n.kind == "stmt" and isinstance(n.ast, ast.Assign) and isinstance(n.ast.value, ast.Call) \
                and call_name(n.ast.value) in ("Validation", "validation.Validation"):
            vnodes.append(n)
    writes = fs_write_nodes(g, wf)
    rep.floor("DOM-5", len(writes), 2, "file creating effects in ODMLWriter.write_file")
    guard = None
    why = ""
    if len(vnodes) != 1:
        why = "expected exactly one Validation(...) construction, found %d" % len(vnodes)
    else:
        vn = vnodes[0]
        call = vn.ast.value
        vvar = vn.ast.targets[0].id if isinstance(vn.ast.targets[0], ast.Name) else None
        if not (call.args and unparse(call.args[0]) == doc_param):
            why = "Validation is not applied to the document parameter: %s" % unparse(call)
        elif len(call.args) > 1 or call.keywords:
            why = "Validation is constructed with extra arguments (%s): the default rules may not run" % unparse(call)
        else:
            guard, why = _error_guard(wf, g, vvar)
            if guard is None:
                # the guard may live in a private helper that is handed the validation object
                for n in g.nodes:
                    if n.kind != "stmt" or not isinstance(n.ast, ast.Expr) or not isinstance(n.ast.value, ast.Call):
                        continue
                    c = n.ast.value
                    for h in private_closure(wf, depth=1):
                        if h is wf or not (isinstance(c.func, ast.Attribute) and c.func.attr == h.name or isinstance(c.func, ast.Name) and c.func.id == h.name):
                            continue
                        hp = h.params[1:] if h.has_self else h.params
                        idx = [i for i, a0 in enumerate(c.args) if unparse(a0) == vvar]
                        if not idx or idx[0] >= len(hp):
                            continue
                        hg = build_cfg(h)
                        hguard, hwhy = _error_guard(h, hg, hp[idx[0]])
                        if hguard is not None and not enclosing_handlers(g, n):
                            guard, why = n, ""
            if guard is not None and not (g.dominates(vn, guard)):
                guard, why = None, "the guard does not follow the Validation(...) construction"
    rep.check(guard is not None, "DOM-5", "ODMLWriter.write_file: validation guard present", "Validation -> is_error selection -> raise ParserException",
              why, wf.where, witness="save a document with a Section without type: it is written instead of refused")
    for n, c in writes:
        inst = "write_file: %s" % unparse(c.func)
        good = guard is not None and g.dominates(guard, n) and n.id != guard.id
        rep.check(good, "DOM-5", inst, "dominated by the validation guard",
                  "the file creating call %s is reachable without passing the validation guard" % unparse(c)[:70],
                  where(wf, c), witness="save an invalid document with this backend: a file is written")

    # ----------------------------------------------------------------- OWN-4
    rep.rule("OWN-4", "fileio.save performs no file creating effect except calling write_file on an ODMLWriter; "
                      "raw writers (XMLWriter.write_file, RDFWriter.write_file) are called only from ODMLWriter.write_file, "
                      "the format converter's RDF branch and __main__ blocks")
    save = prog.func("fileio.save")
    rep.saw_function(save)
    sg = build_cfg(save)
    sw = fs_write_nodes(sg, save)
    good = len(sw) == 1 and unparse(sw[0][1].func).endswith(".write_file")
    recv_ok = False
    if good:
        recv = sw[0][1].func.value
        srcs = sources_of(prog, save, recv) if isinstance(recv, ast.Name) else [(save, recv)]
        recv_ok = bool(srcs) and all(isinstance(v, ast.Call) and canonical_name(prog, fv, v.func) == "tools.odmlparser.ODMLWriter" for fv, v in srcs)
    rep.check(good and recv_ok, "OWN-4", "fileio.save -> ODMLWriter.write_file", "single file effect through ODMLWriter",
              "fileio.save creates files other than through ODMLWriter(...).write_file", save.where,
              witness="odml.save of an invalid document writes a file")
    raw_callers = []
    for f in prog.all_functions():
        for c in calls_in(f.node):
            if not (isinstance(c.func, ast.Attribute) and c.func.attr == "write_file"):
                continue
            recv = c.func.value
            srcs = sources_of(prog, f, recv) if isinstance(recv, ast.Name) else [(f, recv)]
            if any(isinstance(v, ast.Call) and canonical_name(prog, fv, v.func) in ("tools.xmlparser.XMLWriter", "tools.rdf_converter.RDFWriter") for fv, v in srcs):
                raw_callers.append((f, c))
    allowed = {"tools.odmlparser.ODMLWriter.write_file", "tools.converters.format_converter.FormatConverter._convert_file"}
    for f, c in raw_callers:
        rep.check(prog.table_short(f) in allowed, "OWN-4", "%s calls %s" % (f.short, unparse(c.func)[:50]), "allowed caller",
                  "raw writer called from %s, bypassing the validation guard" % f.short, where(f, c))
    rep.floor("OWN-4", len(raw_callers), 2, "raw writer call sites")

    # --------------------------------------------------------------- ORDER-1
    funcs = [f for f in prog.all_functions() if open_sites(f)]
    n = compute_before_open(prog, rep, funcs, "ORDER-1", floor=6)
    rep.extra["write_mode_opens"] = n

    # ----------------------------------------------------------------- ENC-2
    rep.rule("ENC-2", "ODMLWriter.to_string renders with json.dumps (ensure_ascii left at its default True) and yaml.dump (allow_unicode "
                      "left at its default False): every non-ASCII character is escaped, so <file>.write(text) cannot raise "
                      "UnicodeEncodeError after open(filename, 'w') truncated the target")
    tsf = prog.func("tools.odmlparser.ODMLWriter.to_string")
    rep.saw_function(tsf)
    widen = {"ensure_ascii": False, "allow_unicode": True}
    dumps = [c for h in private_closure(tsf) for c in calls_in(h.node)
             if canonical_name(prog, h, c.func) in ("json.dumps", "json.dump", "yaml.dump", "yaml.safe_dump")]
    for c in dumps:
        bad = [k.arg for k in c.keywords if k.arg in widen and not (isinstance(k.value, ast.Constant) and k.value.value is (not widen[k.arg]))]
        rep.check(not bad, "ENC-2", "%s output is ASCII" % unparse(c.func), "default escaping",
                  "%s is called with %s: the rendered text can contain characters (lone surrogates, anything outside the locale's "
                  "charset) that the output file cannot encode; write() then fails after the target was truncated" % (unparse(c.func), bad),
                  where(tsf, c), witness="save a document whose text holds os.fsdecode() of a non-UTF-8 file name as JSON: 0 byte file left")
    rep.floor("ENC-2", len(dumps), 2, "serialiser calls in ODMLWriter.to_string")

    # --------------------------------------------------------------- ORDER-6
    rep.rule("ORDER-6", "in ODMLWriter.write_file no call (other than the writes themselves) is reachable after a "
                        "file creating effect: reporting warnings, rendering and argument handling all precede it")
    for n, c in writes:
        seen = set()
        stack = [m for k, m in n.succ if k != "exc"]
        bad = None
        while stack and bad is None:
            m = stack.pop()
            if m.id in seen:
                continue
            seen.add(m.id)
            if m.kind == "with" and m.ast is getattr(n, "ast", None):
                pass
            for r in m.expr_roots():
                for cc in calls_in(r):
                    fn = unparse(cc.func)
                    # writes into the handle opened at n are the effect itself
                    if n.kind == "with" and n.info["item"].optional_vars is not None \
                            and fn == "%s.write" % unparse(n.info["item"].optional_vars):
                        continue
                    bad = (m, fn)
            for k, x in m.succ:
                if k != "exc":
                    stack.append(x)
        rep.check(bad is None, "ORDER-6", "write_file: after %s" % unparse(c.func)[:40], "nothing but the write follows",
                  "%s(...) runs after the file was written; if it raises, save fails although the file was created/overwritten"
                  % (bad[1] if bad else ""), where(wf, bad[0].ast) if bad else wf.where,
                  witness="warnings turned into errors (python -W error) + a document with warnings only")

    # ----------------------------------------------------------------- ACC-1 (the duplicate-id error rule finds every duplicate)
    from .. import analysis
    from .c08 import acc1_rule, tab2_rule, tab3_rule, dup1_rule, dup2_rule
    acc1_rule(prog, rep, analysis.get(prog).s)
    # the duplicate sibling name rule: a seen-set scan (DUP-1) keyed by the Property name alone (DUP-2)
    dup1_rule(prog, rep)
    dup2_rule(prog, rep)
    # the error rules are what blocks a save: they must be registered for the kinds they are documented for, with rank error
    tab2_rule(prog, rep, analysis.get(prog).k, "REG-1", only_rank="error")
    registry_only_grows(prog, rep, "REG-2")
    tab3_rule(prog, rep, "RANK-1", only_rank="error")

    # ---------------------------------------------------------------- RANK-0
    rep.rule("RANK-0", "ValidationError.is_error is `self.rank == LABEL_ERROR`")
    ie = prog.cls("ValidationError").lookup_prop("is_error", "getter")
    if ie is None:
        raise AnalysisError("ValidationError.is_error vanished")
    rets = [n.value for n in ast.walk(ie.node) if isinstance(n, ast.Return)]
    good = len(rets) == 1 and unparse(rets[0]) == "self.rank == LABEL_ERROR"
    rep.check(good, "RANK-0", "ValidationError.is_error", "self.rank == LABEL_ERROR",
              "is_error is computed as %s" % [unparse(r) for r in rets], ie.where)
    from ..report import import_verdicts
    import_verdicts(prog, rep, "C17", ("SINK-1",), "SINK-1",
                    "a failed save leaves a file that was already there as it was: nothing in the package removes, renames or truncates a file "
                    "outside the reviewed write sites - a clean-up that deletes the target after a failure deletes the earlier content too")
    from .rules_lints import no_global_warning_filters
    no_global_warning_filters(prog, rep, "WARN-1")
    rep.assume("warnings.warn does not raise under the default warning filters; it precedes every write anyway (ORDER-6)")
    rep.assume("file.write of an already rendered text only fails for I/O reasons")


def _selects_errors(e, vtext):
    """does expression e contain a comprehension / generator over <vtext>.errors filtered by `<item>.is_error`?"""
    for n in ast.walk(e):
        if isinstance(n, (ast.ListComp, ast.GeneratorExp, ast.SetComp)):
            for gen in n.generators:
                if unparse(gen.iter) == "%s.errors" % vtext and isinstance(gen.target, ast.Name) \
                        and any(unparse(i) == "%s.is_error" % gen.target.id for i in gen.ifs):
                    return True
                if unparse(gen.iter) == "%s.errors" % vtext and isinstance(gen.target, ast.Name) and unparse(n.elt) == "%s.is_error" % gen.target.id:
                    return True      # any(err.is_error for err in v.errors)
    return False


def _error_guard(f, g, vtext):
    """(branch node, why): a branch whose test is true exactly when the errors of <vtext> (is_error) are not empty and whose
    true side raises ParserException without falling through."""
    acc = set()
    loops = [n for n in g.nodes if n.kind == "for" and unparse(n.ast.iter) == "%s.errors" % vtext]
    for lp in loops:
        lv = lp.ast.target.id if isinstance(lp.ast.target, ast.Name) else None
        for n in ast.walk(lp.ast):
            if isinstance(n, ast.If) and unparse(n.test) == "%s.is_error" % lv:
                for m in ast.walk(n):
                    if isinstance(m, ast.AugAssign) and isinstance(m.target, ast.Name):
                        acc.add(m.target.id)
                    if isinstance(m, ast.Assign):
                        acc |= set(t.id for t in m.targets if isinstance(t, ast.Name))
                    if isinstance(m, ast.Expr) and isinstance(m.value, ast.Call) and isinstance(m.value.func, ast.Attribute) \
                            and m.value.func.attr in ("append", "add") and isinstance(m.value.func.value, ast.Name):
                        acc.add(m.value.func.value.id)
    for n in g.nodes:
        if n.kind == "stmt" and isinstance(n.ast, ast.Assign) and _selects_errors(n.ast.value, vtext):
            acc |= set(t.id for t in n.ast.targets if isinstance(t, ast.Name))
    last_why = "no selection of the is_error entries of %s.errors" % vtext if not acc else \
        "no test of the selected errors with `raise ParserException` on its true side"
    for n in g.nodes:
        if n.kind != "branch" or n.info.get("loop"):
            continue
        t = n.ast.test
        names = set(x.id for x in ast.walk(t) if isinstance(x, ast.Name))
        direct = _selects_errors(t, vtext)
        if not (names & acc) and not direct:
            continue
        fires = isinstance(t, ast.Name) or direct or \
            (isinstance(t, ast.Compare) and isinstance(t.ops[0], ast.NotEq) and isinstance(t.comparators[0], ast.Constant) and t.comparators[0].value in ("", 0)) or \
            (isinstance(t, ast.Compare) and isinstance(t.ops[0], ast.Gt) and isinstance(t.comparators[0], ast.Constant) and t.comparators[0].value == 0) or \
            (isinstance(t, ast.Call) and unparse(t.func) in ("len", "bool", "any"))
        if not fires:
            last_why = "the guard test `%s` does not fire on every non-empty selection" % unparse(t)
            continue
        t_side = n.out("true")
        raises = [m for m in g.nodes if m.kind == "raise" and t_side and g.dominates(t_side[0], m)
                  and isinstance(m.ast.exc, ast.Call) and unparse(m.ast.exc.func).split(".")[-1] == "ParserException"]
        falls_through = t_side and g.reaches(t_side[0], g.exit, skip_kinds=("exc",))
        if raises and not falls_through and all(g.dominates(lp, n) for lp in loops):
            return n, ""
    return None, last_why
