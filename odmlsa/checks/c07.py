"""C07 - save never writes an invalid document; a failed save harms no file.

Decided: the validation guard dominates every file creating effect of
ODMLWriter.write_file (all backends), the guard raises ParserException exactly on
accumulated is_error issues, fileio.save reaches the file system only through that
function, every write-mode open in the package renders first (compute-before-open),
and nothing that can fail runs after a file was written.
NOT decided: I/O faults of write() itself (disk full, permissions).
"""
import ast

from ..astutil import calls_in, call_name, where, kw
from ..dataflow import sources_of
from ..cfg import build_cfg
from ..dataflow import node_of_ast
from ..model import AnalysisError, unparse, walk_no_nested
from .rules_order import compute_before_open, open_sites, is_write_open

DECIDED = [
    "DOM-5 Validation(doc) -> is_error loop -> raise ParserException dominates every file creating effect of ODMLWriter.write_file, for every backend",
    "OWN-4 fileio.save and the format converter's 'odml' branch reach the file system only through ODMLWriter.write_file",
    "ORDER-1 at every write-mode open() of the package the content is computed before the file is opened",
    "ORDER-6 in ODMLWriter.write_file nothing that can raise (not even warnings.warn) runs after a file was written",
    "RANK-0 ValidationError.is_error compares the rank with the error label",
    "ACC-1 the duplicate-id error rule threads one id map through the whole traversal (shared with C08)",
]
NOT_DECIDED = ["I/O faults of write() itself (disk full, permission)", "which documents the validation rules flag (C08)"]


def fs_write_nodes(g, func):
    """CFG nodes of func with a file creating effect: a write-mode open or a call of a *.write_file method."""
    out = []
    for n in g.nodes:
        for r in n.expr_roots():
            for c in calls_in(r):
                if is_write_open(c) or unparse(c.func).endswith(".write_file") or call_name(c) in ("os.makedirs", "os.mkdir"):
                    out.append((n, c))
    return out


def run(prog, rep):
    rep.decided = DECIDED
    rep.not_decided = NOT_DECIDED
    wf = prog.func("tools.odmlparser.ODMLWriter.write_file")
    rep.saw_function(wf)
    g = build_cfg(wf)
    doc_param = wf.params[1] if len(wf.params) > 1 else None

    # ----------------------------------------------------------------- DOM-5
    rep.rule("DOM-5", "in ODMLWriter.write_file: v = Validation(<document parameter>) (default arguments: rules run); "
                      "a loop over v.errors accumulates under `if err.is_error`; a test of the accumulator raises "
                      "ParserException on its true side; that test dominates every node with a file creating effect "
                      "(write-mode open, *.write_file call) and is itself dominated by the loop")
    vnodes = []
    for n in g.nodes:
        if n.kind == "stmt" and isinstance(n.ast, ast.Assign) and isinstance(n.ast.value, ast.Call) \
                and call_name(n.ast.value) in ("Validation", "validation.Validation"):
            vnodes.append(n)
    writes = fs_write_nodes(g, wf)
    rep.floor("DOM-5", len(writes), 2, "file creating effects in ODMLWriter.write_file")
    guard = None
    why = ""
    if len(vnodes) != 1:
        why = "expected exactly one Validation(...) construction, found %d" % len(vnodes)
    else:
        vn = vnodes[0]
        call = vn.ast.value
        vvar = vn.ast.targets[0].id if isinstance(vn.ast.targets[0], ast.Name) else None
        if not (call.args and unparse(call.args[0]) == doc_param):
            why = "Validation is not applied to the document parameter: %s" % unparse(call)
        elif len(call.args) > 1 or call.keywords:
            why = "Validation is constructed with extra arguments (%s): the default rules may not run" % unparse(call)
        else:
            loops = [n for n in g.nodes if n.kind == "for" and unparse(n.ast.iter) == "%s.errors" % vvar]
            if len(loops) != 1:
                why = "no loop over %s.errors" % vvar
            else:
                lp = loops[0]
                lv = lp.ast.target.id if isinstance(lp.ast.target, ast.Name) else None
                acc = set()
                for n in ast.walk(lp.ast):
                    if isinstance(n, ast.If) and unparse(n.test) == "%s.is_error" % lv:
                        for m in ast.walk(n):
                            if isinstance(m, ast.AugAssign) and isinstance(m.target, ast.Name):
                                acc.add(m.target.id)
                            if isinstance(m, ast.Assign):
                                acc |= set(t.id for t in m.targets if isinstance(t, ast.Name))
                            if isinstance(m, ast.Raise):
                                acc.add("<raise>")
                if not acc:
                    why = "the loop over %s.errors does not accumulate under `if %s.is_error`" % (vvar, lv)
                else:
                    for n in g.nodes:
                        if n.kind != "branch" or n.info.get("loop"):
                            continue
                        names = set(x.id for x in ast.walk(n.ast.test) if isinstance(x, ast.Name))
                        if not (names & acc):
                            continue
                        t_side = n.out("true")
                        raises = [m for m in g.nodes if m.kind == "raise" and t_side and g.dominates(t_side[0], m)
                                  and isinstance(m.ast.exc, ast.Call) and unparse(m.ast.exc.func) == "ParserException"]
                        falls_through = t_side and g.reaches(t_side[0], g.exit, skip_kinds=("exc",))
                        if raises and not falls_through and g.dominates(vn, lp) and g.dominates(lp, n):
                            # the accumulator must start empty: its definition before the loop is a constant ""
                            guard = n
                    if guard is None:
                        why = "no test of the accumulated errors with `raise ParserException` on its true side after the loop"
    rep.check(guard is not None, "DOM-5", "ODMLWriter.write_file: validation guard present", "Validation -> is_error loop -> raise ParserException",
              why, wf.where, witness="save a document with a Section without type: it is written instead of refused")
    for n, c in writes:
        inst = "write_file: %s" % unparse(c.func)
        good = guard is not None and g.dominates(guard, n) and n.id != guard.id
        rep.check(good, "DOM-5", inst, "dominated by the validation guard",
                  "the file creating call %s is reachable without passing the validation guard" % unparse(c)[:70],
                  where(wf, c), witness="save an invalid document with this backend: a file is written")
    if guard is not None:
        # accumulator initialised empty and the guard compares against empty
        t = guard.ast.test
        ok = (isinstance(t, ast.Compare) and isinstance(t.ops[0], ast.NotEq) and isinstance(t.comparators[0], ast.Constant)
              and t.comparators[0].value == "") or isinstance(t, ast.Name)
        rep.check(ok, "DOM-5", "guard fires on any accumulated error", unparse(t), "the guard test `%s` does not fire on every "
                  "non-empty accumulation" % unparse(t), where(wf, guard.ast))

    # ----------------------------------------------------------------- OWN-4
    rep.rule("OWN-4", "fileio.save performs no file creating effect except calling write_file on an ODMLWriter; "
                      "raw writers (XMLWriter.write_file, RDFWriter.write_file) are called only from ODMLWriter.write_file, "
                      "the format converter's RDF branch and __main__ blocks")
    save = prog.func("fileio.save")
    rep.saw_function(save)
    sg = build_cfg(save)
    sw = fs_write_nodes(sg, save)
    good = len(sw) == 1 and unparse(sw[0][1].func).endswith(".write_file")
    recv_ok = False
    if good:
        recv = sw[0][1].func.value
        srcs = sources_of(prog, save, recv) if isinstance(recv, ast.Name) else [(save, recv)]
        recv_ok = bool(srcs) and all(isinstance(v, ast.Call) and call_name(v) == "ODMLWriter" for _, v in srcs)
    rep.check(good and recv_ok, "OWN-4", "fileio.save -> ODMLWriter.write_file", "single file effect through ODMLWriter",
              "fileio.save creates files other than through ODMLWriter(...).write_file", save.where,
              witness="odml.save of an invalid document writes a file")
    raw_callers = []
    for f in prog.all_functions():
        for c in calls_in(f.node):
            if not (isinstance(c.func, ast.Attribute) and c.func.attr == "write_file"):
                continue
            recv = c.func.value
            srcs = sources_of(prog, f, recv) if isinstance(recv, ast.Name) else [(f, recv)]
            if any(isinstance(v, ast.Call) and call_name(v).split(".")[-1] in ("XMLWriter", "RDFWriter") for _, v in srcs):
                raw_callers.append((f, c))
    allowed = {"tools.odmlparser.ODMLWriter.write_file", "tools.converters.format_converter.FormatConverter._convert_file"}
    for f, c in raw_callers:
        rep.check(f.short in allowed, "OWN-4", "%s calls %s" % (f.short, unparse(c.func)[:50]), "allowed caller",
                  "raw writer called from %s, bypassing the validation guard" % f.short, where(f, c))
    rep.floor("OWN-4", len(raw_callers), 2, "raw writer call sites")

    # --------------------------------------------------------------- ORDER-1
    funcs = [f for f in prog.all_functions() if open_sites(f)]
    n = compute_before_open(prog, rep, funcs, "ORDER-1", floor=6)
    rep.extra["write_mode_opens"] = n

    # --------------------------------------------------------------- ORDER-6
    rep.rule("ORDER-6", "in ODMLWriter.write_file no call (other than the writes themselves) is reachable after a "
                        "file creating effect: reporting warnings, rendering and argument handling all precede it")
    for n, c in writes:
        seen = set()
        stack = [m for k, m in n.succ if k != "exc"]
        bad = None
        while stack and bad is None:
            m = stack.pop()
            if m.id in seen:
                continue
            seen.add(m.id)
            if m.kind == "with" and m.ast is getattr(n, "ast", None):
                pass
            for r in m.expr_roots():
                for cc in calls_in(r):
                    fn = unparse(cc.func)
                    # writes into the handle opened at n are the effect itself
                    if n.kind == "with" and n.info["item"].optional_vars is not None \
                            and fn == "%s.write" % unparse(n.info["item"].optional_vars):
                        continue
                    bad = (m, fn)
            for k, x in m.succ:
                if k != "exc":
                    stack.append(x)
        rep.check(bad is None, "ORDER-6", "write_file: after %s" % unparse(c.func)[:40], "nothing but the write follows",
                  "%s(...) runs after the file was written; if it raises, save fails although the file was created/overwritten"
                  % (bad[1] if bad else ""), where(wf, bad[0].ast) if bad else wf.where,
                  witness="warnings turned into errors (python -W error) + a document with warnings only")

    # ----------------------------------------------------------------- ACC-1 (the duplicate-id error rule finds every duplicate)
    from .. import analysis
    from .c08 import acc1_rule
    acc1_rule(prog, rep, analysis.get(prog).s)

    # ---------------------------------------------------------------- RANK-0
    rep.rule("RANK-0", "ValidationError.is_error is `self.rank == LABEL_ERROR`")
    ie = prog.cls("ValidationError").lookup_prop("is_error", "getter")
    if ie is None:
        raise AnalysisError("ValidationError.is_error vanished")
    rets = [n.value for n in ast.walk(ie.node) if isinstance(n, ast.Return)]
    good = len(rets) == 1 and unparse(rets[0]) == "self.rank == LABEL_ERROR"
    rep.check(good, "RANK-0", "ValidationError.is_error", "self.rank == LABEL_ERROR",
              "is_error is computed as %s" % [unparse(r) for r in rets], ie.where)
    rep.assume("warnings.warn does not raise under the default warning filters; it precedes every write anyway (ORDER-6)")
    rep.assume("file.write of an already rendered text only fails for I/O reasons")
