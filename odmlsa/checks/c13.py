"""C13 - merge is complete, conservative, all-or-nothing.

Decided (structural clauses): merge_check(source, strict) dominates the first write of
both merge functions; the check visits what the merge visits (same iteration, same
selector, full recursion, no early exit) and tests under strict every attribute the
merge copies (+ dtype); attributes are only filled when unset in the destination and
set in the source; strict is forwarded everywhere; the source tree is never written;
every source child is merged into its counterpart or cloned.
NOT decided: which values count as lacked, conversion of source values to the
destination dtype, normalisation used in the text comparisons.
"""
import ast

from .. import analysis
from ..astutil import calls_in, call_name, where
from ..model import AnalysisError, unparse, walk_no_nested
from .rules_merge import pure_footprint, strict_forwarded, merge_adds_clones

DECIDED = [
    "DOM-6 self.merge_check(source, strict) dominates every write of BaseSection.merge and BaseProperty.merge and is not caught",
    "SIB-2 merge_check visits what merge visits: same iteration and selector, recursion into every counterpart, no early exit; under strict it tests every attribute merge copies, plus dtype",
    "FILL-1 every attribute copy in merge is guarded by `self.X is None and other.X is not None` for the same X",
    "FWD-1 strict is forwarded unchanged through every recursive call and into extend",
    "PURE-1 the source tree is never written",
    "ALIAS-4 every source child is merged into its counterpart or cloned; only clones are added",
    "SEL-1 the selector deciding 'child is missing' implies the precondition of the add (name not yet used)",
    "VAL-1 the values merge passes to extend are the source values that merge_check validated",
]
NOT_DECIDED = ["which values count as lacked (equality of values)", "conversion of source values to the destination dtype",
               "text normalisation used for definition/reference/value_origin comparison"]

PROP_COPIED = ("value_origin", "uncertainty", "reference", "definition", "unit")


def _first_arg_is(call, name):
    return call.args and unparse(call.args[0]) == name


def _attr_pair_tests(func, self_name, other_name):
    """attributes X for which some `if` mentions both self.X and other.X and raises in its body (transitively)."""
    out = set()
    for n in walk_no_nested(func.node):
        if isinstance(n, ast.If):
            txt = unparse(n.test)
            has_raise = any(isinstance(m, ast.Raise) for m in ast.walk(n))
            if not has_raise:
                continue
            for m in ast.walk(n.test):
                if isinstance(m, ast.Attribute) and isinstance(m.value, ast.Name) and m.value.id == self_name:
                    if "%s.%s" % (other_name, m.attr) in txt:
                        out.add(m.attr)
    return out


def run(prog, rep):
    rep.decided = DECIDED
    rep.not_decided = NOT_DECIDED
    an = analysis.get(prog)
    S = an.s
    an.note_coverage(rep)

    # ----------------------------------------------------------------- DOM-6
    rep.rule("DOM-6", "in both merge functions the call self.merge_check(<source parameter>, strict) dominates every CFG node "
                      "that contributes a visible write (except the `section is None` delegation to the link/include setters) "
                      "and does not sit inside a try block")
    for qn in ("section.BaseSection.merge", "property.BaseProperty.merge"):
        f = prog.func(qn)
        rep.saw_function(f)
        g = S.cfg(f)
        me, src = f.params[0], f.params[1]
        checks = []
        for node in g.nodes:
            for r in node.expr_roots():
                for c in calls_in(r):
                    if call_name(c) == "%s.merge_check" % me:
                        checks.append((node, c))
        good = len(checks) == 1 and _first_arg_is(checks[0][1], src)
        rep.check(good, "DOM-6", "%s calls self.merge_check(%s, strict) once" % (f.short, src), "ok",
                  "%s does not call self.merge_check(%s, ...) exactly once" % (f.short, src), f.where,
                  witness="a conflict raises after part of the destination was changed")
        if not good:
            continue
        cn, cc = checks[0]
        from ..cfg import enclosing_handlers
        rep.check(not enclosing_handlers(g, cn), "DOM-6", "%s: merge_check is not inside a try" % f.short, "ok",
                  "the merge_check call sits inside a try block: its refusal may be swallowed", where(f, cc))
        n_w = 0
        for node in g.nodes:
            if node.id == cn.id or not g.reachable(node):
                continue
            ws = [w for w in S.node_writes(f, node) if w.visible()]
            if not ws:
                continue
            conds = [(unparse(t), pol) for t, pol, _ in g.dominating_conditions(node)]
            if ("%s is None" % src, "true") in conds:
                continue      # delegation: merge() without argument re-assigns link/include
            n_w += 1
            rep.check(g.dominates(cn, node), "DOM-6", "%s: write at `%s`" % (f.short, unparse(node.ast).split("\n")[0][:40]),
                      "dominated by merge_check", "a write (%s) can happen before merge_check ran" % repr(ws[0]), where(f, node.ast),
                      witness="strict merge with a conflict in a later sibling: earlier changes stay")
        rep.floor("DOM-6", n_w, 2, "write nodes in %s" % f.short)

    # ----------------------------------------------------------------- SIB-2
    rep.rule("SIB-2", "BaseSection.merge_check: `for obj in <source>`: mine = self.contains(obj); if mine is not None: "
                      "mine.merge_check(obj, strict) - no return/break/continue in the loop; BaseProperty.merge_check tests "
                      "under strict {dtype} + every attribute BaseProperty.merge copies; BaseSection.merge_check tests "
                      "{definition, reference}")
    mc = prog.func("section.BaseSection.merge_check")
    rep.saw_function(mc)
    me, src = mc.params[0], mc.params[1]
    loops = [n for n in walk_no_nested(mc.node) if isinstance(n, ast.For)]
    rep.check(len(loops) == 1 and unparse(loops[0].iter) == src, "SIB-2", "Section.merge_check iterates the source", "for obj in %s" % src,
              "merge_check does not iterate the source Section once", mc.where, witness="conflicts below the top level are not found")
    for lp in loops:
        escapes = [n for n in ast.walk(lp) if isinstance(n, (ast.Return, ast.Break, ast.Continue))]
        rep.check(not escapes, "SIB-2", "Section.merge_check loop has no early exit", "ok",
                  "the checking loop leaves early (%s): later siblings are never checked although merge handles them"
                  % ", ".join(type(e).__name__.lower() for e in escapes), where(mc, escapes[0]) if escapes else mc.where,
                  witness="strict merge where a source-only child precedes the conflicting child: ValueError after partial merge")
        v = unparse(lp.target)
        sel = [n for n in lp.body if isinstance(n, ast.Assign) and isinstance(n.value, ast.Call)
               and call_name(n.value) == "%s.contains" % me and _first_arg_is(n.value, v)]
        rep.check(len(sel) == 1, "SIB-2", "Section.merge_check selects with self.contains(obj)", "ok",
                  "merge_check does not select the counterpart with self.contains(<child>) like merge does", where(mc, lp))
        rec = [c for c in calls_in(lp) if isinstance(c.func, ast.Attribute) and c.func.attr == "merge_check"]
        good = len(rec) == 1 and _first_arg_is(rec[0], v) and sel and unparse(rec[0].func.value) == unparse(sel[0].targets[0])
        rep.check(good, "SIB-2", "Section.merge_check recurses into the counterpart", "mine.merge_check(obj, strict)",
                  "merge_check does not recurse into the selected counterpart with the child", where(mc, lp),
                  witness="a conflict two levels down raises after the first level was merged")
        if good:
            node_if = [n for n in lp.body if isinstance(n, ast.If) and rec[0] in list(ast.walk(n))]
            t = unparse(node_if[0].test) if node_if else ""
            mine = unparse(sel[0].targets[0])
            rep.check(t in ("%s is not None" % mine, mine), "SIB-2", "recursion guarded only by `mine is not None`", t,
                      "the recursive check is guarded by `%s`" % t, where(mc, lp))
    sec_tested = _attr_pair_tests(mc, me, src)
    rep.check({"definition", "reference"} <= sec_tested, "SIB-2", "Section.merge_check tests definition and reference", str(sorted(sec_tested)),
              "Section.merge_check no longer tests %s" % sorted({"definition", "reference"} - sec_tested), mc.where,
              witness="strict merge of Sections with conflicting definition/reference succeeds")
    pm = prog.func("property.BaseProperty.merge")
    pc = prog.func("property.BaseProperty.merge_check")
    rep.saw_function(pc)
    copied = set()
    for n in walk_no_nested(pm.node):
        if isinstance(n, ast.Assign) and len(n.targets) == 1 and isinstance(n.targets[0], ast.Attribute) \
                and unparse(n.targets[0].value) == pm.params[0] and isinstance(n.value, ast.Attribute) \
                and unparse(n.value.value) == pm.params[1]:
            copied.add(n.targets[0].attr)
    rep.check(copied == set(PROP_COPIED), "SIB-2", "Property.merge copies the documented attributes", str(sorted(copied)),
              "Property.merge copies %s, documented: %s" % (sorted(copied), sorted(PROP_COPIED)), pm.where,
              witness="an unset definition/reference/unit/uncertainty/value_origin is not filled from the source")
    tested = _attr_pair_tests(pc, pc.params[0], pc.params[1])
    need = copied | {"dtype"}
    rep.check(need <= tested, "SIB-2", "Property.merge_check tests every copied attribute + dtype", str(sorted(tested)),
              "Property.merge_check does not test %s under strict although merge handles them" % sorted(need - tested), pc.where,
              witness="strict merge with conflicting %s does not raise" % sorted(need - tested))
    # the strict tests come after `if not strict: return`, the value test before it
    g = S.cfg(pc)
    ret = [n for n in g.nodes if n.kind == "branch" and unparse(n.ast.test) in ("not strict", "strict")]
    rep.check(len(ret) == 1, "SIB-2", "Property.merge_check separates strict tests with one `if not strict`", "ok",
              "expected exactly one strict switch in Property.merge_check", pc.where)
    vt = [n for n in g.nodes if n.kind == "branch" and "_validate_values" in unparse(n.ast.test)]
    rep.check(len(vt) == 1 and ret and g.dominates(vt[0], ret[0]), "SIB-2", "value convertibility is checked regardless of strict", "ok",
              "the value convertibility test does not precede the strict switch", pc.where,
              witness="non-strict merge with unconvertible source values raises after attributes were filled")

    # ---------------------------------------------------------------- FILL-1
    rep.rule("FILL-1", "every `self.X = <source>.X` store in the two merge functions is control dependent on exactly "
                       "`self.X is None and <source>.X is not None`")
    n_fill = 0
    for qn in ("section.BaseSection.merge", "property.BaseProperty.merge"):
        f = prog.func(qn)
        me, src = f.params[0], f.params[1]
        for n in walk_no_nested(f.node):
            if isinstance(n, ast.If):
                for st in n.body:
                    if isinstance(st, ast.Assign) and len(st.targets) == 1 and isinstance(st.targets[0], ast.Attribute) \
                            and unparse(st.targets[0].value) == me and isinstance(st.value, ast.Attribute) \
                            and unparse(st.value.value) == src:
                        x = st.targets[0].attr
                        n_fill += 1
                        want = "%s.%s is None and %s.%s is not None" % (me, x, src, x)
                        atoms = set(unparse(v) for v in n.test.values) if isinstance(n.test, ast.BoolOp) and \
                            isinstance(n.test.op, ast.And) else set([unparse(n.test)])
                        good = atoms == set(want.split(" and ")) and st.value.attr == x and not n.orelse
                        rep.check(good, "FILL-1", "%s: fill %s" % (f.short, x), want,
                                  "attribute %s is copied under `%s` (expected `%s`) from %s" % (x, unparse(n.test), want, unparse(st.value)),
                                  where(f, n), witness="a set %s of the destination (e.g. a falsy but set value such as uncertainty 0) is overwritten, "
                                  "or an unset one is not filled" % x)
        # no unguarded attribute copy
        for st in f.node.body:
            if isinstance(st, ast.Assign) and isinstance(st.targets[0], ast.Attribute) and unparse(st.targets[0].value) == me \
                    and isinstance(st.value, ast.Attribute) and unparse(st.value.value) == src:
                rep.fail("FILL-1", "%s|unguarded|%s" % (f.short, st.targets[0].attr),
                         "attribute %s is copied unconditionally" % st.targets[0].attr, where(f, st))
    rep.floor("FILL-1", n_fill, 7, "guarded attribute fills")

    # ------------------------------------------------------------ shared rules
    strict_forwarded(prog, rep, "FWD-1")
    pure_footprint(prog, rep, S, ["section.BaseSection.merge", "property.BaseProperty.merge"], "PURE-1")
    merge_adds_clones(prog, rep, S, "ALIAS-4")

    # ----------------------------------------------------------------- SEL-1
    rep.rule("SEL-1", "the selector that decides a source child is missing (contains(): compares which attributes?) must imply "
                      "the precondition of SmartList.append (name not in list): comparing more than the name makes the add "
                      "raise KeyError after earlier children were merged, which merge_check does not foresee")
    for qn, kind in (("base.Sectionable.contains", "Section"), ("section.BaseSection.contains", "Property")):
        f = prog.func(qn)
        rep.saw_function(f)
        attrs = set()
        for n in walk_no_nested(f.node):
            if isinstance(n, ast.Compare) and isinstance(n.ops[0], ast.Eq) and isinstance(n.left, ast.Attribute) \
                    and isinstance(n.comparators[0], ast.Attribute) and n.left.attr == n.comparators[0].attr:
                attrs.add(n.left.attr)
        if not attrs:
            raise AnalysisError("cannot extract the attributes compared by %s" % qn)
        rep.check(attrs == {"name"}, "SEL-1", "%s|%s" % (f.short, "+".join(sorted(attrs))), "name only",
                  "%s matches %s children by %s but SmartList.append refuses on the name alone: a source child with a "
                  "used name and another type is neither merged nor addable" % (f.short, kind, sorted(attrs)), f.where,
                  witness="a.merge(b) with a/x[t1], b/first[t1], b/x[t2]: KeyError after 'first' was added")

    # ----------------------------------------------------------------- VAL-1
    rep.rule("VAL-1", "Property.merge extends with a selection of other.values; Property.merge_check validates "
                      "_convert_value_input(source.values) with the destination's _validate_values")
    ext = [c for c in calls_in(pm.node) if call_name(c) == "%s.extend" % pm.params[0]]
    good = len(ext) == 1 and isinstance(ext[0].args[0], ast.Name)
    src_ok = False
    if good:
        from ..astutil import local_assignments
        defs = local_assignments(pm.node, ext[0].args[0].id)
        src_ok = len(defs) == 1 and isinstance(defs[0], ast.ListComp) and \
            unparse(defs[0].generators[0].iter) == "%s.values" % pm.params[1] and unparse(defs[0].elt) == unparse(defs[0].generators[0].target)
    rep.check(good and src_ok, "VAL-1", "Property.merge extends with source values", "[v for v in other.values if ...]",
              "Property.merge does not extend with a plain selection of other.values", pm.where,
              witness="merged Property gains values the source does not have / misses some")
    cv = [c for c in calls_in(pc.node) if call_name(c) == "%s._convert_value_input" % pc.params[0]]
    good = len(cv) == 1 and unparse(cv[0].args[0]) == "%s.values" % pc.params[1]
    rep.check(good, "VAL-1", "Property.merge_check validates source.values", "ok",
              "merge_check validates something else than the source's values", pc.where)
    rep.assume("BaseObject.__eq__/SmartList semantics are as read (value level)")
