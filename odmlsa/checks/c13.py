"""C13 - merge is complete, conservative, all-or-nothing.

Decided (structural clauses): merge_check(source, strict) dominates the first write of
both merge functions; the check visits what the merge visits (same iteration, same
selector, full recursion, no early exit) and tests under strict every attribute the
merge copies (+ dtype); attributes are only filled when unset in the destination and
set in the source; strict is forwarded everywhere; the source tree is never written;
every source child is merged into its counterpart or cloned.
NOT decided: which values count as lacked, conversion of source values to the
destination dtype, normalisation used in the text comparisons.
"""
import ast
import re

from .. import analysis
from ..astutil import calls_in, call_name, where, atoms_of, is_selection_of
from ..cfg import build_cfg
from ..dataflow import private_closure
from ..logic import known, entails, reach_avoiding
from ..model import AnalysisError, unparse, walk_no_nested
from ..symtext import Expander, effect_calls
from .rules_merge import pure_footprint, strict_forwarded, merge_adds_clones

DECIDED = [
    "DOM-6 self.merge_check(source, strict) dominates every write of BaseSection.merge and BaseProperty.merge and is not caught",
    "SIB-2 merge_check visits what merge visits: same iteration and selector, recursion into every counterpart, no early exit; under strict it tests every attribute merge copies, plus dtype",
    "FILL-1 every attribute copy in merge is guarded by `self.X is None and other.X is not None` for the same X",
    "FWD-1 strict is forwarded unchanged through every recursive call and into extend",
    "PURE-1 the source tree is never written",
    "ALIAS-4 every source child is merged into its counterpart or cloned; only clones are added",
    "SEL-1 the selector deciding 'child is missing' implies the precondition of the add (name not yet used)",
    "VAL-2 the convertibility test behind merge_check (_validate_values) turns every conversion failure into a refusal (ValueError), whatever the converter raises",
    "VAL-1 the values merge passes to extend are the source values that merge_check validated",
    'FILL-1 converse: whether attribute X is filled depends on X of the two objects only (no elif chain / nested test over another attribute)',
]
NOT_DECIDED = ["which values count as lacked (equality of values)", "conversion of source values to the destination dtype",
               "text normalisation used for definition/reference/value_origin comparison"]

PROP_COPIED = ("value_origin", "uncertainty", "reference", "definition", "unit")


def _first_arg_is(call, name):
    return call.args and unparse(call.args[0]) == name


def _xatoms(g, node, x):
    out = []
    for test, pol, br in g.dominating_conditions(node):
        if pol in ("true", "false"):
            for t, p in atoms_of(x.expand(test, br), pol == "true"):
                out.append((t, p, br))
    return out


def _attr_pair_tests(prog, func, strict_param=None):
    """attributes X such that some raise of func - or of a private helper it calls with (self, <source>) - is reachable only
    through a condition whose expanded text mentions both <self>.X and <source>.X."""
    out = set()
    for h in private_closure(func):
        if len(h.params) < 2 and h is not func:
            continue
        g = build_cfg(h)
        x = Expander(h, g)
        me = h.params[0]
        others = [p for p in h.params[1:]]
        for n in g.nodes:
            if n.kind != "raise":
                continue
            txt = " ; ".join(t for t, p, _ in _xatoms(g, n, x))
            for m in re.finditer(r"(?<![\w.])%s\.(\w+)" % re.escape(me), txt):
                a = m.group(1)
                if any(re.search(r"(?<![\w.])%s\.%s\b" % (re.escape(o), re.escape(a)), txt) for o in others):
                    out.add(a)
    return out


def sib2_section_rule(prog, rep, rule="SIB-2"):
    """BaseSection.merge_check visits every pair merge() visits, whatever `strict` is (shared with C06, where it is the
    obligation of the MERGE-REC contract)."""
    mc = prog.func("section.BaseSection.merge_check")
    rep.saw_function(mc)
    me, src = mc.params[0], mc.params[1]
    g = build_cfg(mc)
    x = Expander(mc, g)
    loops = [n for n in g.nodes if n.kind == "for" and x.text(n.ast.iter, n) == src]
    rep.check(len(loops) == 1, rule, "Section.merge_check iterates the source", "for obj in %s" % src,
              "merge_check does not iterate the source Section once", mc.where, witness="conflicts below the top level are not found")
    for lp in loops:
        child = "EACH(%s)" % src
        mine = "%s.contains(%s)" % (me, child)
        escapes = [n for n in ast.walk(lp.ast) if isinstance(n, (ast.Return, ast.Break))]
        rep.check(not escapes, rule, "Section.merge_check loop has no early exit", "ok",
                  "the checking loop leaves early (%s): later siblings are never checked although merge handles them"
                  % ", ".join(type(e).__name__.lower() for e in escapes), where(mc, escapes[0]) if escapes else mc.where,
                  witness="strict merge where a source-only child precedes the conflicting child: ValueError after partial merge")
        recs = [e for e in effect_calls(prog, mc, lambda c: isinstance(c.func, ast.Attribute) and c.func.attr == "merge_check")
                if g.dominates(lp, e.node) and e.node.id != lp.id]
        good = len(recs) == 1 and unparse(recs[0].call.func.value) == mine and [unparse(a0) for a0 in recs[0].call.args][:1] == [child]
        rep.check(good, rule, "Section.merge_check recurses into the counterpart", "self.contains(obj).merge_check(obj, strict)",
                  "merge_check does not recurse into self.contains(<child>) with the child: %s" % [unparse(e.call)[:80] for e in recs], where(mc, lp.ast),
                  witness="a conflict two levels down raises after the first level was merged")
        if good:
            rn = recs[0].node

            def clm(leaf, br, x=x, mine=mine):
                t = x.text(leaf, br)
                if t == "%s is None" % mine:
                    return "NONE"
                if t == mine:
                    return "SOME"
                return None

            def edge_ok(s0, kind, dst, rn=rn):
                if dst.id == rn.id:
                    return True
                return s0.kind == "branch" and kind in ("true", "false") and \
                    entails(s0.ast.test, kind == "true", lambda lf, s0=s0: clm(lf, s0), lambda a0: a0["NONE"] or not a0["SOME"], ["NONE", "SOME"])
            body_entry = [m for k, m in lp.succ if k == "iter"]
            skipped = any(reach_avoiding(g, m, lp, edge_ok, skip_kinds=("exc",)) for m in body_entry if m.id != rn.id)
            rep.check(not skipped, rule, "recursion guarded only by `mine is not None`", "every iteration that skips the recursion knows there is no counterpart",
                      "an iteration of the checking loop can skip the recursive check although a counterpart exists", where(mc, lp.ast),
                      witness="strict merge: a conflict in a child that has a counterpart is not found before merging starts")
    # the checking loop is reached on every normal path (no early return before it, e.g. for strict=False)
    for lp in loops:
        skipped = reach_avoiding(g, g.entry, g.exit, lambda s0, k0, d0, lp=lp: d0.id == lp.id, skip_kinds=("exc",))
        rep.check(not skipped, rule, "Section.merge_check always walks the children", "the loop over the source lies on every normal path",
                  "merge_check can return without walking the children of the source (e.g. when strict is off): conflicts and "
                  "unconvertible values below are found only after merging has started", mc.where,
                  witness="non-strict merge (or link resolution) with an unconvertible Property value in a shared sub-Section: ValueError after partial merge")
    return mc


def run(prog, rep):
    rep.decided = DECIDED
    rep.not_decided = NOT_DECIDED
    an = analysis.get(prog)
    S = an.s
    an.note_coverage(rep)

    # ----------------------------------------------------------------- DOM-6
    rep.rule("DOM-6", "in both merge functions the call self.merge_check(<source parameter>, strict) dominates every CFG node "
                      "that contributes a visible write (except the `section is None` delegation to the link/include setters) "
                      "and does not sit inside a try block")
    for qn in ("section.BaseSection.merge", "property.BaseProperty.merge"):
        f = prog.func(qn)
        rep.saw_function(f)
        g = S.cfg(f)
        me, src = f.params[0], f.params[1]
        checks = []
        for node in g.nodes:
            for r in node.expr_roots():
                for c in calls_in(r):
                    if call_name(c) == "%s.merge_check" % me:
                        checks.append((node, c))
        good = len(checks) == 1 and _first_arg_is(checks[0][1], src)
        rep.check(good, "DOM-6", "%s calls self.merge_check(%s, strict) once" % (f.short, src), "ok",
                  "%s does not call self.merge_check(%s, ...) exactly once" % (f.short, src), f.where,
                  witness="a conflict raises after part of the destination was changed")
        if not good:
            continue
        cn, cc = checks[0]
        from ..cfg import enclosing_handlers
        rep.check(not enclosing_handlers(g, cn), "DOM-6", "%s: merge_check is not inside a try" % f.short, "ok",
                  "the merge_check call sits inside a try block: its refusal may be swallowed", where(f, cc))
        n_w = 0
        for node in g.nodes:
            if node.id == cn.id or not g.reachable(node):
                continue
            ws = [w for w in S.node_writes(f, node) if w.visible()]
            if not ws:
                continue
            conds = [(unparse(t), pol) for t, pol, _ in g.dominating_conditions(node)]
            if ("%s is None" % src, "true") in conds:
                continue      # delegation: merge() without argument re-assigns link/include
            n_w += 1
            rep.check(g.dominates(cn, node), "DOM-6", "%s: write at `%s`" % (f.short, unparse(node.ast).split("\n")[0][:40]),
                      "dominated by merge_check", "a write (%s) can happen before merge_check ran" % repr(ws[0]), where(f, node.ast),
                      witness="strict merge with a conflict in a later sibling: earlier changes stay")
        rep.floor("DOM-6", n_w, 2, "write nodes in %s" % f.short)

    # ----------------------------------------------------------------- SIB-2
    rep.rule("SIB-2", "BaseSection.merge_check: `for obj in <source>`: mine = self.contains(obj); if mine is not None: "
                      "mine.merge_check(obj, strict) - no return/break/continue in the loop; BaseProperty.merge_check tests "
                      "under strict {dtype} + every attribute BaseProperty.merge copies; BaseSection.merge_check tests "
                      "{definition, reference}")
    mc = sib2_section_rule(prog, rep, "SIB-2")
    me, src = mc.params[0], mc.params[1]
    sec_tested = _attr_pair_tests(prog, mc)
    rep.check({"definition", "reference"} <= sec_tested, "SIB-2", "Section.merge_check tests definition and reference", str(sorted(sec_tested)),
              "Section.merge_check no longer tests %s" % sorted({"definition", "reference"} - sec_tested), mc.where,
              witness="strict merge of Sections with conflicting definition/reference succeeds")
    pm = prog.func("property.BaseProperty.merge")
    pc = prog.func("property.BaseProperty.merge_check")
    rep.saw_function(pc)
    copied = set()
    pmg = build_cfg(pm)
    pmx = Expander(pm, pmg)
    for n0 in pmg.nodes:
        n = n0.ast
        if n0.kind == "stmt" and isinstance(n, ast.Assign) and len(n.targets) == 1 and isinstance(n.targets[0], ast.Attribute) \
                and unparse(n.targets[0].value) == pm.params[0]:
            v = pmx.expand(n.value, n0)
            if isinstance(v, ast.Attribute) and unparse(v.value) == pm.params[1]:
                copied.add(n.targets[0].attr)
    rep.check(copied == set(PROP_COPIED), "SIB-2", "Property.merge copies the documented attributes", str(sorted(copied)),
              "Property.merge copies %s, documented: %s" % (sorted(copied), sorted(PROP_COPIED)), pm.where,
              witness="an unset definition/reference/unit/uncertainty/value_origin is not filled from the source")
    tested = _attr_pair_tests(prog, pc, strict_param="strict")
    need = copied | {"dtype"}
    rep.check(need <= tested, "SIB-2", "Property.merge_check tests every copied attribute + dtype", str(sorted(tested)),
              "Property.merge_check does not test %s under strict although merge handles them" % sorted(need - tested), pc.where,
              witness="strict merge with conflicting %s does not raise" % sorted(need - tested))
    # unit, dtype and uncertainty are compared as they are (no normalisation: mV and MV are different units)
    pgx = build_cfg(pc)
    exact = set()
    for h in private_closure(pc):
        hg = build_cfg(h)
        hx = Expander(h, hg, inline=prog)
        others = h.params[1:]
        for n in hg.nodes:
            if n.kind != "raise":
                continue
            for t, p, _ in _xatoms(hg, n, hx):
                for a0 in ("unit", "dtype", "uncertainty"):
                    for o in others:
                        if not p and t in ("%s.%s == %s.%s" % (h.params[0], a0, o, a0), "%s.%s == %s.%s" % (o, a0, h.params[0], a0)):
                            exact.add(a0)
    rep.check(exact == set(["unit", "dtype", "uncertainty"]), "SIB-2", "unit, dtype and uncertainty conflicts are decided on the raw values", str(sorted(exact)),
              "Property.merge_check does not compare %s of source and destination directly (a normalised comparison lets different "
              "values pass as equal)" % sorted(set(["unit", "dtype", "uncertainty"]) - exact), pc.where,
              witness="strict merge of a Property in mV with one in MV succeeds and mixes the values")
    # the value convertibility refusal is reachable whatever `strict` is
    pg = build_cfg(pc)
    px = Expander(pc, pg)
    vt = [n for n in pg.nodes if n.kind == "raise" and any("_validate_values(" in t and not p for t, p in
                                                           [(tt, pp) for tt, pp, _ in _xatoms(pg, n, px)])]
    if not vt:
        # the refusal sits in a private helper that merge_check calls (`self._require_convertible(values, "merge")`): judged at the call
        for h in private_closure(pc):
            if h is pc:
                continue
            hg = build_cfg(h)
            hx = Expander(h, hg)
            if any(n.kind == "raise" and any("_validate_values(" in t and not p for t, p, _ in _xatoms(hg, n, hx)) for n in hg.nodes):
                vt += [n for n in pg.nodes if any(isinstance(c.func, ast.Attribute) and c.func.attr == h.name for r in n.expr_roots() for c in calls_in(r))]
    indep = bool(vt) and all(not any(t == "strict" for t, p, _ in _xatoms(pg, n, px)) for n in vt)
    # ... and whatever the destination holds: an empty destination with a dtype converts the source values just the same
    for n in vt:
        extra = [t for t, p, _ in _xatoms(pg, n, px) if "_validate_values(" not in t and not t.startswith("isinstance(")]
        rep.check(not extra, "SIB-2", "value convertibility is checked for every destination", "unconditional",
                  "Property.merge_check tests the convertibility of the source values only if {%s}: for the other destinations the refusal comes "
                  "from extend() in the middle of the merge, after attributes were filled" % ", ".join(extra), where(pc, n.ast),
                  witness="non strict merge of ['unknown'] into an empty Property of dtype int: unit and definition are copied, then ValueError")
    rep.check(indep, "SIB-2", "value convertibility is checked regardless of strict", "ok",
              "the value convertibility refusal of Property.merge_check depends on `strict` (or vanished)", pc.where,
              witness="non-strict merge with unconvertible source values raises after attributes were filled")

    # ---------------------------------------------------------------- FILL-1
    rep.rule("FILL-1", "every `self.X = <source>.X` store in the two merge functions is control dependent on exactly "
                       "`self.X is None and <source>.X is not None`")
    n_fill = 0
    for qn in ("section.BaseSection.merge", "property.BaseProperty.merge"):
        f = prog.func(qn)
        me, src = f.params[0], f.params[1]
        g = build_cfg(f)
        x = Expander(f, g)
        for n in g.nodes:
            st = n.ast
            if not (n.kind == "stmt" and isinstance(st, ast.Assign) and len(st.targets) == 1 and isinstance(st.targets[0], ast.Attribute)
                    and unparse(st.targets[0].value) == me):
                continue
            vt = x.text(st.value, n)
            if not vt.startswith("%s." % src) or "(" in vt:
                continue
            attr = st.targets[0].attr
            n_fill += 1

            def clf(leaf, br, x=x, me=me, src=src, attr=attr):
                t = x.text(leaf, br)
                if t == "%s.%s is None" % (me, attr):
                    return "MINE_UNSET"
                if t == "%s.%s is None" % (src, attr):
                    return "THEIRS_UNSET"
                return None
            good = vt == "%s.%s" % (src, attr) and known(g, n, clf, lambda a0: a0["MINE_UNSET"], ["MINE_UNSET"], with_node=True) \
                and known(g, n, clf, lambda a0: not a0["THEIRS_UNSET"], ["THEIRS_UNSET"], with_node=True)
            rep.check(good, "FILL-1", "%s: fill %s" % (f.short, attr), "%s.%s is None and %s.%s is not None" % (me, attr, src, attr),
                      "attribute %s is copied from %s on a path that does not know (%s.%s is None and %s.%s is not None)" % (attr, vt, me, attr, src, attr),
                      where(f, st), witness="a set %s of the destination (e.g. a falsy but set value such as uncertainty 0) is overwritten, "
                      "or an unset one is not filled" % attr)
            # ... and on nothing else of the two objects: a fill of X that also asks about another attribute Y (an `elif` chain, a nested test)
            # leaves X unset for some pairs although the source has a value
            others = []
            for test, pol, br in g.dominating_conditions(n):
                if pol not in ("true", "false"):
                    continue
                for leaf in ast.walk(x.expand(test, br)):
                    if isinstance(leaf, ast.Attribute) and isinstance(leaf.value, ast.Name) and leaf.value.id in (me, src) and leaf.attr != attr \
                            and leaf.attr.lstrip("_") != attr.lstrip("_") and not leaf.attr.startswith("__"):
                        others.append("%s.%s" % (leaf.value.id, leaf.attr))
            rep.check(not others, "FILL-1", "%s: fill %s depends on %s only" % (f.short, attr, attr), "no other attribute decides",
                      "whether %s is filled also depends on %s: for some pairs the destination keeps an unset %s although the source has one"
                      % (attr, sorted(set(others)), attr), where(f, st),
                      witness="destination without %s and without %s, source with both: only the first is taken over" % (attr, sorted(set(others))[0].split(".")[-1] if others else "?"))
    rep.floor("FILL-1", n_fill, 7, "guarded attribute fills")

    # ------------------------------------------------------------ shared rules
    from ..report import import_verdicts
    import_verdicts(prog, rep, "C05", ("OWN-3", "RET-1"), "CLONE-V",
                    "merge adds clones of the source Properties: clone() hands the stored values to the values setter of the copy (the only writer "
                    "of _values that also re-imports n-tuple values); a clone that fills _values itself raises for tuple dtypes in the middle of a "
                    "merge. The converters merge relies on for non strict merges return normal forms (RET-1)")
    import_verdicts(prog, rep, "C11", ("DIRECT-1",), "CHILD-I",
                    "merge finds the destination counterpart of a source child with contains() and adds clone()s of the children the destination "
                    "lacks: both must work on direct children only")
    strict_forwarded(prog, rep, "FWD-1")
    pure_footprint(prog, rep, S, ["section.BaseSection.merge", "property.BaseProperty.merge"], "PURE-1")
    merge_adds_clones(prog, rep, S, "ALIAS-4")

    # ----------------------------------------------------------------- SEL-1
    rep.rule("SEL-1", "the selector that decides a source child is missing (contains(): compares which attributes?) must imply "
                      "the precondition of SmartList.append (name not in list): comparing more than the name makes the add "
                      "raise KeyError after earlier children were merged, which merge_check does not foresee")
    for qn, kind in (("base.Sectionable.contains", "Section"), ("section.BaseSection.contains", "Property")):
        f = prog.func(qn)
        rep.saw_function(f)
        attrs = set()
        for n in walk_no_nested(f.node):
            if isinstance(n, ast.Compare) and isinstance(n.ops[0], ast.Eq) and isinstance(n.left, ast.Attribute) \
                    and isinstance(n.comparators[0], ast.Attribute) and n.left.attr == n.comparators[0].attr:
                attrs.add(n.left.attr)
        if not attrs:
            rep.fail("SEL-1", "%s|indirect" % f.short, "%s no longer compares attributes of the two objects directly (it delegates the "
                     "decision): the selector cannot be shown to agree with the name test of SmartList.append" % f.short, f.where,
                     witness="a child that merge() considers missing although append() refuses its name (or the reverse): KeyError after a partial merge")
            continue
        rep.check(attrs == {"name"}, "SEL-1", "%s|%s" % (f.short, "+".join(sorted(attrs))), "name only",
                  "%s matches %s children by %s but SmartList.append refuses on the name alone: a source child with a "
                  "used name and another type is neither merged nor addable" % (f.short, kind, sorted(attrs)), f.where,
                  witness="a.merge(b) with a/x[t1], b/first[t1], b/x[t2]: KeyError after 'first' was added")

    # ----------------------------------------------------------------- VAL-2
    rep.rule("VAL-2", "BaseProperty._validate_values converts each value with dtypes.get(value, self.dtype) inside try / except Exception: "
                      "return False - a converter failing with TypeError (int() of a date, strptime of a number) is a refusal like any other, "
                      "which merge_check reports as ValueError before anything was changed")
    from ..contracts import _validate_values_shape

    class _Holder(object):
        pass
    holder = _Holder()
    holder.an = analysis.get(prog)
    vv = prog.cls("BaseProperty").lookup_method("_validate_values")
    rep.saw_function(vv)
    rep.check(_validate_values_shape(holder), "VAL-2", "_validate_values catches every conversion failure", "try / except Exception",
              "_validate_values no longer converts under a catch-all handler that returns False: merge() of Properties with an unconvertible "
              "dtype pair leaks the converter's exception instead of the documented ValueError", vv.where,
              witness="int Property merged with a date Property: TypeError instead of ValueError")

    # ----------------------------------------------------------------- VAL-1
    rep.rule("VAL-1", "Property.merge extends with a selection of other.values; Property.merge_check validates "
                      "_convert_value_input(source.values) with the destination's _validate_values")
    ext = [c for c in calls_in(pm.node) if call_name(c) == "%s.extend" % pm.params[0]]
    good = len(ext) == 1 and bool(ext[0].args)
    src_ok = good and is_selection_of(pm.node, ext[0].args[0], "%s.values" % pm.params[1])
    rep.check(good and src_ok, "VAL-1", "Property.merge extends with source values", "[v for v in other.values if ...]",
              "Property.merge does not extend with a plain selection of other.values", pm.where,
              witness="merged Property gains values the source does not have / misses some")
    cv = [c for c in calls_in(pc.node) if call_name(c).split(".")[-1] == "_convert_value_input"]
    good = len(cv) == 1 and unparse(cv[0].args[0]) == "%s.values" % pc.params[1]
    rep.check(good, "VAL-1", "Property.merge_check validates source.values", "ok",
              "merge_check validates something else than the source's values", pc.where)
    rep.assume("BaseObject.__eq__/SmartList semantics are as read (value level)")
