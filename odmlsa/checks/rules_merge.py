"""Rules shared by C12 (link resolution) and C13 (merge)."""
import ast

from ..astutil import calls_in, call_name, where
from ..cfg import build_cfg
from ..model import AnalysisError, unparse, walk_no_nested

MERGE_FUNCS = ("section.BaseSection.merge", "property.BaseProperty.merge")
CHECK_FUNCS = ("section.BaseSection.merge_check", "property.BaseProperty.merge_check")
TERMINOLOGY_CACHE_FIELDS = ("loading", "self")   # Terminologies.loading dict / the Terminologies dict itself


def allowed_resolve_write(w):
    """PURE-1: receiver is the linking Section, one of its children, or the terminology cache."""
    r, t = w.origin
    if r == "P0" and t in ("", "child"):
        return True
    if r == "GLOBAL" and w.func.startswith("terminology.") and w.field in TERMINOLOGY_CACHE_FIELDS:
        return True
    if r == "FS" and w.func.startswith(("terminology.", "templates.")):
        return True
    return False


def pure_footprint(prog, rep, S, qualnames, rule="PURE-1"):
    rep.rule(rule, "transitive write summary of the resolving functions: every visible write has as receiver the "
                   "linking Section itself or one of its (descendant) children; none goes to the referenced Section "
                   "(parameter), to the parent chain, or to anything found by a path lookup; the only global/file effect "
                   "is the terminology cache (Terminologies table, its loading dict, the cache file)")
    for qn in qualnames:
        f = prog.func(qn)
        rep.saw_function(f)
        ws = S.visible_writes(f)
        if not ws:
            raise AnalysisError("%s has an empty write summary: effect analysis went blind" % qn)
        bad = [w for w in ws if not allowed_resolve_write(w)]
        if not bad:
            rep.ok(rule, "%s footprint" % f.short, "%d visible writes, all to self / own children / terminology cache" % len(ws), f.where)
        seen = set()
        for w in bad:
            key = "%s|%s/%s.%s" % (f.short, w.origin[0], w.origin[1], w.field)
            if key in seen:
                continue
            seen.add(key)
            what = {"up": "the parent chain / document", "reach": "an object found by path lookup or merge target",
                    "val": "an object stored in a field"}.get(w.origin[1], "")
            who = "parameter %s (the referenced object)" % w.origin[0] if w.origin[0] != "P0" else "self -> %s" % what
            rep.fail(rule, key, "%s writes %s.%s (%s) of %s: `%s` in %s%s"
                     % (f.short, w.origin[0], w.field, w.op, who, w.text, w.func, (" via " + " -> ".join(w.via[:4])) if w.via else ""),
                     "%s:%s" % (w.func, w.lineno), witness="resolve a link, then compare the referenced Section / the rest of the document")


def strict_forwarded(prog, rep, rule="FWD-1"):
    rep.rule(rule, "every recursive merge / merge_check / extend call inside the merge functions passes the caller's "
                   "`strict` parameter on unchanged; the link and include setters resolve with the literal strict=False")
    n = 0
    for qn in MERGE_FUNCS + CHECK_FUNCS:
        f = prog.func(qn)
        rep.saw_function(f)
        if "strict" not in f.params:
            raise AnalysisError("%s lost its strict parameter" % qn)
        for c in calls_in(f.node):
            if not isinstance(c.func, ast.Attribute) or c.func.attr not in ("merge", "merge_check", "extend"):
                continue
            # which callee parameters exist
            callees = [g for g in (prog.functions.get("odml.section.BaseSection." + c.func.attr),
                                   prog.functions.get("odml.property.BaseProperty." + c.func.attr)) if g is not None]
            takes = [g for g in callees if "strict" in g.params]
            if not takes:
                continue
            if c.func.attr == "extend" and unparse(c.func.value) != f.params[0]:
                continue
            n += 1
            passed = None
            for kwd in c.keywords:
                if kwd.arg == "strict":
                    passed = kwd.value
            if passed is None:
                idx = takes[0].params.index("strict") - 1
                if len(c.args) > idx:
                    passed = c.args[idx]
            good = isinstance(passed, ast.Name) and passed.id == "strict"
            rep.check(good, rule, "%s: %s" % (f.short, unparse(c)[:50]), "strict forwarded",
                      "%s calls %s without forwarding its strict parameter (%s): nested levels run with the default strict=True"
                      % (f.short, unparse(c)[:60], unparse(passed) if passed is not None else "omitted"), where(f, c),
                      witness="non-strict merge / link resolution with a conflicting same-named child below the top level")
    rep.floor(rule, n, 4, "strict-taking recursive calls")
    for qn in ("section.BaseSection.link.setter", "section.BaseSection.include.setter"):
        f = prog.func(qn)
        cs = [c for c in calls_in(f.node) if call_name(c) == "%s.merge" % f.params[0]]
        if not cs:
            # the tail shared by the two setters may live in a private helper (whose self is the setter's self)
            from ..symtext import effect_calls
            cs = [e.call for e in effect_calls(prog, f, lambda c: isinstance(c.func, ast.Attribute) and c.func.attr == "merge"
                                               and isinstance(c.func.value, ast.Name) and c.func.value.id in ("self", f.params[0]))]
        good = len(cs) == 1 and any(k.arg == "strict" and isinstance(k.value, ast.Constant) and k.value.value is False for k in cs[0].keywords)
        rep.check(good, rule, "%s resolves with strict=False" % f.short, "ok",
                  "%s does not call self.merge(target, strict=False) exactly once" % f.short, f.where,
                  witness="finalize() fails on any attribute difference between a linking Section's child and the target's")


def merge_adds_clones(prog, rep, S, rule="ALIAS-4"):
    rep.rule(rule, "in BaseSection.merge the object appended to the destination is a fresh clone of the source child on every "
                   "path (never the source child itself), the append sits in the branch where self.contains(child) found "
                   "nothing, and the loop body has no other way out (every source child is either merged into its "
                   "counterpart or cloned)")
    from ..symtext import effect_calls
    f = prog.func("section.BaseSection.merge")
    g = S.cfg(f)
    me = f.params[0]
    # adds to the destination, read through the private helpers merge calls (their `self` is merge's self)
    appends = [e for e in effect_calls(prog, f, lambda c: isinstance(c.func, ast.Attribute) and c.func.attr in ("append", "insert", "extend"))
               if unparse(e.call.func.value) == me or unparse(e.call.func.value).startswith(me + "._")]
    rep.floor(rule, len(appends), 1, "append sites in BaseSection.merge")
    for e in appends:
        c = e.raw
        arg = c.args[-1]
        org = S.origin(arg, e.func, e.inner)
        good = bool(org) and all(o[0] == "FRESH" for o in org)
        rep.check(good, rule, "merge: %s" % unparse(c)[:40], "argument is a fresh clone",
                  "the object added to the destination is not (only) a fresh clone: origin %s" % sorted(org), where(e.func, c),
                  witness="after dest.merge(src) editing a child of dest changes src (or src's child changed parent)")
        atoms = e.guards()
        sel_ok = any(t0.endswith(" is None") and p0 for t0, p0 in atoms)
        rep.check(sel_ok, rule, "merge: append only for children without counterpart", str(atoms[-2:]),
                  "the clone is appended although a counterpart may exist (guards: %s)" % atoms, where(e.func, c),
                  witness="a child the destination already has is added a second time / refused with KeyError")
    loops = [n for n in walk_no_nested(f.node) if isinstance(n, ast.For)]
    rep.check(len(loops) == 1, rule, "merge: one loop over the source children", "ok", "expected exactly one loop over the source", f.where)
    for lp in loops:
        it_ok = isinstance(lp.iter, ast.Name) and lp.iter.id == f.params[1]
        rep.check(it_ok, rule, "merge iterates the source Section", unparse(lp.iter),
                  "merge iterates %s instead of the source Section: children are missed" % unparse(lp.iter), where(f, lp),
                  witness="properties or sub-sections of the source are not merged")
        escapes = [n for n in ast.walk(lp) if isinstance(n, (ast.Break, ast.Return))]
        rep.check(not escapes, rule, "merge loop has no early exit", "ok",
                  "the merge loop contains %s: some source children are skipped" % [type(e).__name__ for e in escapes], where(f, lp),
                  witness="a source child after the skipped position is missing in the destination")
        # every completed iteration merged the child into its counterpart or added a clone (whatever the branch layout: if/else, or
        # `if mine is not None: merge; continue` followed by the clone)
        from ..logic import reach_avoiding
        hd = [n for n in g.nodes if n.kind == "for" and n.ast is lp]
        sel_calls = [c for c in ast.walk(lp) if isinstance(c, ast.Call) and call_name(c) == "%s.contains" % f.params[0]
                     and len(c.args) == 1 and unparse(c.args[0]) == unparse(lp.target)]
        sel_names = set(st.targets[0].id for st in ast.walk(lp) if isinstance(st, ast.Assign) and len(st.targets) == 1
                        and isinstance(st.targets[0], ast.Name) and st.value in sel_calls)
        acts = set()
        for n in g.nodes:
            for r in n.expr_roots():
                for c in ast.walk(r):
                    if isinstance(c, ast.Call) and isinstance(c.func, ast.Attribute):
                        if c.func.attr == "merge" and isinstance(c.func.value, ast.Name) and c.func.value.id in sel_names:
                            acts.add(n.id)
                        if c.func.attr in ("append", "insert") and (unparse(c.func.value) == me or unparse(c.func.value).startswith(me + "._")):
                            acts.add(n.id)
                        if c.func.attr.startswith("_") and unparse(c.func.value) == me and any(a0.func is ap.func for ap in appends for a0 in [ap] if ap.node is n):
                            acts.add(n.id)
        for ap in appends:
            acts.add(ap.node.id)
        idle = False
        for h0 in hd:
            for k0, first in h0.succ:
                if k0 == "iter" and reach_avoiding(g, first, h0, lambda src, kind, dst: dst.id in acts or src.id in acts, skip_kinds=("exc",)) \
                        and first.id not in acts:
                    idle = True
        rep.check(bool(hd) and not idle, rule, "merge loop: every source child is merged or cloned", "each iteration passes a merge or an append",
                  "an iteration of the merge loop can finish without merging the child into its counterpart and without adding a clone", where(f, lp),
                  witness="a source child is silently left out of the destination")
        rep.check(bool(sel_calls), rule,
                  "merge selects the counterpart with self.contains(child)", "ok",
                  "the counterpart is not selected with self.contains(<loop variable>)", where(f, lp))
