"""LOOP-1: no parsed state is carried from one iteration (sibling element) to the next.

In a per-element loop of a reader/writer, a local that is assigned somewhere in the
loop body must, at every read inside the body, have been assigned earlier *in the
same iteration* on every path from the loop header.  Otherwise the value of the
previous sibling (or of the enclosing scope) leaks into the current element.
Self-accumulation (`x = x + ...`, `x += ...`) and the loop's own result containers
(never re-assigned inside the loop) are not affected.
"""
import ast

from ..astutil import where
from ..cfg import build_cfg
from ..dataflow import node_defs, node_uses
from ..model import unparse


def _body_nodes(g, header):
    """nodes of the loop body: reachable from the iter edge without passing the header."""
    seen = set()
    stack = list(header.out("iter"))
    while stack:
        n = stack.pop()
        if n.id in seen or n.id == header.id:
            continue
        seen.add(n.id)
        for k, m in n.succ:
            if k in ("exc",):
                continue
            if m.kind in ("exit", "raise_exit"):
                continue
            stack.append(m)
    # nodes after the loop are reachable via break/exhausted only through header or join;
    # restrict to nodes dominated by the header's iter successor
    first = header.out("iter")
    return [n for n in g.nodes if n.id in seen and first and g.dominates(first[0], n)]


def loop_carried_state(prog, rep, funcs, rule="LOOP-1"):
    rep.rule(rule, "in every per-element for-loop of the given functions, each local assigned in the loop "
                   "body is assigned in the current iteration before every read in the body "
                   "(no value leaks from the previous sibling element)")
    loops = 0
    for func in funcs:
        rep.saw_function(func)
        g = build_cfg(func)
        for header in [n for n in g.nodes if n.kind == "for"]:
            loops += 1
            body = _body_nodes(g, header)
            body_ids = set(n.id for n in body)
            assigned = {}
            for n in body:
                if n.kind == "for":
                    continue   # inner loop targets are re-bound by their own header each time
                for v in node_defs(n):
                    assigned.setdefault(v, []).append(n)
            loop_targets = set(x.id for x in ast.walk(header.ast.target) if isinstance(x, ast.Name))
            bad = []
            for var, defs in sorted(assigned.items()):
                if var in loop_targets:
                    continue
                def_ids = set(d.id for d in defs)
                # forward search from the iter successor, stopping at defs of var
                seen = set()
                stack = list(header.out("iter"))
                while stack:
                    n = stack.pop()
                    if n.id in seen or n.id not in body_ids:
                        continue
                    seen.add(n.id)
                    uses = node_uses(n)
                    if var in uses:
                        # self-accumulation: the read is part of var's own (re)definition
                        if n.id in def_ids and _self_accumulation(n, var):
                            pass
                        else:
                            bad.append((var, n))
                    if n.id in def_ids:
                        continue
                    for k, m in n.succ:
                        if k != "exc":
                            stack.append(m)
            # containers created before the loop, filled inside it and also read inside it (other than being filled): what one element put
            # there is still in it when the next element is read. Result accumulators are only ever filled in the body.
            for var, mut, rd in _carried_containers(g, header, body, assigned):
                bad.append((var, rd, "is created before the loop over %s, filled inside it and read at `%s`: what the previous element put into it is still there"))
            inst = "%s: for %s in %s" % (func.short, unparse(header.ast.target), unparse(header.ast.iter)[:40])
            if not bad:
                rep.ok(rule, inst, "%d locals assigned in the body, all initialised per iteration" % len(assigned),
                       where(func, header.ast))
            for item in bad:
                var, n = item[0], item[1]
                text = item[2] if len(item) > 2 else "is assigned inside the loop over %s but read at `%s` on a path where this iteration has not assigned it: " \
                                                     "the value of the previous element leaks in"
                rep.fail(rule, "%s|%s" % (func.short, var),
                         ("local '%s' " % var) + text % (unparse(header.ast.iter)[:40], unparse(n.ast).split("\n")[0][:60]),
                         where(func, n.ast),
                         witness="two sibling elements, the second lacking the sub-element that set '%s'" % var)
    return loops


_FILLING = ("append", "add", "update", "extend", "setdefault", "insert", "__setitem__")


def _carried_containers(g, header, body, assigned):
    """(name, filling node, reading node) for locals that are not (re)bound in the loop body, are filled in it (x[k] = v, x.append(v), ...)
    and are read in it by something other than such a filling statement"""
    fills, reads = {}, {}
    for n in body:
        st = n.ast
        if st is None or not isinstance(st, ast.AST):
            continue
        roots = [st] if n.kind == "stmt" else [getattr(st, "test", None)] if n.kind == "branch" else [getattr(st, "iter", None)] if n.kind == "for" else \
            [getattr(st, "value", None)] if n.kind == "return" else []
        filled_here = set()
        skip = set()
        for r in roots:
            if r is None:
                continue
            for x in ast.walk(r):
                if isinstance(x, ast.Subscript) and isinstance(x.ctx, ast.Store) and isinstance(x.value, ast.Name):
                    filled_here.add(x.value.id)
                    skip.add(id(x.value))
                elif isinstance(x, ast.Call) and isinstance(x.func, ast.Attribute) and x.func.attr in _FILLING and isinstance(x.func.value, ast.Name):
                    filled_here.add(x.func.value.id)
                    skip.add(id(x.func.value))
                elif isinstance(x, ast.Compare) and len(x.ops) == 1 and isinstance(x.ops[0], (ast.In, ast.NotIn)) and isinstance(x.comparators[0], ast.Name):
                    skip.add(id(x.comparators[0]))      # `k in seen`: a repeated-key test of the element's own accumulator hands no content on
            for x in ast.walk(r):
                if isinstance(x, ast.Name) and isinstance(x.ctx, ast.Load) and id(x) not in skip:
                    reads.setdefault(x.id, []).append(n)
        for v in filled_here:
            fills.setdefault(v, []).append(n)
    out = []
    for var in sorted(fills):
        if var in assigned or var not in reads:
            continue
        out.append((var, fills[var][0], reads[var][0]))
    return out


def _self_accumulation(node, var):
    st = node.ast
    if isinstance(st, ast.AugAssign) and isinstance(st.target, ast.Name) and st.target.id == var:
        return True
    if isinstance(st, ast.Assign) and any(isinstance(t, ast.Name) and t.id == var for t in st.targets):
        return True
    return False
