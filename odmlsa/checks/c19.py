"""C19 - validation observes only; custom rules stay private.

Decided: effect freedom of every registered rule and of the Validation driver (they
write nothing but the Validation's own error list and the id map threaded through
the unique-id rules); the class level default registry is written only by
register_handler, which nothing in the package calls at run time; reset=True always
shadows the registry on the instance before anything else can happen; every
register_custom_handler call site uses a receiver built with reset=True; a re-run
starts from an empty issue list.
NOT decided: iteration order of the handler sets across processes (the statement
compares multisets), user code calling register_handler itself.
"""
import ast

from .. import analysis
from ..cfg import build_cfg
from ..dataflow import private_closure, node_defs, node_uses
from ..logic import entails, reach_avoiding
from ..symtext import Expander
from ..astutil import calls_in, call_name, where, kw, local_assignments
from ..cfg import build_cfg
from ..dataflow import node_of_ast
from ..model import AnalysisError, FuncInfo, unparse, walk_no_nested

DECIDED = [
    "PURE-3 registered rules and the Validation driver write nothing but the issue list and the threaded id map",
    "OWN-7 the default registry Validation._handlers is written only inside register_handler; register_handler is called only at module level of validation.py",
    "TS-1 Validation(reset=True) shadows the registry with a fresh dict on every path; register_custom_handler writes through self; its call sites use receivers built with reset=True",
    "DET-1 no rule lets the iteration order of a set decide what it reports",
    "DET-2 no function of the validation module keeps state between calls in a mutable default argument",
    "PURE-4 every rule function defined in odml.validation - registered by default or offered for custom validations - writes nothing visible",
    "ORDER-4 (C18) load() after a background loader re-dispatches: a failed background load is retried instead of answered with None once",
    "CACHE-1 (shared with C18) a terminology enters the cache only after it was finalised (the terminology rules read that cache)",
    "RESET-1 run_validation empties the issue list before any rule runs and on every path",
]
NOT_DECIDED = ["set iteration order of handlers across processes (issues are compared as multisets)",
               "user code outside the package calling register_handler"]


def reset1_rule(prog, rep, rule="RESET-1"):
    """(shared with C08 and C09) a kept Validation object that is run again reports what a fresh one reports"""
    vcls = prog.cls("Validation")
    rep.rule(rule, "in Validation.run_validation the store self.errors = [] dominates every call of self.validate and every "
                        "normal exit, so validating the same object again reports the same collection of issues")
    rv = vcls.lookup_method("run_validation")
    g = build_cfg(rv)
    resets = [n for n in g.nodes if n.kind == "stmt" and isinstance(n.ast, ast.Assign)
              and any(unparse(t) == "%s.errors" % rv.params[0] for t in n.ast.targets)
              and isinstance(n.ast.value, ast.List) and not n.ast.value.elts]
    rep.check(len(resets) >= 1, rule, "run_validation resets the issue list", "self.errors = []",
              "run_validation no longer resets self.errors", rv.where)
    if resets:
        r0 = resets[0]
        for n in g.nodes:
            for root in n.expr_roots():
                for c in calls_in(root):
                    if call_name(c) in ("%s.validate" % rv.params[0], "%s.error" % rv.params[0]):
                        rep.check(g.dominates(r0, n) and n.id != r0.id, rule, "run_validation: %s after the reset" % unparse(c)[:40],
                                  "dominated by the reset", "%s can run before the issue list was reset: issues accumulate over "
                                  "repeated validations" % unparse(c)[:40], where(rv, c),
                                  witness="run_validation() twice on a Validation of a single Property")
        exits_ok = all(g.dominates(r0, p) for _, p in g.exit.pred)
        rep.check(exits_ok, rule, "every normal exit of run_validation passed the reset", "ok",
                  "run_validation can return without resetting the issue list", rv.where,
                  witness="report() on an unchanged object doubles the issues")
    rp = vcls.lookup_method("report")
    rep.check(any(call_name(c) == "%s.run_validation" % rp.params[0] for c in calls_in(rp.node)), rule,
              "report() re-validates through run_validation", "ok", "report() does not go through run_validation", rp.where)
    # ... on every path: a report of an object that was edited since the last run is the report of its current state
    from ..logic import reach_avoiding
    pg = build_cfg(rp)
    runs = set(n.id for n in pg.nodes if any(call_name(c) == "%s.run_validation" % rp.params[0] for r in n.expr_roots() for c in calls_in(r)))
    skipping = any(reach_avoiding(pg, pg.entry, p, lambda src, kind, dst: dst.id in runs, skip_kinds=("exc",)) for k0, p in pg.exit.pred if k0 != "exc")
    rep.check(not skipping, rule, "report() re-validates on every path", "ok",
              "report() can return without having called run_validation: the text describes the state at an earlier validation", rp.where,
              witness="validate an object with an issue, repair it, call report() again: the issue is still reported")
    # every issue a rule yields is recorded: error() appends its argument on every path, __init__ gives every Validation its own list
    er = vcls.lookup_method("error")
    if er is None:
        raise AnalysisError("Validation.error vanished")
    eg = build_cfg(er)
    me = er.params[0]
    apps = set(n.id for n in eg.nodes for r in n.expr_roots() for c in calls_in(r)
               if call_name(c) == "%s.errors.append" % me and len(c.args) == 1 and len(er.params) > 1 and unparse(c.args[0]) == er.params[1])
    dropping = not apps or any(reach_avoiding(eg, eg.entry, p, lambda src, kind, dst: dst.id in apps, skip_kinds=("exc",)) for k0, p in eg.exit.pred if k0 != "exc")
    rep.check(not dropping, rule, "error() records every issue it is given", "self.errors.append(<issue>) on every path",
              "Validation.error can return without appending the issue (a filter on what was recorded before): an issue of one object hides "
              "the same issue of another", er.where, witness="two look-alike Sections that both violate a cardinality: one warning")
    init = vcls.lookup_method("__init__")
    ig = build_cfg(init)
    fresh = set(n.id for n in ig.nodes if n.kind == "stmt" and isinstance(n.ast, ast.Assign)
                and any(unparse(t) == "%s.errors" % init.params[0] for t in n.ast.targets)
                and ((isinstance(n.ast.value, ast.List) and not n.ast.value.elts) or (isinstance(n.ast.value, ast.Call) and call_name(n.ast.value) == "list" and not n.ast.value.args)))
    runs_i = set(n.id for n in ig.nodes if any(call_name(c) == "%s.run_validation" % init.params[0] for r in n.expr_roots() for c in calls_in(r)))
    shared = any(reach_avoiding(ig, ig.entry, p, lambda src, kind, dst: dst.id in fresh or dst.id in runs_i, skip_kinds=("exc",))
                 for k0, p in ig.exit.pred if k0 != "exc")
    rep.check(not shared, rule, "every Validation owns its issue list", "self.errors = [] (or a run) on every path of __init__",
              "Validation.__init__ can finish without binding self.errors: the instance appends to a list shared through the class", init.where,
              witness="Validation(a, validate=False).validate(a); Validation(b, validate=False).errors already holds a's issues")


def run(prog, rep):
    rep.decided = DECIDED
    rep.not_decided = NOT_DECIDED
    table_readers_rule(prog, rep, "OWN-T")
    an = analysis.get(prog)
    S = an.s
    an.note_coverage(rep)
    default, custom = an.k.registry()
    handlers = []
    for kind, lst in sorted(default.items()):
        for h in lst:
            if h not in handlers:
                handlers.append(h)
    n_reg = sum(len(v) for v in default.values())
    rep.floor("PURE-3", len(handlers), 10, "registered default handlers")
    rep.floor("PURE-3", n_reg, 14, "register_handler registrations")
    for _, _, h in custom:
        if h not in handlers:
            handlers.append(h)

    # ---------------------------------------------------------------- PURE-3
    rep.rule("PURE-3", "transitive write summary (through resolved calls, property setters and special methods) of every "
                       "function registered with register_handler/register_custom_handler: no write whose receiver originates "
                       "from the validated object (parameter 0, any depth), no global write, no file write; allowed: the dict "
                       "parameter id_map of the unique-id rules. Validation.run_validation/validate/report/error/__getitem__ "
                       "write only self.errors")
    for h in handlers:
        rep.saw_function(h)
        bad = []
        for w in S.visible_writes(h):
            if w.origin[0] == "P0":
                bad.append(w)
            elif w.origin[0] in ("GLOBAL", "FS", "UNK"):
                bad.append(w)
            elif w.origin[0].startswith("P") and not (w.kind == "list" and w.field == "id_map"):
                bad.append(w)
        if not bad:
            rep.ok("PURE-3", "%s writes nothing visible" % h.short,
                   "%d transitive writes, none to the validated object" % len(S.writes(h)), h.where)
        for w in bad[:4]:
            rep.fail("PURE-3", "%s|%s.%s" % (h.short, w.origin[0], w.field),
                     "rule %s writes %s (%s) of %s: `%s` in %s%s" % (h.short, w.field, w.op,
                                                                     "the validated object" if w.origin[0] == "P0" else w.origin[0],
                                                                     w.text, w.func, (" via " + " -> ".join(w.via)) if w.via else ""),
                     "%s:%s" % (w.func, w.lineno), witness="validate a document twice / compare the document before and after")
    # ---------------------------------------------------------------- PURE-4
    rep.rule("PURE-4", "every public generator function of odml.validation that takes the validated object as its first parameter (the rules "
                       "a custom Validation may register, whether or not they are default rules) has no write whose receiver originates "
                       "from that object; the terminology cache (a global of odml.terminology) is not part of any document")
    n_off = 0
    for name, h in sorted(prog.module_of("validation").functions.items()):
        if name.startswith("_") or not h.is_generator or not h.params or h in handlers:
            continue
        n_off += 1
        rep.saw_function(h)
        bad = [w for w in S.visible_writes(h) if w.origin[0] == "P0"]
        rep.check(not bad, "PURE-4", "%s does not write the validated object" % h.short, "ok",
                  "rule %s writes %s of the validated object: `%s` in %s%s" % (
                      h.short, bad[0].field if bad else "", bad[0].text if bad else "", bad[0].func if bad else "",
                      (" via " + " -> ".join(bad[0].via)) if bad and bad[0].via else ""),
                  ("%s:%s" % (bad[0].func, bad[0].lineno)) if bad else h.where,
                  witness="register the rule on Validation(reset=True), run it, compare the document before and after")
    rep.floor("PURE-4", n_off, 1, "rule functions offered for custom validations")
    vcls = prog.cls("Validation")
    for name in ("run_validation", "validate", "report", "error", "__getitem__"):
        f = vcls.lookup_method(name)
        if f is None:
            raise AnalysisError("Validation.%s vanished" % name)
        rep.saw_function(f)
        bad = [w for w in S.visible_writes(f) if not (w.origin == ("P0", "") and w.field == "errors")]
        rep.check(not bad, "PURE-3", "Validation.%s writes only self.errors" % name, "ok",
                  "Validation.%s writes %s" % (name, [repr(w) for w in bad[:3]]), f.where,
                  witness="validating changes the validated objects or shared state")

    # the entry points on the model objects: obj.validate() returns a Validation and leaves obj as it was; Validation.__init__ writes
    # its own attributes only (parameter 1 is the validated object)
    n_entry = 0
    for c in prog.classes.values():
        if not c.module.name.startswith("odml") or c is vcls:
            continue
        f = c.methods.get("validate")
        if f is None:
            continue
        n_entry += 1
        rep.saw_function(f)
        bad = [w for w in S.visible_writes(f) if w.origin[0] in ("P0", "GLOBAL", "FS")]
        rep.check(not bad, "PURE-3", "%s writes nothing visible" % f.short, "ok",
                  "%s writes %s of the object it validates: `%s` in %s%s" % (
                      f.short, bad[0].field if bad else "", bad[0].text if bad else "", bad[0].func if bad else "",
                      (" via " + " -> ".join(bad[0].via)) if bad and bad[0].via else ""),
                  ("%s:%s" % (bad[0].func, bad[0].lineno)) if bad else f.where,
                  witness="doc.validate() on a document with links: the document has other children afterwards")
    rep.floor("PURE-3", n_entry, 1, "validate() entry points on model classes")
    vi = vcls.lookup_method("__init__")
    bad = [w for w in S.visible_writes(vi) if w.origin[0] in ("GLOBAL", "FS") or (w.origin[0].startswith("P") and w.origin[0] != "P0")]
    rep.check(not bad, "PURE-3", "Validation.__init__ writes only the Validation", "ok",
              "Validation.__init__ writes %s" % [repr(w) for w in bad[:3]], vi.where, witness="constructing a Validation changes the validated object")

    # ----------------------------------------------------------------- OWN-7
    rep.rule("OWN-7", "primitive writes to the class attribute Validation._handlers occur only in Validation.register_handler; "
                      "no function of the package calls register_handler (it runs at import of validation.py only); "
                      "handler lookups in validate() go through self._handlers")
    rh = vcls.lookup_method("register_handler")
    if rh is None:
        raise AnalysisError("Validation.register_handler vanished")
    writers = set()
    for f in prog.all_functions():
        for n in walk_no_nested(f.node):
            # any mention of Validation._handlers / cls._handlers that is not a plain read through self
            if isinstance(n, ast.Attribute) and n.attr == "_handlers":
                base = unparse(n.value)
                if base in ("Validation", "validation.Validation", "cls", "type(self)", "self.__class__"):
                    writers.add((f, n))
    for f, n in writers:
        rep.check(f is rh, "OWN-7", "%s touches the class registry" % f.short, "register_handler only",
                  "%s accesses the class level registry Validation._handlers directly" % f.short, where(f, n),
                  witness="a default validation afterwards runs different rules")
    rep.check(any(f is rh for f, _ in writers), "OWN-7", "register_handler writes the class registry", "ok",
              "register_handler no longer writes Validation._handlers", rh.where)
    callers = []
    for f in prog.all_functions():
        for c in calls_in(f.node):
            if isinstance(c.func, ast.Attribute) and c.func.attr == "register_handler":
                callers.append((f, c))
    rep.check(not callers, "OWN-7", "no run-time caller of register_handler", "only module level registrations (%d)" % n_reg,
              "register_handler is called from %s" % [f.short for f, _ in callers],
              callers[0][0].where if callers else "", witness="creating objects / saving / loading alters the default rules")
    # other modules must not register at import time either
    for mod in prog.modules.values():
        if mod.name == "odml.validation":
            continue
        for c in mod.toplevel_calls:
            rep.check("register_handler" not in unparse(c.func), "OWN-7", "%s import time registration" % mod.name, "none",
                      "module %s registers a default rule at import" % mod.name, mod.path)
    # global write summary cross-check: nothing reachable from the public model API writes the registry
    for qn in ("section.BaseSection.__init__", "property.BaseProperty.__init__", "doc.BaseDocument.__init__",
               "section.BaseSection.sec_cardinality.setter", "section.BaseSection.prop_cardinality.setter",
               "property.BaseProperty.val_cardinality.setter", "tools.odmlparser.ODMLWriter.write_file",
               "tools.odmlparser.ODMLReader.from_file", "tools.odmlparser.ODMLReader.from_string"):
        f = prog.func(qn)
        rep.saw_function(f)
        bad = [w for w in S.visible_writes(f) if w.origin[0] == "GLOBAL" and "_handlers" in (w.field + w.text)]
        rep.check(not bad, "OWN-7", "%s does not reach a registry write" % f.short, "transitive write summary clean",
                  "%s reaches a write of the default registry: %s" % (f.short, [repr(w) for w in bad[:2]]), f.where,
                  witness="default validations change after this call")
    val = vcls.lookup_method("validate")
    loads = [n for n in ast.walk(val.node) if isinstance(n, ast.Attribute) and n.attr == "_handlers"]
    rep.check(bool(loads) and all(unparse(n.value) == val.params[0] for n in loads), "OWN-7",
              "validate() looks handlers up through self", "self._handlers", "validate() bypasses the instance registry", val.where,
              witness="a private (reset=True) validation runs default rules")

    # ------------------------------------------------------------------ TS-1
    rep.rule("TS-1", "Validation.__init__: every path to a normal exit either stores a fresh dict into self._handlers or takes "
                     "the false edge of a test of exactly `reset`; register_custom_handler mutates self._handlers; every call "
                     "site of register_custom_handler has a receiver assigned once from Validation(..., reset=True) in the same function")
    init = vcls.lookup_method("__init__")
    rep.saw_function(init)
    if "reset" not in init.params:
        raise AnalysisError("Validation.__init__ has no reset parameter")
    g = build_cfg(init)
    stores = [n for n in g.nodes if n.kind == "stmt" and isinstance(n.ast, ast.Assign)
              and any(unparse(t) == "%s._handlers" % init.params[0] for t in n.ast.targets)]
    fresh = [n for n in stores if isinstance(n.ast.value, ast.Dict) and not n.ast.value.keys
             or (isinstance(n.ast.value, ast.Call) and call_name(n.ast.value) == "dict" and not n.ast.value.args)]
    rep.check(bool(fresh) and len(fresh) == len(stores), "TS-1", "__init__ shadows the registry with a fresh dict", "self._handlers = {}",
              "self._handlers is not (only) assigned a fresh empty dict: %s" % [unparse(n.ast) for n in stores], init.where,
              witness="custom rules land in / default rules leak from the class registry")
    paths = g.paths(loop_bound=1)
    rep.analysed["paths"] += len(paths)
    bad_path = None
    for path in paths:
        if path[-1][0].kind != "exit":
            continue
        ok = False
        for node, edge in path:
            if node in fresh:
                ok = True
            if node.kind == "branch" and edge in ("true", "false") and \
                    entails(node.ast.test, edge == "true", lambda lf: "R" if isinstance(lf, ast.Name) and lf.id == "reset" else None,
                            lambda a: not a["R"], ["R"]):
                ok = True     # this outcome is only possible with a falsy `reset`
        if not ok:
            bad_path = path
            break
    rep.check(bad_path is None, "TS-1", "__init__: reset=True always reaches the shadowing store", "%d paths" % len(paths),
              "a path through Validation.__init__ returns without testing `reset` or storing the private registry: %s"
              % (" -> ".join("L%d" % n.lineno for n, _ in (bad_path or []) if n.lineno)), init.where,
              witness="Validation(obj, validate=False, reset=True).register_custom_handler(...) pollutes the default rules")
    rc = vcls.lookup_method("register_custom_handler")
    rep.saw_function(rc)
    ws = S.visible_writes(rc)
    rep.check(bool(ws) and all(w.origin[0] == "P0" for w in ws), "TS-1", "register_custom_handler writes through self", str([repr(w) for w in ws][:2]),
              "register_custom_handler writes %s" % [repr(w) for w in ws][:3], rc.where)
    sites = []
    for f in prog.all_functions():
        for c in calls_in(f.node):
            if isinstance(c.func, ast.Attribute) and c.func.attr == "register_custom_handler":
                sites.append((f, c))
    rep.floor("TS-1", len(sites), 1, "register_custom_handler call sites")
    for f, c in sites:
        recv = c.func.value
        good = False
        detail = "receiver %s" % unparse(recv)
        if isinstance(recv, ast.Name):
            defs = local_assignments(f.node, recv.id)
            if len(defs) == 1 and isinstance(defs[0], ast.Call) and call_name(defs[0]).split(".")[-1] == "Validation":
                r = kw(defs[0], "reset", 2)
                good = isinstance(r, ast.Constant) and r.value is True
                detail = unparse(defs[0])
        rep.check(good, "TS-1", "%s: register_custom_handler on %s" % (f.short, detail[:60]), "receiver built with reset=True",
                  "register_custom_handler is called on a Validation not built with the literal reset=True (%s): the rule is "
                  "added to the default registry" % detail, where(f, c), witness="default validations report the custom rule afterwards")

    # --------------------------------------------------------------- DET-2
    rep.rule("DET-2", "for every function of odml.validation: a parameter whose default is a list / dict / set display (or list() / dict() / "
                      "set()) is never written through - the default object is created once and shared by all calls, so a write makes the "
                      "second validation see what the first one collected")
    vmod = prog.module_of("validation")
    n_fun = 0
    for f in prog.all_functions():
        if f.module is not vmod:
            continue
        n_fun += 1
        for i, prm in enumerate(f.params):
            d = f.defaults.get(prm)
            mutable = isinstance(d, (ast.List, ast.Dict, ast.Set)) or \
                (isinstance(d, ast.Call) and isinstance(d.func, ast.Name) and d.func.id in ("list", "dict", "set", "defaultdict") )
            if not mutable:
                continue
            ws = [w for w in S.writes(f) if w.origin[0] == "P%d" % i]
            rep.check(not ws, "DET-2", "%s: default of %s is never written" % (f.short, prm), "read only",
                      "%s has the mutable default %s=%s and writes through it (`%s`): what one call collects is seen by the next"
                      % (f.short, prm, unparse(d), ws[0].text if ws else ""), f.where,
                      witness="a custom Validation that registers the rule directly: the second run reports every object as a duplicate of itself")
    rep.floor("DET-2", n_fun, 20, "functions of odml.validation inspected")

    # --------------------------------------------------------------- DET-1
    rep.rule("DET-1", "a registered rule that picks one element of a set by max()/min() with a key (ties are broken by the set's iteration "
                      "order, which depends on the process' string hash seed) may use the pick only where the set is known to have one "
                      "element: every path from the pick to a use either re-binds the variable or knows `len(set(..)) > 1` to be false")
    n_pick = 0
    for h in handlers:
        for hh in private_closure(h):
            g = build_cfg(hh)
            x = Expander(hh, g)
            for n in g.nodes:
                st = n.ast
                if not (n.kind == "stmt" and isinstance(st, ast.Assign) and len(st.targets) == 1 and isinstance(st.targets[0], ast.Name)
                        and isinstance(st.value, ast.Call) and call_name(st.value) in ("max", "min") and st.value.args
                        and isinstance(st.value.args[0], ast.Call) and call_name(st.value.args[0]) in ("set", "frozenset")
                        and any(k.arg == "key" for k in st.value.keywords)):
                    continue
                n_pick += 1
                var = st.targets[0].id
                setx = unparse(st.value.args[0])
                multi = "len(%s) > 1" % setx
                redefs = set(m.id for m in g.nodes if m.id != n.id and var in node_defs(m))

                def edge_ok(s0, k0, d0, redefs=redefs, multi=multi):
                    if d0.id in redefs:
                        return True
                    return s0.kind == "branch" and k0 in ("true", "false") and \
                        entails(s0.ast.test, k0 == "true", lambda lf: "MULTI" if unparse(lf) == multi else None, lambda a0: not a0["MULTI"], ["MULTI"])
                uses = [m for m in g.nodes if m.id != n.id and var in node_uses(m)
                        and not (m.kind == "branch" and unparse(m.ast.test) == multi)]
                bad = [m for m in uses if reach_avoiding(g, n, m, edge_ok, skip_kinds=("exc",))]
                rep.check(not bad, "DET-1", "%s: pick from %s is used only for singletons" % (hh.short, setx), "ok",
                          "%s uses `%s` (an arbitrary element of %s when several tie) at line %s without excluding several elements: the "
                          "reported issue depends on the interpreter's hash seed" % (hh.short, var, setx, bad[0].lineno if bad else "?"), where(hh, st),
                          witness="values ['1', '2.5'] of a string Property: one process suggests dtype int, another float")
    if not n_pick:
        rep.ok("DET-1", "no rule picks from a set by max/min", "ok", "odml/validation.py")

    # --------------------------------------------------------------- CACHE-1 (shared with C18)
    from .c18 import publish_after_finalize
    publish_after_finalize(prog, rep, prog.cls("Terminologies"), "Terminologies", "CACHE-1")

    from ..report import import_verdicts
    import_verdicts(prog, rep, "C18", ("ORDER-4",), "ORDER-4",
                    "the terminology rules read Terminologies.load(): what it returns for one URL must not depend on whether a background "
                    "loader ran before")
    reset1_rule(prog, rep, "RESET-1")
    rep.note("register_custom_handler on a Validation built without reset=True mutates the class registry (public API misuse, "
             "outside the statement); the package itself never does so (TS-1)")
    from .rules_lints import set_display_iteration, no_shared_fromkeys, class_level_mutables
    set_display_iteration(prog, rep, "DET-3", ("odml.validation",))
    no_shared_fromkeys(prog, rep, "KEYS-1", ("odml.validation",))
    # registering is idempotent: the per class collections are sets
    rep.rule("REG-3", "register_handler / register_custom_handler add the rule to a set (setdefault(klass, set()).add(handler)): registering a rule "
                      "twice does not make it run - and report - twice")
    for mname in ("register_handler", "register_custom_handler"):
        m3 = vcls.lookup_method(mname)
        adds = []
        fresh = []       # containers created for a class that has none yet: setdefault(k, D) / reg[k] = D
        for h3 in private_closure(m3):
            for c in calls_in(h3.node):
                recv3 = c.func.value if isinstance(c.func, ast.Attribute) else None
                if isinstance(recv3, ast.Name):
                    # `bucket = registry.setdefault(klass, set()); bucket.add(handler)`
                    bound3 = [st.value for st in walk_no_nested(h3.node) if isinstance(st, ast.Assign) and any(isinstance(t, ast.Name) and t.id == recv3.id for t in st.targets)]
                    recv3 = bound3[0] if len(bound3) == 1 else recv3
                if isinstance(c.func, ast.Attribute) and c.func.attr in ("add", "append", "extend", "insert") and \
                        (isinstance(recv3, ast.Subscript) or (isinstance(recv3, ast.Call) and isinstance(recv3.func, ast.Attribute)
                                                              and recv3.func.attr in ("setdefault", "get"))):
                    adds.append((h3, c))
                if isinstance(c.func, ast.Attribute) and c.func.attr == "setdefault" and len(c.args) == 2:
                    fresh.append(c.args[1])
            for st3 in walk_no_nested(h3.node):
                if isinstance(st3, ast.Assign) and any(isinstance(t, ast.Subscript) for t in st3.targets):
                    fresh.append(st3.value)
        rep.floor("REG-3", len(adds), 1, "stores into _handlers in %s" % mname)
        for h3, c in adds:
            good = c.func.attr == "add" and all(unparse(d0) in ("set()",) or isinstance(d0, ast.Set) for d0 in fresh)
            rep.check(good, "REG-3", "Validation.%s keeps a set per class" % mname, "set().add",
                      "Validation.%s collects handlers with `%s`: a rule registered twice runs twice" % (mname, unparse(c)[:70]), where(h3, c),
                      witness="register the same custom rule before every document: each issue is reported once more per registration")
    rep.assume("call resolution of odmlsa.kinds (class hierarchy + kinds); unresolved calls are listed in the evidence")


def table_readers_rule(prog, rep, rule="OWN-T"):
    """the shared table of loaded terminologies is consulted through load() only"""
    rep.rule(rule, "no function outside odml/terminology.py reads the table object `terminologies` itself (terminology.terminologies[...], .get(...), "
                   "`in`): the rules obtain a terminology with terminology.load(url), which fetches what is not cached yet. A direct look into the "
                   "table answers according to what other code happened to load before - the same document validates differently later")
    n = 0
    for f in prog.all_functions():
        if f.module.name == "odml.terminology":
            continue
        n += 1
        imported = set(k for k, ent in f.module.imports.items() if ent[0] == "from" and ent[1] == "odml.terminology" and ent[2] == "terminologies")
        for y in walk_no_nested(f.node):
            hit = (isinstance(y, ast.Attribute) and y.attr == "terminologies" and isinstance(y.value, ast.Name)
                   and f.module.imports.get(y.value.id, ("", ""))[-1] in ("odml.terminology", "terminology")) or \
                  (isinstance(y, ast.Attribute) and y.attr == "terminologies" and unparse(y.value).endswith("terminology")) or \
                  (isinstance(y, ast.Name) and y.id in imported)
            if hit:
                rep.fail(rule, "%s|terminologies" % f.short, "%s reads the table of loaded terminologies directly (`%s`) instead of asking "
                         "terminology.load(url): the answer depends on what was loaded earlier in the process" % (f.short, unparse(y)), where(f, y),
                         witness="validate with section_repository_present before and after some other code loaded the repository: different reports")
    rep.ok(rule, "the terminology table is read through load() only", "%d functions outside odml.terminology scanned" % n, "")
