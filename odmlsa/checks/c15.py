"""C15 - version conversion 1.0 -> 1.1 keeps the content and yields a loadable file.

Decided (logging / table / source clauses): every element the converter drops is logged in the same
branch; the filters test the 1.1 table of the matching level; renamed keys and created tags are 1.1
keys; ids are kept when valid and replaced when missing or malformed; the root is stamped with the
format version on every path; the dictionary front ends create one element per key and never filter
on the content; sibling name maps are separate for Sections and Properties; the source is only read;
the output is rendered before the target file is opened.
NOT decided: that the Section tree, values and lifted attributes are preserved, the numbering of
clashing names, strict loadability of the output.
"""
import ast

from ..astutil import calls_in, call_name, where, kw
from ..cfg import build_cfg
from ..fold import Folder, format_tables
from ..model import AnalysisError, unparse, walk_no_nested
from .common_tables import resolves_to_format_version
from .rules_order import compute_before_open, is_write_open

DECIDED = [
    "LOG-1 every removal of an unsupported element and every discarded value attribute is accompanied by a self._log(...) in the same block; _log appends to conversion_log",
    "TAB-11 the three filters test the arguments_keys of the matching format; _version_map values and created tags are 1.1 Property keys",
    "PROV-8 _add_id keeps a valid id (str(uuid.UUID(text))), replaces a missing or malformed one by a fresh uuid4 and always appends an id",
    "VER-2 _convert stamps the root with FORMAT_VERSION on every path and runs the whole pipeline",
    "DICT-1 the JSON/YAML front ends create one element per key; no guard depends on the content of an entry",
    "MAP-1 sibling names are counted in separate maps for Sections and Properties; the Property map is reset per Section",
    "SRC-1 the converter opens its source read-only and writes only to the filename given to write_to_file, after rendering",
]
NOT_DECIDED = ["preservation of the Section tree, the values and the lifted attributes", "numeric suffixes of clashing names",
               "strict loadability of the output"]


def run(prog, rep):
    rep.decided = DECIDED
    rep.not_decided = NOT_DECIDED
    tabs = format_tables(prog)
    vc = prog.cls("VersionConverter")
    mod = vc.module
    fd = Folder(prog)

    # ----------------------------------------------------------------- LOG-1
    rep.rule("LOG-1", "in _convert, _handle_properties and _handle_value: every <x>.remove(elem) of an element other than a folded "
                      "<value> element, and the final `else` of _handle_value, and the conflicting-duplicate branch, has a self._log(...) "
                      "call in the same statement block; _log appends its message to self.conversion_log")
    n_drop = 0
    for name in ("_convert", "_handle_properties"):
        f = vc.lookup_method(name)
        if f is None:
            raise AnalysisError("VersionConverter.%s vanished" % name)
        rep.saw_function(f)
        for blk in _blocks(f.node):
            for st in blk:
                if isinstance(st, ast.Expr) and isinstance(st.value, ast.Call) and isinstance(st.value.func, ast.Attribute) \
                        and st.value.func.attr == "remove" and st.value.args:
                    arg = unparse(st.value.args[0])
                    if arg == "value":
                        continue     # folded into the united value element, not dropped
                    n_drop += 1
                    logged = any(isinstance(s2, ast.Expr) and isinstance(s2.value, ast.Call) and call_name(s2.value) == "self._log" for s2 in blk)
                    rep.check(logged, "LOG-1", "%s: %s logged" % (name, unparse(st.value)[:40]), "self._log in the same block",
                              "%s drops `%s` without a self._log(...) in the same block" % (name, arg), where(f, st),
                              witness="an unsupported element disappears without a log entry")
    hv = vc.lookup_method("_handle_value")
    rep.saw_function(hv)
    # the if/elif chain over val_elem: the final else and the conflicting branch must log
    chains = [n for n in walk_no_nested(hv.node) if isinstance(n, ast.If) and "check_export is not None" in unparse(n.test)]
    rep.check(len(chains) == 1, "LOG-1", "_handle_value: export decision chain", "ok", "the export decision chain of _handle_value changed shape", hv.where)
    if chains:
        node = chains[0]
        last = node
        while last.orelse and len(last.orelse) == 1 and isinstance(last.orelse[0], ast.If):
            last = last.orelse[0]
        n_drop += 1
        logged = any(isinstance(s2, ast.Expr) and isinstance(s2.value, ast.Call) and call_name(s2.value) == "self._log" for s2 in last.orelse)
        rep.check(bool(last.orelse) and logged, "LOG-1", "_handle_value: unsupported value attribute logged", "else: self._log",
                  "the final else of _handle_value (attribute neither exported nor mapped) does not log", where(hv, last),
                  witness="a value attribute unknown to 1.1 vanishes silently")
        conflict = [n for n in ast.walk(node) if isinstance(n, ast.If) and "check_export.text != val_elem.text" in unparse(n.test)]
        n_drop += 1
        rep.check(len(conflict) == 1 and any(call_name(c) == "self._log" for c in calls_in(conflict[0])), "LOG-1",
                  "_handle_value: conflicting duplicate logged", "ok", "a conflicting duplicate value attribute is dropped without log", where(hv, node))
    hp = vc.lookup_method("_handle_properties")
    noname = [n for n in walk_no_nested(hp.node) if isinstance(n, ast.If) and unparse(n.test) == "prop.find('name') is None"]
    rep.check(len(noname) == 1 and any(call_name(c) == "self._log" for c in calls_in(noname[0]))
              and any(unparse(c.func).endswith(".remove") for c in calls_in(noname[0])), "LOG-1", "unnamed Property dropped and logged", "ok",
              "the unnamed-Property branch does not both remove and log", hp.where)
    rep.floor("LOG-1", n_drop, 5, "drop sites")
    lg = vc.lookup_method("_log")
    rep.check("self.conversion_log.append(%s)" % lg.params[1] in unparse(lg.node), "LOG-1", "_log records the message", "ok",
              "_log does not append to self.conversion_log", lg.where)

    # ---------------------------------------------------------------- TAB-11
    rep.rule("TAB-11", "_convert filters Section children against Section.arguments_keys and root children against "
                       "Document.arguments_keys; _handle_properties filters against Property.arguments_keys; _version_map values, the "
                       "renamed tag 'dependencyvalue' and created tags 'value'/'id' are Property/any-level 1.1 keys")
    cv = vc.lookup_method("_convert")
    txt = unparse(cv.node)
    rep.check("elem.tag not in Section.arguments_keys" in txt and "elem.tag not in Document.arguments_keys" in txt, "TAB-11",
              "_convert filters each level against its own table", "ok", "_convert does not filter Sections/root against Section/Document.arguments_keys", cv.where,
              witness="a valid Section element (e.g. <link>) is dropped, or an invalid one kept and refused by the strict reader")
    sec_loop = [n for n in walk_no_nested(cv.node) if isinstance(n, ast.For) and unparse(n.iter) == "root.iter('section')"]
    rep.check(len(sec_loop) == 1 and "Section.arguments_keys" in unparse(sec_loop[0]) and "Document.arguments_keys" not in unparse(sec_loop[0])
              and "Property.arguments_keys" not in unparse(sec_loop[0]), "TAB-11", "Section loop uses the Section table only", "ok",
              "the Section loop consults another level's table", cv.where)
    rep.check("elem.tag not in Property.arguments_keys" in unparse(hp.node), "TAB-11", "_handle_properties filters against Property.arguments_keys", "ok",
              "Property children are not filtered against Property.arguments_keys", hp.where)
    vm = fd.class_attr(vc, "_version_map")
    pkeys = set(tabs["Property"]["_args"])
    rep.check(isinstance(vm, dict) and set(vm.values()) <= pkeys and set(vm) == {"filename", "dtype"}, "TAB-11", "_version_map targets are Property keys", str(vm),
              "_version_map %s maps to non-Property keys %s" % (vm, sorted(set(vm.values()) - pkeys) if isinstance(vm, dict) else "?"), mod.path,
              witness="the file name / dtype of a 1.0 value is written under a tag the 1.1 reader refuses")
    lits = set()
    for f in (hp, hv, vc.lookup_method("_add_id")):
        for n in ast.walk(f.node):
            if isinstance(n, ast.Call) and call_name(n) == "ET.Element" and n.args and isinstance(n.args[0], ast.Constant):
                lits.add(n.args[0].value)
            if isinstance(n, ast.Assign) and unparse(n.targets[0]).endswith(".tag") and isinstance(n.value, ast.Constant):
                lits.add(n.value.value)
    rep.check(lits <= pkeys, "TAB-11", "created / renamed tags are 1.1 keys", str(sorted(lits)), "the converter creates tags %s outside the Property table" % sorted(lits - pkeys), mod.path)
    rep.check("val_elem.tag in Property.arguments_keys" in unparse(hv.node) and "val_elem.tag in self._version_map" in unparse(hv.node), "TAB-11",
              "_handle_value exports supported and mapped attributes", "ok", "_handle_value no longer tests Property.arguments_keys / _version_map", hv.where)

    # ---------------------------------------------------------------- PROV-8
    rep.rule("PROV-8", "_add_id: new_id.text starts as str(uuid.uuid4()); if an id element exists and has text it becomes "
                       "str(uuid.UUID(text)) inside a try whose ValueError handler keeps the fresh one; the old element is removed and "
                       "the new one appended on every path")
    ai = vc.lookup_method("_add_id")
    rep.saw_function(ai)
    g = build_cfg(ai)
    t = unparse(ai.node)
    rep.check("new_id.text = str(uuid.uuid4())" in t and "new_id.text = str(uuid.UUID(oid.text))" in t and "except ValueError" in t, "PROV-8",
              "_add_id normalises or replaces", "ok", "_add_id no longer (fresh uuid4 | str(uuid.UUID(old)) under except ValueError)", ai.where,
              witness="a malformed id is kept / a valid one replaced")
    app = [n for n in g.nodes if n.kind == "stmt" and unparse(n.ast) == "%s.append(new_id)" % ai.params[0]]
    rep.check(len(app) == 1 and all(g.dominates(app[0], p) for _, p in g.exit.pred), "PROV-8", "_add_id always appends an id", "ok",
              "some path through _add_id appends no id element", ai.where, witness="an element without id in the output")
    first = [n for n in g.nodes if n.kind == "stmt" and unparse(n.ast) == "new_id.text = str(uuid.uuid4())"]
    rep.check(bool(first) and bool(app) and g.dominates(first[0], app[0]), "PROV-8", "the fresh id is prepared before any branch", "ok",
              "the fresh uuid is not assigned on every path before appending", ai.where)
    ca = vc.lookup_method("_check_add_ids")
    t = unparse(ca.node)
    rep.check("self._add_id(root)" in t and "self._add_id(sec)" in t and "self._add_id(prop)" in t, "PROV-8", "ids are handled for root, Sections and Properties", "ok",
              "_check_add_ids does not visit root, every Section and every Property", ca.where)

    # ----------------------------------------------------------------- VER-2
    rep.rule("VER-2", "_convert: root.set('version', FORMAT_VERSION) and the calls _replace_same_name_entities, _handle_properties, "
                      "_check_add_ids lie on every path to the return")
    g = build_cfg(cv)
    for want in ("root.set('version', FORMAT_VERSION)", "self._handle_properties(root)"):
        nodes = [n for n in g.nodes if n.kind == "stmt" and unparse(n.ast) == want]
        rep.check(len(nodes) == 1 and all(g.dominates(nodes[0], p) for _, p in g.exit.pred), "VER-2", "_convert: %s on every path" % want, "ok",
                  "_convert does not execute `%s` on every path" % want, cv.where, witness="the output is refused by the strict reader (version)")
    sets = [c for c in calls_in(cv.node) if call_name(c) == "root.set" and c.args and isinstance(c.args[0], ast.Constant) and c.args[0].value == "version"]
    rep.check(len(sets) == 1 and resolves_to_format_version(prog, mod, sets[0].args[1]), "VER-2", "version stamp is info.FORMAT_VERSION", "ok",
              "the version stamp is not the imported FORMAT_VERSION", cv.where)
    for want in ("self._replace_same_name_entities(tree)", "self._check_add_ids(tree)"):
        rep.check(want in unparse(cv.node), "VER-2", "_convert runs %s" % want.split("(")[0][5:], "ok", "_convert no longer calls %s" % want, cv.where)

    # ---------------------------------------------------------------- DICT-1
    rep.rule("DICT-1", "_parse_dict_document/_sections/_properties/_values: the loops run over the keys of the entry; every `if`/`elif` "
                       "test mentions only the key variable (and literals); each key yields a child collection call or an ET.Element "
                       "whose text is the entry's content")
    for name in ("_parse_dict_document", "_parse_dict_sections", "_parse_dict_properties", "_parse_dict_values"):
        f = vc.lookup_method(name)
        if f is None:
            raise AnalysisError("VersionConverter.%s vanished" % name)
        rep.saw_function(f)
        loops = [n for n in ast.walk(f.node) if isinstance(n, ast.For)]
        key_loops = []
        for lp in loops:
            inner = [n for n in lp.body if isinstance(n, ast.If)]
            if inner and (isinstance(lp.target, ast.Name) or (isinstance(lp.target, ast.Tuple) and lp.target.elts
                                                              and isinstance(lp.target.elts[0], ast.Name))):
                key_loops.append(lp)
        rep.floor("DICT-1", len(key_loops), 1, "key loops in %s" % name)
        for lp in key_loops:
            kv = lp.target.id if isinstance(lp.target, ast.Name) else lp.target.elts[0].id
            iters_keys = isinstance(lp.iter, ast.Name) or (isinstance(lp.iter, ast.Call) and isinstance(lp.iter.func, ast.Attribute)
                                                           and lp.iter.func.attr == "items" and isinstance(lp.iter.func.value, ast.Name))
            rep.check(iters_keys, "DICT-1", "%s: loop over the entry's keys" % name, unparse(lp.iter),
                      "%s iterates `%s` instead of the entry itself (its keys)" % (name, unparse(lp.iter)), where(f, lp))
            for n in ast.walk(lp):
                if isinstance(n, ast.If) and n in _direct_ifs(lp):
                    names = set(x.id for x in ast.walk(n.test) if isinstance(x, ast.Name))
                    rep.check(names <= {kv}, "DICT-1", "%s: guard `%s`" % (name, unparse(n.test)[:40]), "depends on the key only",
                              "%s filters entries with `%s`, which depends on more than the key %s: entries with falsy content "
                              "(0, 0.0, false, '') are dropped without log" % (name, unparse(n.test)[:60], kv), where(f, n),
                              witness="JSON/YAML source with a value 0 or false")

    # ----------------------------------------------------------------- MAP-1
    rep.rule("MAP-1", "_replace_same_name_entities passes different map objects to _change_entity_name for Section names and for "
                      "Property names, and clears the Property map once per Section")
    rs = vc.lookup_method("_replace_same_name_entities")
    rep.saw_function(rs)
    cs = [c for c in calls_in(rs.node) if call_name(c).endswith("._change_entity_name")]
    maps = [unparse(c.args[1]) for c in cs if len(c.args) >= 3]
    names = [unparse(c.args[2]) for c in cs if len(c.args) >= 3]
    ok = len(cs) == 2 and len(set(maps)) == 2
    rep.check(ok, "MAP-1", "separate name maps for Sections and Properties", str(list(zip(maps, names))),
              "Section and Property names are counted in the same map %s: a Property and a sub-Section of the same name clash" % maps, rs.where,
              witness="a Section with a Property 'x' and a sub-Section 'x': the sub-Section becomes 'x-2'")
    if ok:
        pm = [m for m, n in zip(maps, names) if "prop" in n][0] if any("prop" in n for n in names) else maps[1]
        rep.check("%s.clear()" % pm in unparse(rs.node), "MAP-1", "Property map reset per Section", "ok",
                  "the Property name map is not cleared per Section", rs.where, witness="equal Property names in different Sections get suffixes")

    # ----------------------------------------------------------------- SRC-1
    rep.rule("SRC-1", "every open() in version_converter.py on self.filename is read mode; the only write-mode open is in write_to_file on "
                      "its `filename` parameter (after the extension fix) and follows the rendering (ORDER-1)")
    n_open = 0
    for f in vc.methods.values():
        for c in calls_in(f.node):
            if call_name(c) == "open":
                n_open += 1
                w = is_write_open(c)
                target = unparse(c.args[0]) if c.args else "?"
                if f.name == "write_to_file":
                    rep.check(w and target == "filename", "SRC-1", "write_to_file opens its target for writing", target,
                              "write_to_file opens %s" % target, where(f, c))
                else:
                    rep.check(not w, "SRC-1", "%s opens %s read-only" % (f.name, target), "read mode",
                              "%s opens %s in a writing mode: the source may be modified" % (f.name, target), where(f, c),
                              witness="the 1.0 source file is truncated or changed")
    rep.floor("SRC-1", n_open, 3, "open() calls in the converter")
    for f in vc.methods.values():
        for c in calls_in(f.node):
            fn = call_name(c)
            rep.check(not (fn.startswith(("os.remove", "os.rename", "os.unlink", "shutil.")) or fn.endswith(".write") and "self.filename" in unparse(c)),
                      "SRC-1", "%s: %s" % (f.name, fn), "no destructive file operation", "%s calls %s" % (f.name, fn), where(f, c)) if \
                fn.startswith(("os.remove", "os.rename", "os.unlink", "shutil.")) else None
    compute_before_open(prog, rep, [vc.lookup_method("write_to_file")], "ORDER-1")
    rep.assume("lxml element iteration tolerates removal of the current child (probed: the next sibling is pre-fetched)")


def _blocks(fnode):
    """all statement lists (blocks) of a function."""
    out = []
    for n in ast.walk(fnode):
        for attr in ("body", "orelse", "finalbody"):
            b = getattr(n, attr, None)
            if isinstance(b, list) and b and isinstance(b[0], ast.stmt):
                out.append(b)
    return out


def _direct_ifs(loop):
    """if statements (including elif chains) directly in the loop body."""
    out = []
    stack = [s for s in loop.body if isinstance(s, ast.If)]
    while stack:
        n = stack.pop()
        out.append(n)
        if len(n.orelse) == 1 and isinstance(n.orelse[0], ast.If):
            stack.append(n.orelse[0])
    return out
