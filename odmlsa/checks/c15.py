"""C15 - version conversion 1.0 -> 1.1 keeps the content and yields a loadable file.

Decided (logging / table / source clauses): every element the converter drops is logged in the same
branch; the filters test the 1.1 table of the matching level; renamed keys and created tags are 1.1
keys; ids are kept when valid and replaced when missing or malformed; the root is stamped with the
format version on every path; the dictionary front ends create one element per key and never filter
on the content; sibling name maps are separate for Sections and Properties; the source is only read;
the output is rendered before the target file is opened.
NOT decided: that the Section tree, values and lifted attributes are preserved, the numbering of
clashing names, strict loadability of the output.
"""
import ast

import re

from ..astutil import calls_in, call_name, where, kw, atoms_of, atoms_at
from ..cfg import build_cfg, enclosing_handlers
from ..dataflow import private_closure
from ..logic import reach_avoiding
from ..symtext import Expander, effect_calls
from .c04 import _id_shape
from ..fold import Folder, format_tables
from ..model import AnalysisError, unparse, walk_no_nested
from .common_tables import resolves_to_format_version
from .rules_order import compute_before_open, is_write_open

DECIDED = [
    "LOG-1 every removal of an unsupported element and every discarded value attribute is accompanied by a self._log(...) in the same block; _log appends to conversion_log",
    "TAB-11 the three filters test the arguments_keys of the matching format; _version_map values and created tags are 1.1 Property keys",
    "PROV-8 _add_id keeps a valid id (str(uuid.UUID(text))), replaces a missing or malformed one by a fresh uuid4 and always appends an id",
    "VER-2 _convert stamps the root with FORMAT_VERSION on every path and runs the whole pipeline",
    "DICT-1 the JSON/YAML front ends create one element per key; no guard depends on the content of an entry",
    "PARSE-1 the string and the file front end parse with the same blank-text removing parser",
    "MAP-1 sibling names are counted in separate maps for Sections and Properties; the Property map is reset per Section",
    "MAP-2 (shared with C17) _change_entity_name records every occurrence of a name: each path stores into the count map",
    "WALK-3 every v1.0 value element is handed to _handle_value, which inspects every child element (no exit before or inside the scan)",
    "VAL-3 the list brackets are added exactly when a second value text was joined with a comma (the flag is set where the comma is inserted, nowhere else)",
    "SRC-1 the converter opens its source read-only and writes only to the filename given to write_to_file, after rendering",
    'PARSE-1 also: the parser of _parse_xml is built without encoding / recover',
]
NOT_DECIDED = ["preservation of the Section tree, the values and the lifted attributes", "numeric suffixes of clashing names",
               "strict loadability of the output"]


def run(prog, rep):
    rep.decided = DECIDED
    rep.not_decided = NOT_DECIDED
    tabs = format_tables(prog)
    vc = prog.cls("VersionConverter")
    mod = vc.module
    fd = Folder(prog)

    cv = vc.lookup_method("_convert")
    hp = vc.lookup_method("_handle_properties")
    hv = vc.lookup_method("_handle_value")
    lg = vc.lookup_method("_log")
    for nm, f in (("_convert", cv), ("_handle_properties", hp), ("_handle_value", hv), ("_log", lg)):
        if f is None:
            raise AnalysisError("VersionConverter.%s vanished" % nm)
        rep.saw_function(f)
    me = cv.params[0]
    is_log = lambda c: isinstance(c.func, ast.Attribute) and c.func.attr == "_log"
    is_remove = lambda c: isinstance(c.func, ast.Attribute) and c.func.attr == "remove" and len(c.args) == 1
    is_append = lambda c: isinstance(c.func, ast.Attribute) and c.func.attr == "append" and len(c.args) == 1

    # ----------------------------------------------------------------- LOG-1
    rep.rule("LOG-1", "over _convert and everything it calls in the class (helpers inlined): every <x>.remove(e) - except the <value> "
                      "elements folded into the united value and the id element replaced by _add_id - has a self._log(...) call in the "
                      "same function under exactly the same conditions; in _handle_value every way through one loop iteration either "
                      "exports (appends to the parent Property), logs, skips the <value> element itself, or found an equal text already "
                      "exported; _log appends its message to self.conversion_log")
    removes = [e for e in effect_calls(prog, cv, is_remove, depth=4)]
    logs = [e for e in effect_calls(prog, cv, is_log, depth=4)]
    n_drop = 0
    for e in removes:
        if e.func.name == "_add_id":
            continue
        arg = unparse(e.call.args[0])
        if re.search(r"EACH\(.*\.iter\('value'\)\)$", arg):
            continue         # folded into the united value element, not dropped
        n_drop += 1
        gs = sorted(e.guards())
        logged = any(l.func is e.func and sorted(l.guards()) == gs for l in logs)
        rep.check(logged, "LOG-1", "%s: %s logged" % (e.func.name, unparse(e.raw)[:40]), "self._log under the same conditions",
                  "%s drops `%s` without a self._log(...) under the same conditions %s" % (e.func.name, unparse(e.raw.args[0]), gs), where(e.func, e.raw),
                  witness="an unsupported element disappears without a log entry")
    rep.floor("LOG-1", n_drop, 4, "drop sites")
    # _handle_value: iteration paths
    g = build_cfg(hv)
    hx = Expander(hv, g)
    loops = [n for n in g.nodes if n.kind == "for" and hx.text(n.ast.iter, n).endswith(".iter()")]
    rep.check(len(loops) == 1, "LOG-1", "_handle_value iterates the value element", "ok", "the loop over <value>.iter() of _handle_value vanished", hv.where)
    if len(loops) == 1:
        loop = loops[0]
        item = "EACH(%s)" % hx.text(loop.ast.iter, loop)
        marked = set(e.node.id for e in effect_calls(prog, hv, lambda c: is_log(c) or is_append(c)))
        paths = _iteration_paths(g, loop)
        rep.analysed["paths"] += len(paths)
        n_silent = 0
        for path in paths:
            if any(n.id in marked for n, _ in path):
                continue
            atoms = []
            for n, edge in path:
                if n.kind == "branch" and edge in ("true", "false"):
                    atoms += atoms_of(n.ast.test, edge == "true", lambda x0, n=n: hx.text(x0, n))
            own = ("%s.tag == 'value'" % item, True) in atoms
            same = any(p and re.match(r"^.+\.text == %s\.text$" % re.escape(item), t) for t, p in atoms)
            n_silent += 1
            rep.check(own or same, "LOG-1", "_handle_value: silent path %s" % "->".join("L%d" % n.lineno for n, _ in path if n.lineno)[:60],
                      "the element is the <value> itself or an equal text was exported before",
                      "a way through _handle_value neither exports nor logs the value attribute (conditions %s)" % atoms,
                      where(hv, path[0][0].ast if path and path[0][0].ast is not None else hv.node),
                      witness="a value attribute unknown to 1.1 (or a conflicting duplicate) vanishes silently")
        rep.floor("LOG-1", len(paths), 4, "iteration paths of _handle_value")
        rep.floor("LOG-1", n_silent, 1, "silent iteration paths of _handle_value (skip of the <value> element itself)")
    lgx = [c for c in calls_in(lg.node) if unparse(c.func) == "%s.conversion_log.append" % lg.params[0] and len(c.args) == 1
           and Expander(lg).text(c.args[0]) == lg.params[1]]
    rep.check(bool(lgx), "LOG-1", "_log records the message", "ok", "_log does not append its message to self.conversion_log", lg.where)

    # ---------------------------------------------------------------- TAB-11
    rep.rule("TAB-11", "every removal guarded by `<e>.tag not in <F>.arguments_keys` uses the table of the level it iterates: children of "
                       "<root>.iter('section') -> Section, children of <root>.iter('property') -> Property, children of the root -> "
                       "Document; all three filters exist; _handle_value exports ET.Element(<e>.tag) only under `<e>.tag in "
                       "Property.arguments_keys` and ET.Element(self._version_map[<e>.tag]) only under `<e>.tag in self._version_map`; "
                       "_version_map values, the renamed tag and created tags are 1.1 Property keys")
    levels = {}
    for e in removes:
        tabs_used = [m.group(2) for t, p in e.guards() if not p for m in [re.match(r"^(.+)\.tag in (?:\w+\.)?(\w+)\.arguments_keys$", t)] if m]
        if not tabs_used:
            continue
        cont = unparse(e.call.func.value)
        level = "Section" if re.search(r"^EACH\(.*\.iter\('section'\)\)$", cont) else \
            "Property" if re.search(r"^EACH\(.*\.iter\('property'\)\)$", cont) else \
            "Document" if cont.endswith(".getroot()") else None
        if level is None:
            rep.fail("TAB-11", "%s|filter-level" % e.func.short, "cannot tell which level `%s` (container %s) filters" % (unparse(e.raw), cont), where(e.func, e.raw))
            continue
        levels[level] = tabs_used
        rep.check(set(tabs_used) == set([level]), "TAB-11", "%s children filtered against %s.arguments_keys" % (level, level), str(tabs_used),
                  "children of a %s are filtered against the table of %s" % (level, tabs_used), where(e.func, e.raw),
                  witness="a valid %s element (e.g. <link>) is dropped, or an invalid one kept and refused by the strict reader" % level)
    rep.check(set(levels) == set(["Document", "Section", "Property"]), "TAB-11", "all three levels are filtered", str(sorted(levels)),
              "filters found only for %s" % sorted(levels), cv.where, witness="an unsupported element survives and the strict reader refuses the file")
    n_exp = 0
    for e in effect_calls(prog, hv, is_append):
        arg = e.call.args[0]
        if isinstance(e.raw.args[0], ast.Name) and not (isinstance(arg, ast.Call) and call_name(arg) == "ET.Element"):
            # the element is built in one of several branches and appended once (`if a: el = ET.Element(t) elif b: el = ET.Element(m) ...; p.append(el)`):
            # one export per construction, judged with the conditions of that construction
            from ..dataflow import reaching_defs as _rd, def_value as _dv
            from ..symtext import _guards_at as _ga
            dsx = [d for d in _rd(e.x.g, e.inner, e.raw.args[0].id) if d.kind != "entry"]
            vals = [_dv(d, e.raw.args[0].id) for d in dsx]
            if len(dsx) >= 2 and all(isinstance(v, ast.Call) and call_name(v) == "ET.Element" and len(v.args) == 1 for v in vals):
                for d, v in zip(dsx, vals):
                    tag = e.x.text(v.args[0], d)
                    gs = list(e.outer) + _ga(e.x, d)
                    n_exp += 1
                    m1 = re.match(r"^(.+)\.tag$", tag)
                    m2 = re.match(r"^%s\._version_map\[(.+)\.tag\]$" % re.escape(hv.params[0]), tag) or \
                        re.match(r"^%s\._version_map\.get\((.+)\.tag, \1\.tag\)$" % re.escape(hv.params[0]), tag)
                    if m2:
                        good = ("%s.tag in %s._version_map" % (m2.group(1), hv.params[0]), True) in gs
                    elif m1:
                        good = any(p0 and re.match(r"^%s\.tag in (?:\w+\.)?Property\.arguments_keys$" % re.escape(m1.group(1)), t0) for t0, p0 in gs)
                    else:
                        good = False
                    rep.check(good, "TAB-11", "_handle_value exports %s under its table test" % tag[:50], "ok",
                              "_handle_value creates element %s without the matching table test (conditions %s)" % (tag, gs), where(e.func, v))
            continue
        if not (isinstance(arg, ast.Call) and call_name(arg) == "ET.Element" and len(arg.args) == 1):
            continue
        # the tag may be a local that is bound differently per table (`export_tag = e.tag` / `= self._version_map[e.tag]`): one case
        # per definition that reaches the construction, each with the conditions of that definition
        cases = [(unparse(arg.args[0]), e.guards())]
        if isinstance(arg.args[0], ast.Name):
            from ..dataflow import reaching_defs, def_value
            from ..symtext import _guards_at
            tagname = arg.args[0].id
            # where the element was constructed: at the append itself, or at the single definition of the appended local
            at = e.inner
            if isinstance(e.raw.args[0], ast.Name):
                d0 = [d for d in reaching_defs(e.x.g, e.inner, e.raw.args[0].id) if d.kind != "entry"]
                at = d0[0] if len(d0) == 1 else e.inner
            ds = [d for d in reaching_defs(e.x.g, at, tagname) if d.kind != "entry" and def_value(d, tagname) is not None]
            if ds:
                cases = [(e.x.text(def_value(d, tagname), d), list(e.outer) + _guards_at(e.x, d)) for d in ds]
        for tag, gs in cases:
            n_exp += 1
            m1 = re.match(r"^(.+)\.tag$", tag)
            m2 = re.match(r"^%s\._version_map\[(.+)\.tag\]$" % re.escape(hv.params[0]), tag)
            if m2:
                good = ("%s.tag in %s._version_map" % (m2.group(1), hv.params[0]), True) in gs
            elif m1:
                good = any(p0 and re.match(r"^%s\.tag in (?:\w+\.)?Property\.arguments_keys$" % re.escape(m1.group(1)), t0) for t0, p0 in gs)
            else:
                good = False
            rep.check(good, "TAB-11", "_handle_value exports %s under its table test" % tag[:50], "ok",
                      "_handle_value creates element %s without the matching table test (conditions %s)" % (tag, gs), where(e.func, e.raw))
    rep.floor("TAB-11", n_exp, 2, "exports in _handle_value")
    vm = fd.class_attr(vc, "_version_map")
    pkeys = set(tabs["Property"]["_args"])
    rep.check(isinstance(vm, dict) and set(vm.values()) <= pkeys and set(vm) == {"filename", "dtype"}, "TAB-11", "_version_map targets are Property keys", str(vm),
              "_version_map %s maps to non-Property keys %s" % (vm, sorted(set(vm.values()) - pkeys) if isinstance(vm, dict) else "?"), mod.path,
              witness="the file name / dtype of a 1.0 value is written under a tag the 1.1 reader refuses")
    lits = set()
    for f0 in (hp, hv, vc.lookup_method("_add_id")):
        for f in private_closure(f0):
            for n in ast.walk(f.node):
                if isinstance(n, ast.Call) and call_name(n) == "ET.Element" and n.args and isinstance(n.args[0], ast.Constant):
                    lits.add(n.args[0].value)
                if isinstance(n, ast.Assign) and unparse(n.targets[0]).endswith(".tag") and isinstance(n.value, ast.Constant):
                    lits.add(n.value.value)
    rep.check(lits <= pkeys and bool(lits), "TAB-11", "created / renamed tags are 1.1 keys", str(sorted(lits)), "the converter creates tags %s outside the Property table" % sorted(lits - pkeys), mod.path)

    # ---------------------------------------------------------------- PROV-8
    rep.rule("PROV-8", "_add_id: the element it appends (on every path) gets its text from str(uuid.uuid4()) before any branch; the only "
                       "other text is str(uuid.UUID(<old id>.text)) inside a try whose ValueError handler keeps the fresh one; "
                       "_check_add_ids calls it for the root, every Section and every Property")
    ai = vc.lookup_method("_add_id")
    rep.saw_function(ai)
    g = build_cfg(ai)
    app = [n for n in g.nodes if n.kind == "stmt" and isinstance(n.ast, ast.Expr) and isinstance(n.ast.value, ast.Call) and is_append(n.ast.value)
           and unparse(n.ast.value.func.value) == ai.params[0] and isinstance(n.ast.value.args[0], ast.Name)]
    app_ids = set(n.id for n in app)
    always = bool(app) and len(set(n.ast.value.args[0].id for n in app)) == 1 and \
        not reach_avoiding(g, g.entry, g.exit, lambda s0, k0, d0: d0.id in app_ids, skip_kinds=("exc",))
    rep.check(always, "PROV-8", "_add_id always appends an id", "ok",
              "some path through _add_id appends no id element", ai.where, witness="an element without id in the output")
    if app:
        nv = app[0].ast.value.args[0].id
        stores = [n for n in g.nodes if n.kind == "stmt" and isinstance(n.ast, ast.Assign) and unparse(n.ast.targets[0]) == "%s.text" % nv]
        # the text may be prepared in a local first (`text = str(uuid4()) ... text = str(UUID(old)) ... new.text = text`): its definitions are the stores
        from ..dataflow import reaching_defs as _rd8, def_value as _dv8
        via = []
        for n in stores:
            if isinstance(n.ast.value, ast.Name):
                ds8 = [d for d in _rd8(g, n, n.ast.value.id) if d.kind == "stmt" and isinstance(d.ast, ast.Assign) and _dv8(d, n.ast.value.id) is not None]
                if ds8 and len(ds8) == len(list(_rd8(g, n, n.ast.value.id))):
                    via += [(d, _dv8(d, n.ast.value.id)) for d in ds8]
                    continue
            via.append((n, n.ast.value))
        shapes = [(_id_shape(v8), n8) for n8, v8 in via]
        fresh = [n for sh, n in shapes if sh == ("fresh",)]
        parse = [n for sh, n in shapes if sh and sh[0] == "parse"]
        other = [n for sh, n in shapes if sh is None]
        in_try = all(any(k == "except" and any(c in ("ValueError", "Exception", "*") for c in hn.info["classes"]) for h in enclosing_handlers(g, n) for k, hn in h.succ)
                     for n in parse)
        rep.check(bool(fresh) and bool(parse) and not other and in_try, "PROV-8", "_add_id normalises or replaces", "ok",
                  "_add_id no longer (fresh uuid4 | str(uuid.UUID(old)) under except ValueError): %s" % [unparse(n.ast) for n in stores], ai.where,
                  witness="a malformed id is kept / a valid one replaced")
        rep.check(bool(fresh) and all(g.dominates(fresh[0], a0) for a0 in app), "PROV-8", "the fresh id is prepared before any branch", "ok",
                  "the fresh uuid is not assigned on every path before appending", ai.where)
    ca = vc.lookup_method("_check_add_ids")
    args = [unparse(e.call.args[0]) for e in effect_calls(prog, ca, lambda c: call_name(c).split(".")[-1] == "_add_id" and len(c.args) == 1,
                                                           expanded=True)]
    good = any(a.endswith(".getroot()") for a in args) and any(re.search(r"^EACH\(.*\.iter\('section'\)\)$", a) for a in args) \
        and any(re.search(r"^EACH\(.*\.iter\('property'\)\)$", a) for a in args)
    rep.check(good, "PROV-8", "ids are handled for root, Sections and Properties", str(args),
              "_check_add_ids does not visit root, every Section and every Property: %s" % args, ca.where)

    # ----------------------------------------------------------------- VER-2
    rep.rule("VER-2", "_convert: <root>.set('version', FORMAT_VERSION) and the call of _handle_properties lie on every path to the return; "
                      "_replace_same_name_entities and _check_add_ids are called")
    g = build_cfg(cv)
    stamps = effect_calls(prog, cv, lambda c: isinstance(c.func, ast.Attribute) and c.func.attr == "set" and len(c.args) == 2
                          and isinstance(c.args[0], ast.Constant) and c.args[0].value == "version")
    ok = len(stamps) == 1 and all(g.dominates(stamps[0].node, p) for _, p in g.exit.pred) and unparse(stamps[0].call.func.value).endswith(".getroot()")
    rep.check(ok, "VER-2", "_convert: the root is stamped on every path", "ok", "_convert does not execute <root>.set('version', ...) on every path", cv.where,
              witness="the output is refused by the strict reader (version)")
    rep.check(len(stamps) == 1 and resolves_to_format_version(prog, mod, stamps[0].raw.args[1]), "VER-2", "version stamp is info.FORMAT_VERSION", "ok",
              "the version stamp is not the imported FORMAT_VERSION", cv.where)
    for want in ("_handle_properties", "_replace_same_name_entities", "_check_add_ids"):
        nodes = [n for n in g.nodes for r in n.expr_roots() for c in calls_in(r) if isinstance(c.func, ast.Attribute) and c.func.attr == want]
        rep.check(len(nodes) >= 1 and all(g.dominates(nodes[0], p) for _, p in g.exit.pred), "VER-2", "_convert runs %s on every path" % want, "ok",
                  "_convert does not call %s on every path" % want, cv.where)

    # ---------------------------------------------------------------- DICT-1
    rep.rule("DICT-1", "_parse_dict_document/_sections/_properties/_values: the loops run over the keys of the entry; every `if`/`elif` "
                       "test mentions only the key variable (and literals); each key yields a child collection call or an ET.Element "
                       "whose text is the entry's content")
    for name in ("_parse_dict_document", "_parse_dict_sections", "_parse_dict_properties", "_parse_dict_values"):
        f = vc.lookup_method(name)
        if f is None:
            raise AnalysisError("VersionConverter.%s vanished" % name)
        rep.saw_function(f)
        loops = [n for n in ast.walk(f.node) if isinstance(n, ast.For)]
        key_loops = []
        for lp in loops:
            inner = [n for n in lp.body if isinstance(n, ast.If)]
            if inner and (isinstance(lp.target, ast.Name) or (isinstance(lp.target, ast.Tuple) and lp.target.elts
                                                              and isinstance(lp.target.elts[0], ast.Name))):
                key_loops.append(lp)
        rep.floor("DICT-1", len(key_loops), 1, "key loops in %s" % name)
        for lp in key_loops:
            kv = lp.target.id if isinstance(lp.target, ast.Name) else lp.target.elts[0].id
            iters_keys = isinstance(lp.iter, ast.Name) or (isinstance(lp.iter, ast.Call) and isinstance(lp.iter.func, ast.Attribute)
                                                           and lp.iter.func.attr == "items" and isinstance(lp.iter.func.value, ast.Name))
            rep.check(iters_keys, "DICT-1", "%s: loop over the entry's keys" % name, unparse(lp.iter),
                      "%s iterates `%s` instead of the entry itself (its keys)" % (name, unparse(lp.iter)), where(f, lp))
            for n in ast.walk(lp):
                if isinstance(n, ast.If) and n in _direct_ifs(lp):
                    names = set(x.id for x in ast.walk(n.test) if isinstance(x, ast.Name))
                    rep.check(names <= {kv}, "DICT-1", "%s: guard `%s`" % (name, unparse(n.test)[:40]), "depends on the key only",
                              "%s filters entries with `%s`, which depends on more than the key %s: entries with falsy content "
                              "(0, 0.0, false, '') are dropped without log" % (name, unparse(n.test)[:60], kv), where(f, n),
                              witness="JSON/YAML source with a value 0 or false")

    # --------------------------------------------------------------- PARSE-1
    rep.rule("PARSE-1", "_parse_xml: every lxml parse call (ET.parse / ET.fromstring / ET.XML) is given the parser built with "
                        "remove_blank_text=True; the string and the file branch read the source the same way (the value folding of "
                        "_handle_properties tests `value.text` before stripping, so whitespace-only text must not reach it)")
    px0 = vc.lookup_method("_parse_xml")
    rep.saw_function(px0)
    pxx = Expander(px0, inline=prog)
    pcalls = [c for h in private_closure(px0) for c in calls_in(h.node) if call_name(c) in ("ET.parse", "ET.fromstring", "ET.XML")]
    rep.floor("PARSE-1", len(pcalls), 1, "lxml parse calls in _parse_xml")
    # a StringIO source is read as a whole (getvalue()): handing the stream itself to lxml reads from its current position
    from ..symtext import _guards_at
    for hh in private_closure(px0):
        hg = build_cfg(hh)
        hx = Expander(hh, hg, inline=prog)
        for n in hg.nodes:
            for r in n.expr_roots():
                for c in calls_in(r):
                    if call_name(c) in ("ET.parse", "ET.fromstring", "ET.XML") and c.args and hx.text(c.args[0], n) == "%s.filename" % hh.params[0]:
                        atoms = _guards_at(hx, n)
                        not_stream = any(re.match(r"^isinstance\(%s\.filename, (io\.)?StringIO\)$" % re.escape(hh.params[0]), t) and not pol for t, pol in atoms)
                        rep.check(not_stream, "PARSE-1", "%s: %s reads a path, not a text stream" % (hh.name, call_name(c)), "known not to be a StringIO",
                                  "%s hands self.filename itself to %s on a path where it may be a StringIO: the stream is read from its current "
                                  "position, not from the start" % (hh.short, call_name(c)), where(hh, c),
                                  witness="a StringIO that was filled with write() (position at the end): 'Document is empty'")
    for c in pcalls:
        parser = c.args[1] if len(c.args) > 1 else kw(c, "parser", None)
        t = pxx.text(parser) if parser is not None else "<default parser>"
        good = parser is not None and re.match(r"^ET\.XMLParser\((.*)\)$", t) and "remove_blank_text=True" in t
        rep.check(bool(good), "PARSE-1", "%s uses the blank-text removing parser" % call_name(c), t,
                  "%s is called with %s: whitespace-only text of pretty-printed files reaches the value folding" % (call_name(c), t), where(px0, c),
                  witness="a pretty printed 1.0 file with an attribute-only <value> after a <value> with text converts to '[1,,3]'")

    # the parser accepts every well-formed source: no option that overrides the declared encoding or repairs broken text silently
    from .c16 import xml_parser_options
    xml_parser_options(prog, rep, "PARSE-1", ("encoding", "recover"), module="odml.tools.converters.version_converter")

    from .common_tables import stateless_tools_rule
    stateless_tools_rule(prog, rep, "STATE-2", ("VersionConverter",))
    # ----------------------------------------------------------------- MAP-1
    rep.rule("MAP-1", "_replace_same_name_entities passes different map objects to _change_entity_name for Section names and for "
                      "Property names, and clears the Property map once per Section")
    rs = vc.lookup_method("_replace_same_name_entities")
    rep.saw_function(rs)
    cs = [c for c in calls_in(rs.node) if call_name(c).split(".")[-1] == "_change_entity_name"]
    maps = [unparse(c.args[1]) for c in cs if len(c.args) >= 3]
    names = [unparse(c.args[2]) for c in cs if len(c.args) >= 3]
    ok = len(cs) == 2 and len(set(maps)) == 2
    rep.check(ok, "MAP-1", "separate name maps for Sections and Properties", str(list(zip(maps, names))),
              "Section and Property names are counted in the same map %s: a Property and a sub-Section of the same name clash" % maps, rs.where,
              witness="a Section with a Property 'x' and a sub-Section 'x': the sub-Section becomes 'x-2'")
    if ok:
        rx = Expander(rs)
        xnames = [rx.text(c.args[2]) for c in cs]
        pm = [m for m, n in zip(maps, xnames) if "iter('property')" in n][0] if any("iter('property')" in n for n in xnames) else maps[1]
        # reset once per Section: <map>.clear(), or the map is re-bound to a fresh container inside the loop over the Sections
        sec_loops = [n for n in walk_no_nested(rs.node) if isinstance(n, ast.For) and "iter('section')" in unparse(n.iter)]
        rebound = any(isinstance(y, ast.Assign) and any(isinstance(t0, ast.Name) and t0.id == pm for t0 in y.targets)
                      and isinstance(y.value, (ast.Dict, ast.Call)) and (not isinstance(y.value, ast.Dict) or not y.value.keys)
                      and (not isinstance(y.value, ast.Call) or (call_name(y.value).split(".")[-1] in ("dict", "Counter", "defaultdict", "OrderedDict")))
                      for lp0 in sec_loops for y in lp0.body)
        rep.check("%s.clear()" % pm in unparse(rs.node) or rebound, "MAP-1", "Property map reset per Section", "ok",
                  "the Property name map is not cleared per Section", rs.where, witness="equal Property names in different Sections get suffixes")

    # ----------------------------------------------------------------- MAP-2
    count_map_rule(prog, rep, "MAP-2")

    # ---------------------------------------------------------------- WALK-3
    rep.rule("WALK-3", "_handle_properties: the loop over <property>.iter('value') calls self._handle_value(<value>, ...) on every iteration "
                       "path, before anything else can end the iteration; _handle_value: its loop over <value>.iter() is reached on every "
                       "path and contains no return / break")
    hp = vc.lookup_method("_handle_properties")
    hv = vc.lookup_method("_handle_value")
    rep.saw_function(hp)
    rep.saw_function(hv)
    def value_loops(g0):
        return [n for n in g0.nodes if n.kind == "for" and isinstance(n.ast.iter, ast.Call) and isinstance(n.ast.iter.func, ast.Attribute)
                and n.ast.iter.func.attr in ("iter", "findall", "iterchildren") and n.ast.iter.args and isinstance(n.ast.iter.args[0], ast.Constant)
                and n.ast.iter.args[0].value == "value"]
    # the scan of the value elements may live in a private helper of _handle_properties
    holders = [(h, build_cfg(h)) for h in private_closure(hp)]
    holders = [(h, g0) for h, g0 in holders if value_loops(g0)] or [(hp, build_cfg(hp))]
    hp, hg = holders[0]
    rep.saw_function(hp)
    vloops = value_loops(hg) if len(holders) == 1 else []
    rep.check(len(vloops) == 1, "WALK-3", "_handle_properties scans the value elements once", "ok",
              "_handle_properties has %d loops over the value elements" % len(vloops), hp.where)
    for lp in vloops:
        var = lp.ast.target.id if isinstance(lp.ast.target, ast.Name) else "?"
        calls = set(n.id for n in hg.nodes for root in n.expr_roots() for c in calls_in(root)
                    if isinstance(c.func, ast.Attribute) and c.func.attr == "_handle_value" and c.args and unparse(c.args[0]) == var)
        first = [m for k, m in lp.succ if k == "iter"]
        ok = bool(calls) and bool(first) and (first[0].id in calls or not reach_avoiding(hg, first[0], lp, lambda s0, k0, d0: d0.id in calls,
                                                                                          skip_kinds=("exc",)))
        rep.check(ok, "WALK-3", "every value element is handed to _handle_value", "on every iteration path",
                  "an iteration over the value elements can end without _handle_value(%s, ...): unit / dtype / uncertainty kept on that value "
                  "are neither lifted to the Property nor logged" % var, where(hp, lp.ast),
                  witness="a value element that only carries a unit: the unit is lost")
    vg = build_cfg(hv)
    scans = [n for n in vg.nodes if n.kind == "for" and isinstance(n.ast.iter, ast.Call) and isinstance(n.ast.iter.func, ast.Attribute)
             and n.ast.iter.func.attr in ("iter", "iterchildren", "getchildren") and unparse(n.ast.iter.func.value) == hv.params[1]]
    ok = len(scans) == 1
    if ok:
        sc0 = scans[0]
        ok = all(vg.dominates(sc0, p) for k0, p in vg.exit.pred if k0 != "exc") and \
            not any(isinstance(y, (ast.Return, ast.Break)) for y in ast.walk(sc0.ast))
    rep.check(ok, "WALK-3", "_handle_value inspects every child of the value element", "one scan, reached on every path, never left early",
              "_handle_value can return before (or from inside) its scan of the value's child elements: attributes of such a value are dropped "
              "without a log entry", hv.where, witness="an empty value element that carries the dtype of the Property")

    # ----------------------------------------------------------------- VAL-3
    rep.rule("VAL-3", "_handle_properties: let F be the local tested where the joined text is wrapped in '[' ... ']'. Every definition of F is "
                      "a constant; F = False lies outside the loop over the value elements (once per Property), and F = True is stored exactly "
                      "on the paths that join a further value text with ',' (same guards)")
    from ..astutil import template_parts

    def lits(e):
        return [v for k, v in (template_parts(None, e) or []) if k == "lit"]
    from ..astutil import value_cases

    def wrap_cases(n):
        """[(atoms of the case)] for every alternative of the assigned value that wraps a text in '[' ... ']'"""
        out = []
        if n.kind == "stmt" and isinstance(n.ast, ast.Assign):
            for expr, atoms in value_cases(n.ast.value):
                ls = lits(expr)
                if len(ls) >= 2 and ls[0].startswith("[") and ls[-1].endswith("]"):
                    out.append(list(atoms))
        return out
    wraps = [n for n in hg.nodes if wrap_cases(n)]
    rep.check(len(wraps) == 1, "VAL-3", "one statement adds the list brackets", "ok", "%d statements add list brackets" % len(wraps), hp.where)
    for w in wraps:
        flags = [t for t, p, br in atoms_at(hg, w) if p and t.isidentifier()] + \
            [t for atoms in wrap_cases(w) for t, p in atoms if p and t.isidentifier()]
        commas = [n for n in hg.nodes if n.kind == "stmt" and isinstance(n.ast, (ast.AugAssign, ast.Assign))
                  and any(v0.strip() == "," for v0 in lits(n.ast.value))]
        good = len(flags) >= 1 and bool(commas) and len(vloops) == 1
        why = "flag %s, %d joining statement(s)" % (flags, len(commas))
        if good:
            F = flags[-1]
            lp = vloops[0]
            defs = [n for n in hg.nodes if n.kind == "stmt" and isinstance(n.ast, ast.Assign) and any(isinstance(t, ast.Name) and t.id == F for t in n.ast.targets)]
            in_loop = lambda n: hg.dominates(lp, n) and hg.reaches(n, lp, skip_kinds=("exc",)) and n.id != lp.id
            consts = all(isinstance(d.ast.value, ast.Constant) and isinstance(d.ast.value.value, bool) for d in defs)
            falses = [d for d in defs if consts and d.ast.value.value is False]
            trues = [d for d in defs if consts and d.ast.value.value is True]
            guards = lambda n: sorted(set((t, p) for t, p, _ in atoms_at(hg, n)))
            good = consts and bool(falses) and all(not in_loop(d) for d in falses) and bool(trues) \
                and all(any(guards(d) == guards(c0) for c0 in commas) for d in trues) \
                and all(any(guards(d) == guards(c0) for d in trues) for c0 in commas)
            why = "%s: %d definitions (%s), joins %d" % (F, len(defs), "constants" if consts else "computed", len(commas))
        rep.check(good, "VAL-3", "brackets iff two value texts were joined", why,
                  "the bracket flag does not follow the joins (%s): a single value containing a comma gets brackets and is split on load, or a "
                  "joined list gets none" % why, where(hp, w.ast),
                  witness="a Property with an empty value element and one value 'Smith, John': loads as two values")

    # ----------------------------------------------------------------- SRC-1
    rep.rule("SRC-1", "every open() in version_converter.py on self.filename is read mode; the only write-mode open is in write_to_file on "
                      "its `filename` parameter (after the extension fix) and follows the rendering (ORDER-1)")
    n_open = 0
    for f in vc.methods.values():
        for c in calls_in(f.node):
            if call_name(c) == "open":
                n_open += 1
                w = is_write_open(c)
                target = unparse(c.args[0]) if c.args else "?"
                if f.name == "write_to_file":
                    rep.check(w and target == f.params[1], "SRC-1", "write_to_file opens its target for writing", target,
                              "write_to_file opens %s" % target, where(f, c))
                else:
                    rep.check(not w, "SRC-1", "%s opens %s read-only" % (f.name, target), "read mode",
                              "%s opens %s in a writing mode: the source may be modified" % (f.name, target), where(f, c),
                              witness="the 1.0 source file is truncated or changed")
    rep.floor("SRC-1", n_open, 2, "open() calls in the converter")
    # the name of the output is the name that was given, at most with '.xml' added: anything that cuts the name (splitext, rsplit, a slice) can turn
    # `recording.v1_1` into `recording.xml` - the source
    wt = vc.lookup_method("write_to_file")
    fnp = wt.params[1]
    from ..astutil import template_parts
    for st in walk_no_nested(wt.node):
        if isinstance(st, ast.Assign) and any(isinstance(t, ast.Name) and t.id == fnp for t in st.targets):
            parts = template_parts(None, st.value)
            ok_ext = parts is not None and [k for k, _ in parts].count("hole") == 1 and \
                all((k == "hole" and isinstance(v, ast.Name) and v.id == fnp) or (k == "lit" and v in (".xml", ".odml")) for k, v in parts) \
                and parts[0][0] == "hole"
            rep.check(ok_ext, "SRC-1", "write_to_file: %s = %s" % (fnp, unparse(st.value)[:40]), "the given name, extended",
                      "write_to_file re-binds the output name to `%s`, which is not the given name with an extension appended: a name with another "
                      "extension is cut and can become the name of an existing file" % unparse(st.value)[:60], where(wt, st),
                      witness="VersionConverter('rec.xml').write_to_file('rec.v1_1') overwrites rec.xml")
        for c in ([st] if isinstance(st, ast.Call) else []):
            pass
    cutters = [c for c in calls_in(wt.node) if call_name(c).split(".")[-1] in ("splitext", "rsplit", "rpartition", "partition", "split", "with_suffix", "stem")
               and any(isinstance(y, ast.Name) and y.id == fnp for a in c.args + ([c.func.value] if isinstance(c.func, ast.Attribute) else []) for y in ast.walk(a))]
    rep.check(not cutters, "SRC-1", "write_to_file never shortens the output name", "ok",
              "write_to_file applies %s to the output name" % [call_name(c) for c in cutters], where(wt, cutters[0]) if cutters else wt.where,
              witness="VersionConverter('rec.xml').write_to_file('rec.v1_1') overwrites rec.xml")
    for f in vc.methods.values():
        for c in calls_in(f.node):
            fn = call_name(c)
            rep.check(not (fn.startswith(("os.remove", "os.rename", "os.unlink", "shutil.")) or fn.endswith(".write") and "self.filename" in unparse(c)),
                      "SRC-1", "%s: %s" % (f.name, fn), "no destructive file operation", "%s calls %s" % (f.name, fn), where(f, c)) if \
                fn.startswith(("os.remove", "os.rename", "os.unlink", "shutil.")) else None
    compute_before_open(prog, rep, [vc.lookup_method("write_to_file")], "ORDER-1")
    from .rules_lints import class_level_mutables
    class_level_mutables(prog, rep, "CLS-1", ("VersionConverter",))
    rep.rule("SAME-1", "_replace_same_name_entities renames clashing names at every depth: its Section loop iterates <root>.iter('section') (all "
                       "descendants; findall / iterchildren / a plain loop over the root visit the top level only), and the Property loop visits "
                       "the Properties of that Section (iter + parent test, findall or iterchildren)")
    rs = prog.cls("VersionConverter").lookup_method("_replace_same_name_entities")
    if rs is None:
        raise AnalysisError("VersionConverter._replace_same_name_entities vanished")
    sx = Expander(rs, only_locations=False)
    sec_loops = []
    for fx in private_closure(rs):
        for lp in [x for x in walk_no_nested(fx.node) if isinstance(x, ast.For)]:
            t = (sx.text(lp.iter) if fx is rs else unparse(lp.iter))
            if re.search(r"['\"]section['\"]", t):
                sec_loops.append((fx, lp, t))
    rep.floor("SAME-1", len(sec_loops), 1, "loops over section elements in _replace_same_name_entities")
    for fx, lp, t in sec_loops:
        rep.check(bool(re.search(r"\.(iter|iterdescendants|getiterator)\(\s*['\"]section['\"]|\.(findall|iterfind)\(\s*['\"]\.//section['\"]", t)), "SAME-1", "Sections of every depth are visited", t[:50],
                  "_replace_same_name_entities visits the Sections with `%s`: only the direct children of the root - clashing names below the top "
                  "level stay, and the second of two equal names is lost when the converted file is loaded" % t[:60], where(fx, lp),
                  witness="two sub-Sections 'rec' under one Section in a v1.0 file: one of them is missing from the converted document")

    rep.rule("DICT-2", "the dictionary front end (_parse_dict_sections / _parse_dict_properties / _parse_dict_values and what they call) abandons no "
                       "item of its input lists: the loop over the list parameter has no continue / break of its own (a loop over the keys of one "
                       "item may skip an empty key). What is not exported is dropped later by _convert, which "
                       "logs it (LOG-1); an item skipped here disappears without a log entry - and only for JSON / YAML sources")
    n_loops = 0
    for nm in ("_parse_dict_sections", "_parse_dict_properties", "_parse_dict_values"):
        f0 = prog.cls("VersionConverter").lookup_method(nm)
        if f0 is None:
            raise AnalysisError("VersionConverter.%s vanished" % nm)
        for fx in private_closure(f0):
            if fx.name in ("_log",):
                continue
            for lp in [x for x in walk_no_nested(fx.node) if isinstance(x, ast.For) and isinstance(x.iter, ast.Name) and x.iter.id in fx.params]:
                n_loops += 1

                def own_jumps(stmts):
                    out = []
                    for b in stmts:
                        if isinstance(b, (ast.Continue, ast.Break)):
                            out.append(b)
                        elif not isinstance(b, (ast.For, ast.While, ast.FunctionDef, ast.ClassDef)):
                            for fld in ("body", "orelse", "finalbody"):
                                out += own_jumps(getattr(b, fld, None) or [])
                            for hd in getattr(b, "handlers", []):
                                out += own_jumps(hd.body)
                    return out
                jumps = own_jumps(lp.body)
                rep.check(not jumps, "DICT-2", "%s: loop over %s visits every item" % (fx.name, unparse(lp.iter if isinstance(lp, ast.For) else lp.test)[:30]), "no continue / break",
                          "%s skips items of `%s` with %s: such an item never becomes an element, so _convert cannot log that it was omitted"
                          % (fx.name, unparse(lp.iter if isinstance(lp, ast.For) else lp.test)[:40], type(jumps[0]).__name__.lower() if jumps else ""),
                          where(fx, jumps[0]) if jumps else fx.where,
                          witness="a JSON source with a Property without name: dropped without 'Omitted Property without name tag'")
    rep.floor("DICT-2", n_loops, 3, "loops of the dictionary front end")
    rep.assume("lxml element iteration tolerates removal of the current child (probed: the next sibling is pre-fetched)")


def count_map_rule(prog, rep, rule="MAP-2"):
    """_change_entity_name: first occurrence stores 1, every later one stores the incremented count (a count that is only read gives
    every repeated name the same suffix, and the reader drops all but one of the equally named siblings)."""
    rep.rule(rule, "VersionConverter._change_entity_name: every normal path stores into <count map>[<key>] (a plain store or an augmented one)")
    ce = prog.cls("VersionConverter").lookup_method("_change_entity_name")
    if ce is None:
        raise AnalysisError("VersionConverter._change_entity_name vanished")
    rep.saw_function(ce)
    g = build_cfg(ce)
    off = 1 if ce.has_self else 0
    cmap = ce.params[off + 1]
    stores = set(n.id for n in g.nodes if n.kind == "stmt" and isinstance(n.ast, (ast.Assign, ast.AugAssign))
                 and any(isinstance(t, ast.Subscript) and unparse(t.value) == cmap
                         for t in (n.ast.targets if isinstance(n.ast, ast.Assign) else [n.ast.target])))
    ok = bool(stores) and not reach_avoiding(g, g.entry, g.exit, lambda s0, k0, d0: d0.id in stores, skip_kinds=("exc",))
    rep.check(ok, rule, "_change_entity_name counts every occurrence", "a store into %s on every path" % cmap,
              "_change_entity_name can return without storing into %s: the count of a repeated name stops growing and the third, fourth ... "
              "sibling get the suffix of the second" % cmap, ce.where,
              witness="three sibling Sections named 'x' in a 1.0 file: x, x-2, x-2 - the reader drops the third")


def _blocks(fnode):
    """all statement lists (blocks) of a function."""
    out = []
    for n in ast.walk(fnode):
        for attr in ("body", "orelse", "finalbody"):
            b = getattr(n, attr, None)
            if isinstance(b, list) and b and isinstance(b[0], ast.stmt):
                out.append(b)
    return out


def _direct_ifs(loop):
    """if statements (including elif chains) directly in the loop body."""
    out = []
    stack = [s for s in loop.body if isinstance(s, ast.If)]
    while stack:
        n = stack.pop()
        out.append(n)
        if len(n.orelse) == 1 and isinstance(n.orelse[0], ast.If):
            stack.append(n.orelse[0])
    return out


def _iteration_paths(g, loop, limit=4000):
    """paths through one iteration of `loop`: from its 'iter' edge back to the loop node (or out of the function)."""
    out = []
    start = [m for k, m in loop.succ if k == "iter"]
    stack = [([(m, None)], set([m.id])) for m in start]
    while stack:
        path, seen = stack.pop()
        n = path[-1][0]
        succ = [(k, m) for k, m in n.succ if k != "exc"]
        if not succ:
            out.append(path)
            continue
        for k, m in succ:
            p2 = path[:-1] + [(n, k)]
            if m.id == loop.id or m.kind in ("exit", "raise_exit"):
                out.append(p2)
            elif m.id in seen:
                continue
            else:
                stack.append((p2 + [(m, None)], seen | set([m.id])))
            if len(out) > limit:
                raise AnalysisError("too many iteration paths")
    return out
