"""C02 - JSON/YAML save/load lossless, odML 1.1 dictionary layout.

Decided: table agreement, emitted keys within accepted keys, root layout agreement of
the three producers/consumers, JSON and YAML share one DictWriter/DictReader path,
no truthiness drop of set-but-falsy attributes, date/time serialiser covers the
non-JSON value types, reader/writer loops carry no state between siblings,
cardinality list <-> parser.
NOT decided: how PyYAML/json re-type scalars, text with surrounding whitespace,
equality with the XML form.
"""
import ast
import re

from ..astutil import local_aliases, xtext, value_cases, calls_in, call_name, where, truthiness_tests, kw
from ..cfg import build_cfg
from ..symtext import Expander, effect_calls
from ..model import canonical_name
from ..dataflow import sources_of, private_closure, reaching_defs, def_value, node_of_ast
from ..facts import MODEL_CLASSES
from ..model import AnalysisError, unparse, walk_no_nested
from . import common_tables as ct
from .rules_loops import loop_carried_state
from .rules_card import cardinality_roundtrip

DECIDED = [
    "TAB-5 format table <-> model class API",
    "TAB-7 every key the dict writer emits is accepted by the dict reader for the same format",
    "ROOT-1 writer, dict reader and RDF reader agree on the root keys 'Document'/'odml-version' and the version constant",
    "SIB-3 JSON and YAML use the same DictWriter/DictReader calls with no format specific transformation",
    "TRUTH-2 no set-but-falsy attribute (uncertainty 0, empty values) is dropped by a truthiness test, neither by the writer nor by the reader",
    "SER-1 the JSON/YAML serialisers cover date, time and datetime values and are not called with value-narrowing options",
    "RET-1 (shared with C05) the dtype converters return normal forms",
    "LOOP-1 reader and writer loops carry no state between sibling entries",
    "ID-3 (C04 PROV-2) the constructors keep a given id as str(uuid.UUID(id)): the id that was saved is the id after loading",
    "GET-1 the getters the writer reads return the object's own state (no inherited value is written as if it were set)",
    "READ-1 the dictionary reader only constructs: it never resolves links / includes (finalize, merge, clean) on what it read",
    "ORD-3 (dict half) parse_cardinality(list(c)) == c for every normal-form cardinality c",
]
NOT_DECIDED = [
    "scalar re-typing by PyYAML/json ('yes', '1e3', '2020-01-01')",
    "text with surrounding whitespace",
    "equality of the reloaded documents with each other and with the XML form",
]

WRITER_FUNCS = {"Document": "tools.dict_parser.DictWriter.to_dict",
                "Section": "tools.dict_parser.DictWriter.get_sections",
                "Property": "tools.dict_parser.DictWriter.get_properties"}
READER_FUNCS = {"Document": "tools.dict_parser.DictReader.to_odml",
                "Section": "tools.dict_parser.DictReader.parse_sections",
                "Property": "tools.dict_parser.DictReader.parse_properties"}


RESOLVERS = ("finalize", "clean", "merge", "unmerge")


def reader_constructs_only(prog, rep, entry_funcs, rule="READ-1"):
    """a reader returns what the file says: resolving stored links / includes (which copies the referenced content into the
    linking Section) is left to the caller (shared by the XML and the dictionary reader)."""
    rep.rule(rule, "no call of %s in the reader functions or the private helpers they use: a stored link / include stays a stored "
                   "path until the user resolves it" % (RESOLVERS,))
    n = 0
    for f in entry_funcs:
        for h in private_closure(f):
            n += 1
            bad = [c for c in calls_in(h.node) if isinstance(c.func, ast.Attribute) and c.func.attr in RESOLVERS]
            rep.check(not bad, rule, "%s resolves nothing" % h.short, "ok",
                      "%s calls .%s(): the loaded document gains the children of the referenced Sections (with new ids), which the "
                      "saved file never contained" % (h.short, bad[0].func.attr if bad else ""), where(h, bad[0]) if bad else h.where,
                      witness="save and reload a document whose Section stores an unresolved link: the reloaded Section has extra children")
    rep.floor(rule, n, len(entry_funcs), "reader functions inspected")


def falsy_set_attributes(prog, fname):
    """format attributes of model class F whose value domain has a falsy-but-set member:
    numeric ones (setter converts with float()/int() or tests isinstance(.., (int, float)))
    and list valued ones (getter returns a list copy)."""
    cls = prog.cls(MODEL_CLASSES[fname])
    out = {}
    for c in cls.mro:
        if not hasattr(c, "props"):
            continue
        for pname, acc in c.props.items():
            s = acc.get("setter")
            if s is not None:
                txt = unparse(s.node)
                if "float(" in txt or "(int, float)" in txt:
                    out.setdefault(pname, "numeric (0 and 0.0 are set values)")
            g = acc.get("getter")
            if g is not None:
                for n in ast.walk(g.node):
                    if isinstance(n, ast.Return) and isinstance(n.value, (ast.List, ast.ListComp)) or \
                            (isinstance(n, ast.Return) and isinstance(n.value, ast.Call) and call_name(n.value) == "list"):
                        out.setdefault(pname, "list ([] is a set value)")
    return out


def run(prog, rep):
    rep.decided = DECIDED
    rep.not_decided = NOT_DECIDED
    tabs, _ = ct.tab5_format_vs_class(prog, rep)
    dmod = prog.module_of("tools.dict_parser")
    omod = prog.module_of("tools.odmlparser")

    # ---------------------------------------------------------------- TAB-7
    rep.rule("TAB-7", "every key stored into the output dictionaries by DictWriter is the loop variable over "
                      "<F>.arguments_keys, its <F>.map(...) image, or a literal that the reader accepts "
                      "(member of _args or value of _map); the writer of format F loops over F's own table")
    owners = {}
    for fname, qn in sorted(WRITER_FUNCS.items()):
        root = prog.func(qn)
        rep.saw_function(root)
        tab = tabs[fname]
        accepted = set(tab["_args"]) | set(tab["_map"].values())
        found = _table_loops(prog, root, fname)
        rep.check(len(found) == 1, "TAB-7", "%s loops over odmlfmt.%s.arguments_keys" % (root.name, fname), "ok",
                  "the %s writer does not iterate its own format table" % fname, root.where,
                  witness="a %s attribute is never written or written under a foreign key" % fname)
        if len(found) != 1:
            continue
        f, loop = found[0]
        owners[fname] = f
        rep.saw_function(f)
        x = Expander(f, inline=prog)
        keyvar = loop.target.id if isinstance(loop.target, ast.Name) else None
        mapped = set()
        for n in ast.walk(loop):
            if isinstance(n, ast.Assign) and len(n.targets) == 1 and isinstance(n.targets[0], ast.Name):
                forms = [unparse(e0) for e0, _ in value_cases(x.expand(n.value))]
                # the loop variable expands to EACH(<table>); the mapped name is <table owner>.map(EACH(..)) or EACH(..) itself
                each = "EACH(odmlfmt.%s.arguments_keys)" % fname
                if forms and all(t0 in (each, "odmlfmt.%s.map(%s)" % (fname, each)) for t0 in forms):
                    mapped.add(n.targets[0].id)
        stores = [n for n in ast.walk(loop) if isinstance(n, ast.Assign)
                  and any(isinstance(t, ast.Subscript) for t in n.targets)]
        rep.floor("TAB-7", len(stores), 2, "dictionary stores in %s" % f.short)
        for st in stores:
            for t in st.targets:
                if not isinstance(t, ast.Subscript):
                    continue
                k = t.slice
                ktxt = unparse(k)
                if isinstance(k, ast.Name) and (k.id == keyvar or k.id in mapped):
                    good = True
                elif isinstance(k, ast.Constant):
                    good = k.value in accepted
                else:
                    good = False
                rep.check(good, "TAB-7", "%s: key %s" % (f.name, ktxt), "accepted by the %s reader" % fname,
                          "the writer stores under %s, which the reader does not accept for %s" % (ktxt, fname),
                          where(f, st), witness="attribute written under a key that is refused or ignored on load")
        # wrong-table use inside the function
        al = local_aliases(f.node)
        others = [c for c in calls_in(f.node) if xtext(c.func, al).startswith("odmlfmt.")
                  and not xtext(c.func, al).startswith("odmlfmt.%s." % fname)]
        rep.check(not others, "TAB-7", "%s uses only the %s table" % (f.name, fname), "ok",
                  "%s consults another format's table: %s" % (f.name, [unparse(c.func) for c in others]), f.where)
    for fname, qn in sorted(READER_FUNCS.items()):
        root = prog.func(qn)
        rep.saw_function(root)
        clos = private_closure(root)
        calls, maps, creates = [], [], []
        for h in clos:
            hx = Expander(h)
            for c in calls_in(h.node):
                ft = hx.text(c.func)
                if isinstance(c.func, ast.Attribute) and c.func.attr == "is_valid_attribute":
                    calls.append((h, c, hx.text(c.args[1]) if len(c.args) == 2 else "?"))
                if ft.startswith("odmlfmt.") and ft.endswith(".map"):
                    maps.append(ft)
                if ft.startswith("odmlfmt.") and ft.endswith(".create"):
                    creates.append(ft)
        good = bool(calls) and all(t0 == "odmlfmt.%s" % fname for _, _, t0 in calls)
        rep.check(good, "TAB-7", "%s validates keys against odmlfmt.%s" % (root.name, fname), "ok",
                  "%s does not validate its keys against the %s table: %s" % (root.name, fname, [t0 for _, _, t0 in calls]), root.where,
                  witness="a key of another object kind is accepted / a valid key refused")
        if not maps:
            # the mapping moved into a helper that is handed the format object: read the helper's call with the actual arguments put in
            for e in effect_calls(prog, root, lambda c: isinstance(c.func, ast.Attribute) and c.func.attr == "map", expanded=True):
                ft = unparse(e.call.func)
                if ft.startswith("odmlfmt.") and ft.endswith(".map"):
                    maps.append(ft)
        good = bool(maps) and all(m0 == "odmlfmt.%s.map" % fname for m0 in maps)
        rep.check(good, "TAB-7", "%s maps keys through odmlfmt.%s.map" % (root.name, fname), "ok",
                  "%s maps keys through another table: %s" % (root.name, maps), root.where)
        good = bool(creates) and all(c0 == "odmlfmt.%s.create" % fname for c0 in creates)
        rep.check(good, "TAB-7", "%s creates %s objects" % (root.name, fname), "ok",
                  "%s creates objects of another kind: %s" % (root.name, creates), root.where)
    iva = prog.func("tools.dict_parser.DictReader.is_valid_attribute")
    rep.saw_function(iva)
    txt = unparse(iva.node)
    rep.check("in %s.arguments_keys" % iva.params[2] in txt and "%s.revmap(" % iva.params[2] in txt, "TAB-7",
              "is_valid_attribute accepts arguments_keys and mapped names", "ok",
              "is_valid_attribute no longer accepts both the odML key and its python name", iva.where)

    # ---------------------------------------------------------------- ROOT-1
    rep.rule("ROOT-1", "ODMLWriter.to_string wraps {'Document': ..., 'odml-version': FORMAT_VERSION}; "
                       "DictReader.to_odml tests exactly these two keys and compares with the same constant; "
                       "RDFReader.parse_document produces the same layout")
    ts = prog.func("tools.odmlparser.ODMLWriter.to_string")
    rep.saw_function(ts)
    roots = [n for n in ast.walk(ts.node) if isinstance(n, ast.Dict)
             and any(isinstance(k, ast.Constant) and k.value == "Document" for k in n.keys)]
    rep.check(len(roots) == 1, "ROOT-1", "to_string builds one root dictionary", "ok",
              "no / several root dictionaries with key 'Document'", ts.where)
    for d in roots:
        keys = dict((k.value, v) for k, v in zip(d.keys, d.values) if isinstance(k, ast.Constant))
        rep.check(set(keys) == {"Document", "odml-version"} and len(d.keys) == 2, "ROOT-1", "writer root keys",
                  str(sorted(keys)), "root keys are %s" % sorted(map(str, keys)), where(ts, d),
                  witness="strict dict reader refuses the library's own output")
        if "odml-version" in keys:
            rep.check(ct.resolves_to_format_version(prog, omod, keys["odml-version"]), "ROOT-1",
                      "writer root version value", "FORMAT_VERSION",
                      "'odml-version' is %s, not info.FORMAT_VERSION" % unparse(keys["odml-version"]), where(ts, d))
    to = prog.func("tools.dict_parser.DictReader.to_odml")
    lits = set()
    cmp_ok = False
    for h in private_closure(to):
        hx = Expander(h)
        for n in ast.walk(h.node):
            if isinstance(n, ast.Compare) and isinstance(n.left, ast.Constant) and isinstance(n.ops[0], (ast.In, ast.NotIn)):
                lits.add(n.left.value)
            if isinstance(n, ast.Subscript) and isinstance(n.slice, ast.Constant) and isinstance(n.slice.value, str) and n.slice.value[:1].isupper():
                lits.add(n.slice.value)
            if isinstance(n, ast.Compare) and len(n.comparators) == 1 and "odml-version" in hx.text(n.left) \
                    and ct.resolves_to_format_version(prog, dmod, n.comparators[0]):
                cmp_ok = True
    rep.check({"Document", "odml-version"} <= lits, "ROOT-1", "reader root keys", str(sorted(lits)),
              "to_odml tests root keys %s" % sorted(lits), to.where)
    rep.check(cmp_ok, "ROOT-1", "reader compares 'odml-version' with FORMAT_VERSION", "ok",
              "to_odml no longer compares the version entry with info.FORMAT_VERSION", to.where)
    pd = prog.func("tools.rdf_converter.RDFReader.parse_document")
    rep.saw_function(pd)
    rmod = prog.module_of("tools.rdf_converter")
    rets = [n.value for n in ast.walk(pd.node) if isinstance(n, ast.Return) and isinstance(n.value, ast.Dict)]
    good = bool(rets)
    for d in rets:
        keys = dict((k.value, v) for k, v in zip(d.keys, d.values) if isinstance(k, ast.Constant))
        good = good and set(keys) == {"Document", "odml-version"} and \
            ct.resolves_to_format_version(prog, rmod, keys["odml-version"])
    rep.check(good, "ROOT-1", "RDFReader.parse_document layout", "same two keys, same constant",
              "RDFReader.parse_document returns another root layout", pd.where)

    # ----------------------------------------------------------------- SIB-3
    rep.rule("SIB-3", "YAML and JSON serialise the same dictionary object built by DictWriter().to_dict, and "
                      "both parse into self.parsed_doc which is handed unchanged to DictReader.to_odml")
    g = build_cfg(ts)
    dumps = [c for c in calls_in(ts.node) if call_name(c) in ("yaml.dump", "json.dumps", "yaml.safe_dump")]
    rep.floor("SIB-3", len(dumps), 2, "dump calls in to_string")
    args = set(unparse(c.args[0]) for c in dumps if c.args)
    rep.check(len(args) == 1, "SIB-3", "to_string: JSON and YAML dump the same object", str(sorted(args)),
                  "the dumps serialise different objects: %s" % sorted(args), ts.where,
                  witness="a document that loads differently from its JSON and its YAML file")
    for c in dumps:
        node = node_of_ast(g, c)
        if node is None or not c.args or not isinstance(c.args[0], ast.Name):
            rep.fail("SIB-3", "to_string|dump-arg", "dump argument is not a local name", where(ts, c))
            continue
        defs = reaching_defs(g, node, c.args[0].id)
        vals = [def_value(d, c.args[0].id) for d in defs]
        good = len(vals) == 1 and isinstance(vals[0], ast.Dict)
        rep.check(good, "SIB-3", "to_string: %s argument built once" % call_name(c), "one dict display reaches the dump",
                  "the object dumped by %s has %d reaching definitions" % (call_name(c), len(vals)), where(ts, c))
    td = [c for c in calls_in(ts.node) if unparse(c.func).endswith(".to_dict")]
    rep.check(len(td) == 1 and unparse(td[0].func) == "DictWriter().to_dict", "SIB-3", "to_string: one DictWriter().to_dict call",
              "ok", "expected exactly one DictWriter().to_dict(...) call", ts.where)
    n_dec = [0]
    for name in ("from_string", "from_file"):
        f0 = prog.func("tools.odmlparser.ODMLReader." + name)
        rep.saw_function(f0)
        n_tos = 0
        for f in private_closure(f0):
            me = f.params[0] if f.params else "self"
            tos = [c for c in calls_in(f.node) if unparse(c.func).endswith(".to_odml") and "RDF" not in unparse(c.func)]
            for c in tos:
                n_tos += 1
                recv = c.func.value
                srcs = sources_of(prog, f, recv) if isinstance(recv, ast.Name) else [(f, recv)]
                rtxt = "|".join(unparse(v) for _, v in srcs)
                good = all(isinstance(v, ast.Call) and call_name(v) == "DictReader" for _, v in srcs) and len(c.args) == 1 \
                    and unparse(c.args[0]) == "%s.parsed_doc" % me
                rep.check(good, "SIB-3", "%s: %s" % (name, unparse(c)[:50]), "DictReader(...).to_odml(self.parsed_doc)",
                          "dictionary is not handed unchanged to a DictReader: %s (receiver %s)" % (unparse(c)[:80], rtxt),
                          where(f, c))
            # every store to self.parsed_doc is a plain load call
            stores = [n for n in walk_no_nested(f.node) if isinstance(n, ast.Assign)
                      and any(unparse(t) == "%s.parsed_doc" % me for t in n.targets)]
            for st in stores:
                fn = call_name(st.value) if isinstance(st.value, ast.Call) else unparse(st.value)
                if fn in f.params and f is not f0:
                    # the decoder is a parameter of a private helper: what its callers pass
                    idx = f.params.index(fn) - (1 if f.has_self else 0)
                    passed = set()
                    for cf in private_closure(f0):
                        for c in calls_in(cf.node):
                            if unparse(c.func).split(".")[-1] == f.name:
                                a = c.args[idx] if 0 <= idx < len(c.args) else kw(c, fn, None)
                                passed.add(unparse(a) if a is not None else "?")
                    if passed and passed <= set(["yaml.safe_load", "json.load", "json.loads"]):
                        fn = sorted(passed)[0]
                    elif passed:
                        fn = "|".join(sorted(passed))
                rep.check(fn in ("yaml.safe_load", "json.load", "json.loads"), "SIB-3",
                          "%s: self.parsed_doc = %s(...)" % (name, fn), "plain parser call",
                          "self.parsed_doc is computed by %s" % fn, where(f, st))
                # ... and it is the decoder of the format the reader was built for (the inverse of the writer's dump): on every
                # path to the store the format test of that decoder has been taken
                if f is f0 and fn in ("yaml.safe_load", "json.load", "json.loads"):
                    want = "YAML" if fn.startswith("yaml") else "JSON"
                    g0 = build_cfg(f.node)
                    nd = node_of_ast(g0, st)
                    def _cls(leaf, _me=me):
                        m = re.match(r"^%s\.parser == '(\w+)'$" % re.escape(_me), unparse(leaf))
                        return ("is_" + m.group(1).upper()) if m else None
                    n_dec[0] += 1
                    from ..logic import known as _known
                    rep.check(_known(g0, nd, _cls, lambda a, w=want: a.get("is_" + w, False), ["is_" + want]), "SIB-3",
                              "%s: %s decodes %s only" % (name, fn, want), "the store is reached only where self.parser == '%s'" % want,
                              "%s decodes with %s on a path where the reader's format is not known to be %s: the text written by the "
                              "other format's dump is read by the wrong decoder" % (f.short, fn, want), where(f, st),
                              witness="JSON file with 1e-07 or a non-BMP character: yaml.safe_load reads a string / lone surrogates")
        rep.floor("SIB-3", n_tos, 1, "to_odml calls reachable from %s" % f0.short)

    # --------------------------------------------------------------- TRUTH-2
    rep.rule("TRUTH-2", "in the three DictWriter loops an attribute value is skipped only when unset "
                        "(None / empty string); a truthiness test is accepted only for formats none of whose "
                        "attributes has a falsy-but-set value (numeric or list valued)")
    for fname, qn in sorted(WRITER_FUNCS.items()):
        f = owners.get(fname) or prog.func(qn)
        risky = falsy_set_attributes(prog, fname)
        risky = dict((k, v) for k, v in risky.items()
                     if k in set(tabs[fname]["_map"].get(a, a) for a in tabs[fname]["_args"])
                     and k not in ("sections", "properties"))
        val_vars = set()
        for n in walk_no_nested(f.node):
            if isinstance(n, ast.Assign) and isinstance(n.value, ast.Call) and call_name(n.value) == "getattr":
                val_vars |= set(t.id for t in n.targets if isinstance(t, ast.Name))
        rep.floor("TRUTH-2", len(val_vars), 1, "getattr value variables in %s" % f.short)
        tests = []
        for n in walk_no_nested(f.node):
            if isinstance(n, ast.If):
                for txt, pol, e in truthiness_tests(n.test):
                    if isinstance(e, ast.Name) and e.id in val_vars and pol:
                        tests.append((n, txt))
        if not tests:
            rep.ok("TRUTH-2", "%s: no truthiness guard on attribute values" % f.name, "skips on None/'' only", f.where)
        for n, txt in tests:
            # a truthiness operand inside `tag and isinstance(tag, tuple)` only selects the encoding
            if _only_selects_encoding(n):
                rep.ok("TRUTH-2", "%s: `%s`" % (f.name, unparse(n.test)[:50]), "selects the list encoding of a tuple", where(f, n))
                continue
            rep.check(not risky, "TRUTH-2", "%s: truthiness guard `%s`" % (f.name, unparse(n.test)[:40]),
                      "no %s attribute has a falsy-but-set value" % fname,
                      "attributes %s have falsy-but-set values and are dropped by `if %s`" % (sorted(risky.items()), unparse(n.test)[:60]),
                      where(f, n), witness="uncertainty = 0 is None after a JSON/YAML round trip")

    # --------------------------------------------------------------- TRUTH-2 (reader side)
    rep.rule("TRUTH-2", "reader side: inside the key loops of to_odml / parse_sections / parse_properties (and their private helpers) no "
                        "branch tests the truthiness of the content of an entry (<entry>[<key>]); only the key decides whether an "
                        "entry is read - otherwise a set-but-falsy content (uncertainty 0) is dropped on load")
    for fname, qn in sorted(READER_FUNCS.items()):
        risky = dict((k, v) for k, v in falsy_set_attributes(prog, fname).items()
                     if k in set(tabs[fname]["_map"].get(a0, a0) for a0 in tabs[fname]["_args"]) and k not in ("sections", "properties"))
        n_loops = 0
        for h in private_closure(prog.func(qn)):
            for lp in walk_no_nested(h.node):
                if not (isinstance(lp, ast.For) and isinstance(lp.iter, ast.Name) and isinstance(lp.target, ast.Name)):
                    continue
                entry = lp.iter.id
                uses_key = any(isinstance(y, ast.Subscript) and isinstance(y.value, ast.Name) and y.value.id == entry for y in ast.walk(lp)) or \
                    any(isinstance(y, ast.Call) and isinstance(y.func, ast.Attribute) and y.func.attr == "is_valid_attribute" and y.args
                        and unparse(y.args[0]) == lp.target.id for y in ast.walk(lp))
                if not uses_key:
                    continue
                n_loops += 1
                bad = []
                for n in ast.walk(lp):
                    tests = [n.test] if isinstance(n, (ast.If, ast.IfExp, ast.While)) else []
                    for t0 in tests:
                        for txt, pol, e0 in truthiness_tests(t0):
                            if isinstance(e0, ast.Subscript) and isinstance(e0.value, ast.Name) and e0.value.id == entry:
                                bad.append((n, txt))
                if not bad:
                    rep.ok("TRUTH-2", "%s: entries are selected by key only" % h.name, "no truthiness test on <entry>[<key>]", where(h, lp))
                for n, txt in bad:
                    rep.check(not risky, "TRUTH-2", "%s: truthiness test on the content `%s`" % (h.name, txt), "no %s attribute has a falsy-but-set value" % fname,
                              "the %s reader skips an entry when its content `%s` is falsy: %s are set values and are lost on load"
                              % (fname, txt, sorted(risky)), where(h, n), witness="uncertainty: 0 in a JSON/YAML file loads as None")
        if fname != "Document":
            rep.floor("TRUTH-2", n_loops, 1, "key loops of the %s reader" % fname)

    # ----------------------------------------------------------------- SER-1
    rep.rule("SER-1", "JSONDateTimeSerializer.default converts datetime.datetime, datetime.date and datetime.time; "
                      "a representer for datetime.time is registered for YAML (PyYAML represents date/datetime natively)")
    ser = prog.func("tools.odmlparser.JSONDateTimeSerializer.default")
    rep.saw_function(ser)
    txt = unparse(ser.node)
    handled = set()
    for c in calls_in(ser.node):
        if call_name(c) == "isinstance" and len(c.args) == 2:
            types = c.args[1]
            # the class tuple kept in a class level constant (self._TYPES / Cls._TYPES) or a module level one
            if isinstance(types, ast.Attribute) and isinstance(types.value, ast.Name) and ser.cls is not None \
                    and types.value.id in (ser.params[0] if ser.params else "self", ser.cls.name, "cls") and ser.cls.lookup_attr(types.attr) is not None:
                types = ser.cls.lookup_attr(types.attr)
            elif isinstance(types, ast.Name) and len(ser.module.assigns.get(types.id, [])) == 1:
                types = ser.module.assigns[types.id][0]
            for e0 in (types.elts if isinstance(types, ast.Tuple) else [types]):
                handled.add(canonical_name(prog, ser, e0))
    for t in ("datetime.datetime", "datetime.date", "datetime.time"):
        rep.check(t in handled, "SER-1", "JSON serialiser handles %s" % t, "ok", "%s values make json.dumps raise" % t, ser.where,
                  witness="a %s valued Property cannot be saved as JSON" % t.split(".")[1])
    # the text written for a date / time value is the ISO text (str / isoformat) that the dtype converters parse back on every platform; strftime
    # pads %Y only where the C library does ("850-06-01" on glibc), which strptime then refuses
    for r0 in [y for y in walk_no_nested(ser.node) if isinstance(y, ast.Return) and y.value is not None]:
        for c in calls_in(r0.value):
            if isinstance(c.func, ast.Attribute) and c.func.attr in ("strftime", "__format__") or (call_name(c) == "format" and len(c.args) == 2):
                rep.fail("SER-1", "JSON serialiser|strftime", "JSONDateTimeSerializer.default renders with `%s`: the year of a date before 1000 is "
                                                              "written without leading zeros on glibc and cannot be read back" % unparse(c)[:50], where(ser, c),
                         witness="a date 0850-06-01 saved as JSON: '850-06-01', load fails")
    rep.check("json.JSONEncoder.default(self" in txt or "super(" in txt, "SER-1", "JSON serialiser defers unknown types", "ok",
              "unknown types are no longer rejected by the base encoder", ser.where)
    reps = [c for c in calls_in(ts.node) if call_name(c) == "yaml.add_representer"]
    rep.check(any(canonical_name(prog, ts, c.args[0]) == "datetime.time" for c in reps if c.args), "SER-1", "YAML representer for datetime.time",
              "ok", "no representer for datetime.time is registered before yaml.dump", ts.where)
    cls_kw = [c for c in calls_in(ts.node) if call_name(c) == "json.dumps"]
    rep.check(all(any(k.arg == "cls" and unparse(k.value) == "JSONDateTimeSerializer" for k in c.keywords) for c in cls_kw) and cls_kw,
              "SER-1", "json.dumps uses JSONDateTimeSerializer", "ok", "json.dumps is called without the date/time encoder", ts.where)

    # the dump calls must not narrow the accepted value domain
    # allow_unicode=True makes PyYAML write U+0085 (NEL) raw inside a quoted scalar, which its own loader folds into a space
    NARROWING = {"allow_nan": False, "skipkeys": True, "check_circular": False, "allow_unicode": True}
    for c in [c0 for c0 in calls_in(ts.node) if call_name(c0) in ("json.dumps", "json.dump", "yaml.dump", "yaml.safe_dump")]:
        narrowing = [k.arg for k in c.keywords if k.arg in NARROWING and isinstance(k.value, ast.Constant) and k.value.value == NARROWING[k.arg]]
        rep.check(not narrowing, "SER-1", "%s accepts every value the model holds" % call_name(c), "no narrowing option",
                  "%s is called with %s: values the model accepts (non-finite floats, ...) can no longer be saved" % (call_name(c), narrowing), where(ts, c),
                  witness="a Property holding float('inf') cannot be saved as JSON")

    # ----------------------------------------------------------------- RET-1 (shared with C05)
    from .c05 import ret1_rule
    ret1_rule(prog, rep)

    # ---------------------------------------------------------------- LOOP-1
    funcs = []
    for q in list(READER_FUNCS.values()) + list(WRITER_FUNCS.values()):
        for h in private_closure(prog.func(q)):
            if h not in funcs:
                funcs.append(h)
    loop_carried_state(prog, rep, funcs, "LOOP-1")

    from ..report import import_verdicts
    import_verdicts(prog, rep, "C04", ("PROV-2",), "ID-3",
                    "the readers hand the stored id to the constructors: the only transformation on the way is the canonical spelling of the same UUID")
    ct.own_state_getters(prog, rep, "GET-1")
    # ---------------------------------------------------------------- READ-1
    reader_constructs_only(prog, rep, [prog.func(q) for q in READER_FUNCS.values()], "READ-1")

    # ----------------------------------------------------------------- ORD-3 / TAB-4
    cardinality_roundtrip(prog, rep, which=("dict",))
    rep.rule("TAB-4", "tuple valued attributes (cardinalities) are emitted as list(tuple) by the Section and Property "
                      "writers, and the readers pass every *_cardinality entry through parse_cardinality")
    for fname in ("Section", "Property"):
        f = prog.func(WRITER_FUNCS[fname])
        good = any(isinstance(n, ast.Assign) and any(isinstance(t, ast.Subscript) for t in n.targets)
                   and any(isinstance(e0, ast.Call) and call_name(e0) == "list" for e0, _ in value_cases(n.value))
                   for h in private_closure(f) for n in ast.walk(h.node))
        rep.check(good, "TAB-4", "%s writer emits list(tuple)" % fname, "ok", "tuple attributes are no longer emitted as lists", f.where)
        r = prog.func(READER_FUNCS[fname])
        calls = effect_calls(prog, r, lambda c: call_name(c).split(".")[-1] == "parse_cardinality")
        guard = bool(calls) and all(any(t0.endswith(".endswith('_cardinality')") and p0 for t0, p0 in e0.guards()) for e0 in calls)
        rep.check(bool(calls) and guard, "TAB-4", "%s reader parses *_cardinality entries" % fname, "ok",
                  "cardinality entries are no longer passed through parse_cardinality", r.where)
    ct.stateless_tools_rule(prog, rep, "STATE-2", ("DictWriter", "DictReader", "ODMLWriter", "ODMLReader"))
    # TUP-1: the tuple text form is for filled n-tuple Properties only
    rep.rule("TUP-1", "in the Property writer every call of odml_tuple_export lies on paths that know the value list to be non-empty (`<prop>.values` / "
                      "the value being exported is truthy) and the dtype to end in '-tuple': the text form of an empty list is the string '[]', "
                      "which loads back as one value")
    pw = prog.func(WRITER_FUNCS["Property"])
    texp = effect_calls(prog, pw, lambda c: call_name(c).split(".")[-1] == "odml_tuple_export")
    for e0 in texp:
        gs = e0.guards()
        arg_t = unparse(e0.call.args[0]) if e0.call.args else "?"
        filled = any(p0 and (t0.endswith(".values") or t0.endswith("._values") or t0 == arg_t) for t0, p0 in gs)
        tup = any(p0 and t0.endswith(".endswith('-tuple')") for t0, p0 in gs)
        rep.check(filled and tup, "TUP-1", "%s: %s" % (e0.func.short, unparse(e0.raw)[:50]), "only for filled n-tuple Properties",
                  "odml_tuple_export is applied on a path that does not know the values to be non-empty and the dtype to be an n-tuple "
                  "(known: %s): an empty tuple Property is written as the text '[]'" % [t0 for t0, _ in gs][-4:], where(e0.func, e0.raw),
                  witness="Property(dtype='2-tuple') without values: JSON/YAML load gives values == [None]")
    rep.floor("TUP-1", len(texp), 1, "tuple exports in the Property writer")
    from ..report import import_verdicts
    import_verdicts(prog, rep, "C07", ("DOM-5",), "GATE-1",
                    "the refusal of documents with validation errors in ODMLWriter.write_file looks at every error of the validation")
    rep.assume("json/yaml dump and load preserve the structure of dictionaries, lists and strings")


def _only_selects_encoding(ifnode):
    """`if tag and isinstance(tag, tuple): d[k] = list(tag)` followed by an elif that emits otherwise."""
    t = ifnode.test
    if isinstance(t, ast.BoolOp) and isinstance(t.op, ast.And):
        return any(isinstance(v, ast.Call) and call_name(v) == "isinstance" for v in t.values)
    return False


def _table_loops(prog, root, fname):
    """[(function, For node)] in root and its private helpers whose iterable is odmlfmt.<fname>.arguments_keys (aliases expanded)."""
    out = []
    for h in private_closure(root):
        al = local_aliases(h.node)
        for n in walk_no_nested(h.node):
            if isinstance(n, ast.For) and xtext(n.iter, al) == "odmlfmt.%s.arguments_keys" % fname:
                out.append((h, n))
    return out
