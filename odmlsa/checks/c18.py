"""C18 - background loading of terminologies/templates is transparent in every schedule.

Decided (ordering clauses, for terminology.Terminologies and templates.TemplateHandler alike):
a fetch completes (read + decode) before the cache file is opened for writing and a failed fetch
reaches no file write; a loader thread is registered in `loading` before it is started, only for
unknown URLs; load() joins a registered loader before it removes the entry and retries; a document
is published in the shared table only after parsing AND finalisation completed, by nobody else;
the callers request the deferred load before the synchronous one; the two sibling implementations
agree clause by clause.
NOT decided: equivalence of all interleavings, data races on the two unlocked dictionaries,
blocking on cyclic includes, cache staleness - these need schedule enumeration (another technique).
"""
import ast

from ..astutil import calls_in, call_name, where
from ..cfg import build_cfg, enclosing_handlers
from ..dataflow import def_value, node_defs, reaching_defs, private_closure
from ..logic import known, reach_avoiding
from ..symtext import Expander
from ..model import AnalysisError, unparse, walk_no_nested
from .rules_order import compute_before_open, is_write_open

DECIDED = [
    "ORDER-2 in both cache_load functions the write-mode open is dominated by the completed urlopen().read() and decode; the failing-fetch path reaches no write; nothing fallible runs while the cache file is open (ORDER-1)",
    "ORDER-3 deferred_load: self.loading[url] = Thread(...) precedes .start() on that entry, both only when url is in neither table",
    "ORDER-4 load: on the `url in self.loading` branch join() precedes pop() precedes the retry, which ends the call",
    "ORDER-5 _load: the only store into the shared table follows from_file(...) and finalize(); nothing else writes the table except clear() in refresh",
    "DOM-7 the repository and include setters call deferred_load before load",
    "PARSE-2 the loaders' XML parser does not repair malformed input (a truncated resource yields None, never a cached partial document)",
    "SIB-4 terminology and templates agree on the clauses above",
    'SYM-1 a class level switch of the loader classes is assigned on one object only (instance or class)',
]
NOT_DECIDED = ["equivalence of all interleavings / linearizability", "data races on the unlocked loaded/loading dictionaries",
               "blocking forever on cyclic includes", "cache staleness"]

IMPLS = (("terminology", "Terminologies"), ("templates", "TemplateHandler"))


def _node_with(g, pred):
    return [n for n in g.nodes if n.kind in ("stmt", "return", "branch", "with") and pred(n)]


def run(prog, rep):
    rep.decided = DECIDED
    rep.not_decided = NOT_DECIDED

    # ----------------------------------------------------------------- PARSE-2
    rep.rule("PARSE-2", "the XMLParser the loaders read with is built without recover=<anything but False>: a resource that is cut off or "
                        "otherwise malformed makes from_file raise ParserException, which _load turns into None")
    from .c16 import xml_parser_options
    xml_parser_options(prog, rep, "PARSE-2", ("recover",))

    switch_one_object_rule(prog, rep, "SYM-1")

    # ----------------------------------------------------------------- ORDER-2
    rep.rule("ORDER-2", "cache_load: the node that opens the cache file for writing is dominated by the statements "
                        "`data = urlopen(url).read()` and `data = data.decode(...)`; those two lie in a try whose handler leaves the "
                        "function (return / re-raise) without any file write; ORDER-1 holds for the open")
    for modname, _ in IMPLS:
        f = prog.func(modname + ".cache_load")
        rep.saw_function(f)
        g = build_cfg(f)
        opens = []
        for n in g.nodes:
            for r in n.expr_roots():
                for c in calls_in(r):
                    if is_write_open(c):
                        opens.append(n)
        rep.check(len(opens) == 1, "ORDER-2", "%s: one write-mode open" % f.short, "ok", "expected exactly one write-mode open in cache_load", f.where)
        # the statements that compute what is written: definitions reaching the <file>.write(...) argument, followed backwards
        x = Expander(f, g, inline=prog)
        chain_nodes = []
        if len(opens) == 1:
            o = opens[0]
            writes = [n for n in g.nodes if n.kind == "stmt" and g.dominates(o, n) and n.id != o.id
                      and any(isinstance(c.func, ast.Attribute) and c.func.attr == "write" for c in calls_in(n.ast))]
            todo = []
            for w in writes:
                for c in calls_in(w.ast):
                    if isinstance(c.func, ast.Attribute) and c.func.attr == "write":
                        todo += [(w, y.id) for a0 in c.args for y in ast.walk(a0) if isinstance(y, ast.Name)]
            seen_defs = set()
            depth = 0
            while todo and depth < 6:
                nxt = []
                for at, name in todo:
                    for d in reaching_defs(g, at, name):
                        if d.kind == "entry" or d.id in seen_defs:
                            continue
                        seen_defs.add(d.id)
                        chain_nodes.append(d)
                        v = def_value(d, name)
                        if v is not None:
                            nxt += [(d, y.id) for y in ast.walk(v) if isinstance(y, ast.Name) and isinstance(y.ctx, ast.Load)]
                todo = nxt
                depth += 1
        texts = [x.text(n.ast.value, n) if isinstance(n.ast, ast.Assign) else unparse(n.ast) for n in chain_nodes]
        # a definition computed by a private helper is read through the helper's return values; the helper must let a failing
        # fetch out (a handler that returns normally would hand a non-text value to the writer)
        from ..symtext import _is_private_helper_call
        for i, n in enumerate(list(chain_nodes)):
            v = n.ast.value if isinstance(n.ast, ast.Assign) else None
            tgt = _is_private_helper_call(f, v) if isinstance(v, ast.Call) else None
            if tgt is None or tgt is f:
                continue
            rep.saw_function(tgt)
            hg = build_cfg(tgt)
            hx = Expander(tgt, hg, inline=prog)
            rets = [m for m in hg.nodes if m.kind == "return" and m.ast.value is not None]
            texts[i] = texts[i] + " = " + " | ".join(hx.text(m.ast.value, m) for m in rets)
            swallowing = [hn for m in rets for h in enclosing_handlers(hg, m) for k2, hn in h.succ
                          if k2 == "except" and hg.reaches(hn, hg.exit, skip_kinds=("exc",))]
            rep.check(not swallowing, "ORDER-2", "%s: %s lets a failing fetch out" % (f.short, tgt.name), "handlers re-raise",
                      "%s catches the failure of the fetch and returns normally: cache_load goes on and writes the cache file" % tgt.name,
                      tgt.where, witness="an unreachable resource leaves a cache file holding 'None'")
        fetch = [n for n, t in zip(chain_nodes, texts) if "urlopen(" in t and ".read()" in t]
        dec = [n for n, t in zip(chain_nodes, texts) if ".decode(" in t]
        rep.check(len(fetch) >= 1 and len(dec) >= 1, "ORDER-2", "%s: fetch and decode statements" % f.short, "ok",
                  "what cache_load writes into the cache file is not computed from urlopen(..).read() and .decode(..): %s" % texts, f.where)
        if len(opens) == 1 and fetch and dec:
            o = opens[0]
            rep.check(all(g.dominates(n, o) for n in fetch + dec), "ORDER-2",
                      "%s: fetch and decode complete before the cache file is opened" % f.short, "dominance",
                      "the cache file can be opened before the resource was fetched and decoded: a failing fetch/decode leaves an empty or truncated cache file",
                      where(f, o.ast), witness="a resource that cannot be read or is not valid UTF-8, cache empty or stale")
            for st in sorted(set(fetch + dec), key=lambda n: n.id):
                # a failure of the statement must not lead to the open: every handler around it leaves the function (return /
                # re-raise) without reaching the open; without a handler the exception leaves cache_load by itself
                hs = enclosing_handlers(g, st)
                ok = True
                for h in hs:
                    for k2, hn in h.succ:
                        if k2 == "except" and g.reaches(hn, o, skip_kinds=("exc",)):
                            ok = False
                rep.check(ok, "ORDER-2", "%s: `%s` failing reaches no write" % (f.short, unparse(st.ast)[:30]), "the failure leaves the function",
                          "a handler around `%s` continues to the statement that opens the cache file: a failing fetch still writes the file"
                          % unparse(st.ast)[:50], where(f, st.ast),
                          witness="load(url) of an unreachable/undecodable resource leaves an empty cache file")
        compute_before_open(prog, rep, [f], "ORDER-1")

    for modname, cname in IMPLS:
        cls = prog.cls(cname)
        # ------------------------------------------------------------- ORDER-3
        rep.rule("ORDER-3", "deferred_load: `self.loading[url] = threading.Thread(target=self._load, args=(url,))` then "
                            "`self.loading[url].start()`, both after `if url in self or url in self.loading: return`")
        f = cls.lookup_method("deferred_load")
        rep.saw_function(f)
        g = build_cfg(f)
        me, url = f.params[0], f.params[1]
        entry = "%s.loading[%s]" % (me, url)
        x = Expander(f, g)
        reg = _node_with(g, lambda n: n.kind == "stmt" and isinstance(n.ast, ast.Assign) and unparse(n.ast.targets[0]) == entry)
        regval = x.text(reg[0].ast.value, reg[0]) if len(reg) == 1 else "?"
        start = _node_with(g, lambda n: n.kind == "stmt" and isinstance(n.ast, ast.Expr) and isinstance(n.ast.value, ast.Call)
                           and isinstance(n.ast.value.func, ast.Attribute) and n.ast.value.func.attr == "start"
                           and x.text(n.ast.value.func.value, n) in (entry, regval))
        ok = len(reg) == 1 and len(start) == 1 and g.dominates(reg[0], start[0])
        if ok:
            v = x.expand(reg[0].ast.value, reg[0])
            ok = isinstance(v, ast.Call) and call_name(v).endswith("Thread") and \
                any(k.arg == "target" and unparse(k.value) == "%s._load" % me for k in v.keywords) and \
                any(k.arg == "args" and unparse(k.value) == "(%s,)" % url for k in v.keywords)
        rep.check(ok, "ORDER-3", "%s.deferred_load registers the loader before starting it" % cname, "ok",
                  "%s.deferred_load does not (register Thread(target=self._load, args=(url,)) under loading[url], then start it)" % cname, f.where,
                  witness="load() called right after deferred_load() does not find the running loader and loads a second time")
        if len(reg) == 1:
            def classify(leaf, me=me, url=url, x=x):
                if isinstance(leaf, ast.Compare) and len(leaf.ops) == 1 and isinstance(leaf.ops[0], ast.In) and unparse(leaf.left) == url:
                    c0 = x.text(leaf.comparators[0])
                    return {me: "LOADED", "%s.loading" % me: "LOADING"}.get(c0)
                return None
            good = known(g, reg[0], classify, lambda a: not a["LOADED"], ["LOADED"]) and \
                known(g, reg[0], classify, lambda a: not a["LOADING"], ["LOADING"])
            rep.check(good, "ORDER-3", "%s.deferred_load only for unknown URLs" % cname, "every path to the registration knows: not loaded, not loading",
                      "the loader is started although the URL may be loaded or loading already", f.where,
                      witness="two loaders for one URL; the second overwrites the registration of the first")
        # ------------------------------------------------------------- ORDER-4
        rep.rule("ORDER-4", "load: inside `url in self.loading`: self.loading[url].join(), then self.loading.pop(url, None), then the "
                            "retry self.load(url) whose result is what load returns; the cached case returns self[url]; otherwise _load")
        f = cls.lookup_method("load")
        rep.saw_function(f)
        g = build_cfg(f)
        me, url = f.params[0], f.params[1]
        x = Expander(f, g)
        join = _node_with(g, lambda n: n.kind == "stmt" and isinstance(n.ast, ast.Expr) and isinstance(n.ast.value, ast.Call)
                          and isinstance(n.ast.value.func, ast.Attribute) and n.ast.value.func.attr == "join"
                          and x.text(n.ast.value.func.value, n) == "%s.loading[%s]" % (me, url))
        pop = _node_with(g, lambda n: n.kind == "stmt" and x.text(n.ast, n).startswith("%s.loading.pop(%s" % (me, url)))
        retry = [n for n in g.nodes if any(call_name(c) == "%s.load" % me for r in n.expr_roots() for c in calls_in(r))]
        loop_form = False
        if not retry and len(pop) == 1:
            # the retry written as a loop: after the pop control returns to the head of a loop that contains the whole decision
            # (cached? loading? else _load), which is what the recursive call does
            heads = [h for h in g.nodes if h.kind in ("branch", "for") and isinstance(h.ast, (ast.While, ast.For)) and g.dominates(h, pop[0])
                     and g.reaches(pop[0], h, skip_kinds=("exc",))]
            inner_load = [n for n in g.nodes if any(call_name(c) == "%s._load" % me for r in n.expr_roots() for c in calls_in(r))]
            if heads and all(g.dominates(heads[-1], n) for n in inner_load):
                retry = [heads[-1]]
                loop_form = True
        ok = len(join) == 1 and len(pop) == 1 and len(retry) == 1 and g.dominates(join[0], pop[0]) and \
            (g.dominates(pop[0], retry[0]) if not loop_form else True)
        rep.check(ok, "ORDER-4", "%s.load: join, then pop, then retry" % cname, "ok",
                  "%s.load does not join the loader before removing its registration and retrying" % cname, f.where,
                  witness="load() returns None / loads again while the loader thread is still running")
        if ok:
            def classify4(leaf, me=me, url=url, x=x):
                if isinstance(leaf, ast.Compare) and len(leaf.ops) == 1 and isinstance(leaf.ops[0], ast.In) and unparse(leaf.left) == url \
                        and x.text(leaf.comparators[0]) == "%s.loading" % me:
                    return "LOADING"
                return None
            rep.check(known(g, join[0], classify4, lambda a: a["LOADING"], ["LOADING"]), "ORDER-4", "%s.load joins only registered loaders" % cname, "ok",
                      "join is not guarded by `url in self.loading`", f.where)
            # after the retry nothing but returning its value: no second _load on that path
            later = [n for n in g.nodes if not loop_form and g.reaches(retry[0], n, skip_kinds=("exc",)) and
                     any(call_name(c) == "%s._load" % me for r in n.expr_roots() for c in calls_in(r))]
            rep.check(not later, "ORDER-4", "%s.load: the retry ends the call" % cname, "ok",
                      "after the retry %s.load falls through to a second synchronous _load" % cname, f.where)
        publish_after_finalize(prog, rep, cls, cname, "ORDER-5")
        for m in cls.methods.values():
            if m.name in ("_load",):
                continue
            for n in walk_no_nested(m.node):
                if isinstance(n, ast.Assign) and any(isinstance(t, ast.Subscript) and m.params and unparse(t.value) == m.params[0] for t in n.targets):
                    rep.fail("ORDER-5", "%s|table-store" % m.short, "%s stores into the shared table" % m.short, where(m, n))
                if isinstance(n, ast.Call) and m.params and unparse(n.func) in tuple("%s.%s" % (m.params[0], x) for x in ("update", "setdefault", "__setitem__")):
                    rep.fail("ORDER-5", "%s|table-update" % m.short, "%s updates the shared table" % m.short, where(m, n))

    # ----------------------------------------------------------------- ESC-4
    rep.rule("ESC-4", "raise summary of TemplateHandler._load and Terminologies._load: no refusal that originates in the cache_load of their module "
                      "(fetch failed: URLError, no url scheme or undecodable bytes: ValueError) escapes - load() answers None for a resource that "
                      "cannot be fetched. (OSError of the cache directory itself is outside the statement.)")
    from .. import analysis as _an
    from ..raises import Raises as _R
    R4 = _R(_an.get(prog))
    for qn, origin in (("templates.TemplateHandler._load", "templates.cache_load"), ("terminology.Terminologies._load", "terminology.cache_load")):
        f4 = prog.func(qn)
        leaks = sorted(set(s4.exc for s4 in R4.summary(f4) if s4.origin[0] == origin and s4.exc not in ("OSError",)))
        rep.check(not leaks, "ESC-4", "%s: a failed fetch is answered with None" % qn, "nothing of %s escapes" % origin,
                  "%s lets %s raised in %s escape: load() raises instead of returning None" % (qn, leaks, origin), f4.where,
                  witness="load() of a template that is not UTF-8, or of a string without url scheme: UnicodeDecodeError / ValueError")

    # ----------------------------------------------------------------- INIT-2
    rep.rule("INIT-2", "the constructors of Document, Section and Property start no loader: no store in an __init__ goes through a setter that calls "
                       "terminology.deferred_load / terminology.load (they store _repository, _link, _include directly). Every reader builds its "
                       "objects with the constructors; a loader started while a terminology file is being parsed re-enters _load for the resource "
                       "that is loading and publishes a second document under its url")
    loaders = set()
    for cname in ("Sectionable", "BaseDocument", "BaseSection", "BaseProperty"):
        c0 = prog.cls(cname)
        for pname, acc in c0.props.items():
            st0 = acc.get("setter")
            if st0 is not None and any(call_name(c) in ("terminology.deferred_load", "terminology.load") for c in calls_in(st0.node)):
                loaders.add(pname)
    rep.check(bool(loaders), "INIT-2", "setters that start a loader", str(sorted(loaders)), "no setter calls terminology.deferred_load any more", "")
    for cname in ("BaseDocument", "BaseSection", "BaseProperty"):
        init = prog.cls(cname).lookup_method("__init__")
        for h in private_closure(init):
            me = h.params[0] if h.params else "self"
            for st0 in walk_no_nested(h.node):
                tg = st0.targets if isinstance(st0, ast.Assign) else []
                for t in tg:
                    if isinstance(t, ast.Attribute) and unparse(t.value) == me and t.attr in loaders:
                        rep.fail("INIT-2", "%s|self.%s =" % (h.short, t.attr), "%s assigns self.%s through the setter, which starts a background loader: "
                                 "parsing any file that carries this attribute starts loaders as a side effect" % (h.short, t.attr), where(h, st0),
                                 witness="load(root) where an included leaf names root as its <repository>: later load(root) calls return another object")
    rep.ok("INIT-2", "constructors store loader attributes directly", "%s" % sorted(loaders), "")

    # ----------------------------------------------------------------- DOM-7
    rep.rule("DOM-7", "Sectionable.repository setter calls terminology.deferred_load(url) for a non-empty url; the include setter calls "
                      "terminology.deferred_load(url) on a node that dominates terminology.load(url)")
    rs = prog.func("base.Sectionable.repository.setter")
    rep.check(any(call_name(c) == "terminology.deferred_load" for c in calls_in(rs.node)), "DOM-7", "repository setter triggers a deferred load", "ok",
              "the repository setter no longer calls terminology.deferred_load", rs.where)
    inc = prog.func("section.BaseSection.include.setter")
    g = build_cfg(inc)
    dl = [n for n in g.nodes if any(call_name(c) == "terminology.deferred_load" for r in n.expr_roots() for c in calls_in(r))]
    ld = [n for n in g.nodes if any(call_name(c) == "terminology.load" for r in n.expr_roots() for c in calls_in(r))]
    rep.check(len(dl) == 1 and len(ld) == 1 and g.dominates(dl[0], ld[0]), "DOM-7", "include setter: deferred_load before load", "ok",
              "the include setter does not call deferred_load before load", inc.where)

    # ----------------------------------------------------------------- SIB-4
    rep.rule("SIB-4", "both implementations expose load/_load/deferred_load with a class level `loading` dict and register Thread objects "
                      "in it; differences that do not affect the clauses are reported as notes")
    for modname, cname in IMPLS:
        cls = prog.cls(cname)
        rep.check(isinstance(cls.attrs.get("loading"), ast.Dict), "SIB-4", "%s.loading is a dict" % cname, "ok", "%s has no class level loading dict" % cname, cls.module.path)
        rep.check(all(cls.lookup_method(m) is not None for m in ("load", "_load", "deferred_load")), "SIB-4", "%s API" % cname, "ok",
                  "%s lacks load/_load/deferred_load" % cname, cls.module.path)
    t1 = unparse(prog.cls("Terminologies").lookup_method("_load").node)
    t2 = unparse(prog.cls("TemplateHandler").lookup_method("_load").node)
    if ("term = None" in t1) != ("doc = None" in t2):
        rep.note("sibling difference: Terminologies._load caches None after a parser error, TemplateHandler._load returns None without caching")
    rep.note("sibling difference: terminology.cache_load catches Exception around the fetch and returns None; templates.cache_load catches "
             "(ValueError, URLError), re-raises, and TemplateHandler._load turns that into None")
    from ..report import import_verdicts
    import_verdicts(prog, rep, "C16", ("KIND-1", "LIB-1"), "PARSE-4",
                    "load(url) returns None for a resource that cannot be parsed: XMLReader.from_file, which the loaders call with an open cache "
                    "file, turns every syntax error into ParserException - also when its source is a file object and not a path")
    import_verdicts(prog, rep, "C12", ("CACHE-2",), "CACHE-2",
                    "load(url) returns the document of that url: the cache file is named by a digest of the whole URL, so two resources with the "
                    "same last path component do not serve each other's content")
    from .rules_lints import no_memo_decorators, no_join_under_lock
    no_memo_decorators(prog, rep, "MEMO-1", ("odml.terminology", "odml.templates"),
                       "what they compute depends on the file system and on the tables of loaded documents (a cache directory that was "
                       "checked once may be gone when the next resource is stored)")
    no_join_under_lock(prog, rep, "LOCK-1", ("Terminologies", "TemplateHandler"))
    rep.assume("threading.Thread.join returns after the target function returned; dict get/set of single keys are atomic in CPython")


def publish_after_finalize(prog, rep, cls, cname, rule="ORDER-5"):
    """the loaded document enters the shared table only after finalize() (shared with C19: a half resolved document in the
    cache makes a second validation of the same object report something else)."""
    # ------------------------------------------------------------- ORDER-5
    rep.rule(rule, "_load: the store self[url] = <doc> is dominated by the call of XMLReader(...).from_file(...) and by "
                        "<doc>.finalize(); the stored value is that document (or None after a parser error); no other method "
                        "stores into the table; refresh may clear it")
    f = cls.lookup_method("_load")
    rep.saw_function(f)
    g = build_cfg(f)
    pub = _node_with(g, lambda n: n.kind == "stmt" and isinstance(n.ast, ast.Assign) and unparse(n.ast.targets[0]) == "%s[%s]" % (f.params[0], f.params[1]))
    from ..dataflow import private_closure
    clos = private_closure(f)
    parses = [n for h in clos for n in build_cfg(h).nodes if n.kind in ("stmt", "return") and ".from_file(" in unparse(n.ast)]
    fins = [n for h in clos for n in build_cfg(h).nodes if n.kind == "stmt" and unparse(n.ast).endswith(".finalize()")]
    rep.check(len(pub) == 1 and len(parses) == 1 and len(fins) == 1, rule, "%s._load: parse, finalize, publish" % cname, "ok",
              "%s._load (with its private helpers) no longer has exactly one parse, one finalize and one publishing store" % cname, f.where)
    if len(pub) == 1 and len(parses) == 1 and len(fins) == 1:
        good = _finalised(prog, f, g, pub[0], pub[0].ast.value, 0)
        rep.check(good, rule, "%s._load publishes only the finalised document" % cname, "ok",
                  "%s._load can store the document in the shared table before (or without) finalize() completed: a concurrent load() "
                  "takes the fast path and returns an unresolved document" % cname, where(f, pub[0].ast),
                  witness="deferred_load(mid) then load(top) while mid's loader is inside finalize(): top merges an unresolved mid")


def _finalised(prog, f, g, at, expr, depth):
    """value form of `publish after finalize`: expr, evaluated at node `at` of f, is None (parser error) or the result of from_file(...) on
    which finalize() completed on every path to `at` - directly, through a local, or as the return value of a private helper of
    which every return value is such a value"""
    from ..symtext import _is_private_helper_call
    if depth > 3 or expr is None:
        return False
    if isinstance(expr, ast.Constant) and expr.value is None:
        return True
    if isinstance(expr, ast.Call):
        try:
            h = _is_private_helper_call(f, expr)
        except Exception:
            h = None
        if h is None or h is f:
            return False
        hg = build_cfg(h)
        rets = [n for n in hg.nodes if n.kind == "return"]
        if not rets:
            return False
        falls = any(k0 not in ("return", "exc") and p.kind not in ("raise", "return") for k0, p in hg.exit.pred)
        return all(_finalised(prog, h, hg, n, n.ast.value, depth + 1) if n.ast.value is not None else True for n in rets) and not (falls and False)
    if not isinstance(expr, ast.Name):
        return False
    var = expr.id
    for d in reaching_defs(g, at, var):
        if d.kind == "entry":
            return False
        dv = def_value(d, var)
        if isinstance(dv, ast.Constant) and dv.value is None:
            continue
        if dv is not None and ".from_file(" in unparse(dv):
            fin_ids = set(n.id for n in g.nodes if n.kind == "stmt" and unparse(n.ast) == "%s.finalize()" % var)

            def crossed(src, kind, dst, d=d):
                if src.id in fin_ids and kind != "exc":
                    return True
                return dst.id != d.id and var in node_defs(dst) and dst.id != at.id
            if reach_avoiding(g, d, at, crossed):
                return False
            continue
        if isinstance(dv, (ast.Call, ast.Name)) and _finalised(prog, f, g, d, dv, depth + 1):
            continue
        return False
    return True


def _reach_without(g, a, b, via):
    """is b reachable from a (normal edges and handler entries) on a path avoiding `via`?"""
    seen = set()
    stack = [a]
    while stack:
        n = stack.pop()
        if n.id in seen or n.id == via.id:
            continue
        seen.add(n.id)
        if n.id == b.id and n.id != a.id:
            # allowed only when the path went through an exception handler (parser error -> document None)
            return not getattr(n, "_via_handler", False) and _normal_path(g, a, b, via)
        for k, m in n.succ:
            stack.append(m)
    return False


def _normal_path(g, a, b, via):
    """b reachable from a avoiding via WITHOUT taking an exception edge out of the parse/finalize statements"""
    seen = set()
    stack = [a]
    while stack:
        n = stack.pop()
        if n.id in seen or n.id == via.id:
            continue
        seen.add(n.id)
        if n.id == b.id and n.id != a.id:
            return True
        for k, m in n.succ:
            if k == "exc":
                continue
            stack.append(m)
    return False


def switch_one_object_rule(prog, rep, rule="SYM-1"):
    """a class level switch is raised and lowered on the same object"""
    rep.rule(rule, "for every attribute that a loader class (odml.terminology, odml.templates) defines at class level and assigns in a method: "
                   "all the assignments go to the instance (self.<a>) or all go to the class (<Class>.<a>, cls.<a>, type(self).<a>). A switch raised "
                   "on the class and lowered on the instance leaves an instance attribute that shadows the class attribute for ever: the next "
                   "refresh() raises the class switch again, but _load reads the shadowing False and re-parses the stale cache file")
    n = 0
    for mname in ("terminology", "templates"):
        mod = prog.module_of(mname)
        for cls in mod.classes.values():
            level = set(k for k in cls.attrs)
            stores = {}
            for m in cls.methods.values():
                me = m.params[0] if m.params and m.has_self else None
                for st in ast.walk(m.node):
                    tgts = st.targets if isinstance(st, ast.Assign) else [st.target] if isinstance(st, (ast.AugAssign, ast.AnnAssign)) else []
                    for t in tgts:
                        if not (isinstance(t, ast.Attribute) and t.attr in level):
                            continue
                        r = unparse(t.value)
                        if me is not None and r == me and m.kind != "classmethod":
                            where_to = "instance"
                        elif r in (cls.name, "cls", "type(%s)" % me, "%s.__class__" % me) or (m.kind == "classmethod" and r == me):
                            where_to = "class"
                        else:
                            continue
                        stores.setdefault(t.attr, []).append((where_to, m, st))
            for attr, lst in sorted(stores.items()):
                n += 1
                kinds = sorted(set(w for w, _, _ in lst))
                odd = [x for x in lst if x[0] == "class"]
                rep.check(len(kinds) == 1, rule, "%s.%s is assigned on one object" % (cls.name, attr), kinds[0],
                          "%s.%s is assigned on the class in %s and on the instance in %s: the instance attribute shadows the class attribute "
                          "from then on" % (cls.name, attr, sorted(set(m.name for w, m, _ in lst if w == "class")), sorted(set(m.name for w, m, _ in lst if w == "instance"))),
                          where(odd[0][1], odd[0][2]) if odd else None,
                          witness="load, refresh, change the resource, refresh again: the second refresh re-reads the old cache file")
    rep.note("%s: %d class level attributes assigned in methods of the loader classes" % (rule, n))
