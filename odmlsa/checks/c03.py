"""C03 - the document is always a well-formed tree.

Invariant I: for every Section/Property o:  o._parent = X != None  <=>  o occurs exactly once in
the matching child list of X and in no other child list; the _parent relation is acyclic.

Decided: closed writer set for _parent and the child lists (induction base: everything else
reaches them only through the owner API), pairing of list membership and parent pointer on every
normal path of every writer (induction step, modular: calls to the owner API are replaced by
their verified contracts), detach-or-refuse before an object gets a second parent, an ancestry
guard before a Section is put below a Section, identity based removal, termination of the
parent chain walks.
NOT decided: that the ==-based lookups pick the intended element; behaviour on exceptional exits
(that is C06); index arithmetic of _reorder.
"""
import ast

from .. import analysis
from ..astutil import calls_in, call_name, where
from ..logic import entails, reach_avoiding
from ..symtext import _non_none
from ..model import AnalysisError, ClassInfo, unparse, walk_no_nested
from .rules_tree import (tree_events, path_facts, TreeState, norm_text, is_child_list_expr, CHILD_FIELDS, infeasible)

DECIDED = [
    "OWN-1 _parent and the child lists are written only by the enumerated owner functions; every other function goes through their API",
    "OWN-1b the live child lists handed out by the getters expose no inherited list mutator that bypasses the parent pointer",
    "PAIR-1 on every normal path of every owner function list membership and parent pointer end up consistent",
    "DOM-1 an object that may already have a parent is detached (or the operation refused) before it is listed elsewhere",
    "DOM-2 a Section is put below a container only behind an ancestry guard",
    "IDENT-1 removal from a child list is by identity, not by deep equality",
    "ALIAS-4 (shared with C12/C13) merge attaches fresh clones only: a source child that is attached itself would be listed under two parents",
    "WALK-1 every parent chain walk advances to the parent on every iteration and writes no parent pointer",
]
NOT_DECIDED = ["identity vs deep equality in name/== based lookups (__contains__, __getitem__)", "exceptional exits (C06)",
               "index arithmetic of _reorder (the moved object is re-inserted into the same list)"]

PARENT_WRITERS = {
    "base.SmartList.__setitem__": "replacement moves the pointer from the replaced to the new element",
    "base.Sectionable.insert": "owner API", "base.Sectionable.append": "owner API", "base.Sectionable.remove": "owner API",
    "base.Sectionable.clone": "detaches the fresh copy",
    "section.BaseSection.__init__": "initialises the fresh object", "section.BaseSection.parent.setter": "move",
    "section.BaseSection.append": "owner API", "section.BaseSection.insert": "owner API", "section.BaseSection.remove": "owner API",
    "property.BaseProperty.__init__": "initialises the fresh object", "property.BaseProperty.parent.setter": "move",
    "property.BaseProperty.clone": "detaches the fresh copy",
}
LIST_WRITERS = {
    "base.SmartList.__setitem__": "primitive", "base.SmartList.remove": "primitive", "base.SmartList.append": "primitive",
    "base.SmartList.sort": "reorders only",
    "base.Sectionable.insert": "owner API", "base.Sectionable.append": "owner API", "base.Sectionable.remove": "owner API",
    "section.BaseSection.append": "owner API", "section.BaseSection.insert": "owner API", "section.BaseSection.remove": "owner API",
    "section.BaseSection._reorder": "moves self within its parent's list", "property.BaseProperty._reorder": "moves self within its parent's list",
}
REBINDERS = {"base.Sectionable.__init__": "fresh object", "base.Sectionable.clone": "fresh copy",
             "section.BaseSection.__init__": "fresh object", "section.BaseSection.clone": "fresh copy"}
PRIMITIVES = ("base.SmartList.append", "base.SmartList.remove", "base.SmartList.sort")
INHERITED_MUTATORS = ("insert", "extend", "pop", "clear", "reverse", "__delitem__", "__iadd__", "__imul__")


def fresh_vars(an, f):
    out = set()
    for n in walk_no_nested(f.node):
        if isinstance(n, ast.Assign) and isinstance(n.targets[0], ast.Name) and isinstance(n.value, ast.Call):
            fn = call_name(n.value)
            if fn in ("copy.copy",) or fn.split(".")[-1] in ("clone", "BaseSection", "BaseProperty", "BaseDocument") \
                    or (isinstance(n.value.func, ast.Attribute) and n.value.func.attr == "clone"):
                out.add(n.targets[0].id)
    if f.name == "__init__" and f.params:
        out.add(f.params[0])
    return out


def simulate(an, f, path, in_smartlist):
    ax = an.alias_expander(f)
    st = TreeState(path_facts(path, expand=lambda t, n: ax.expand(t, n)))
    st.fresh_objs = set()
    me = f.params[0] if f.params else "self"
    pending_add = []
    for node, edge in path:
        if edge == "exc":
            # the exception is raised *by* this node: under the atomicity of the callees (C06) the raising call had no effect,
            # and a store after it in the same statement did not happen
            continue
        for ev in tree_events(an, f, node):
            k = ev["kind"]
            if ev.get("obj_ast") is not None:
                org = an.s.origin(ev["obj_ast"], f, node)
                if org and all(o[0] == "FRESH" for o in org):
                    st.fresh_objs.add(ev["obj"])
            if k in ("ADD_RAW", "ADD_SL"):
                st.add(ev["owner"], ev["obj"], ev["how"])
                pending_add.append((ev["owner"], ev["obj"]))
            elif k in ("DEL_RAW", "DEL_SL"):
                if ev.get("how") == "del" and pending_add:
                    # move-within-one-list idiom: insert(x) followed by del <same list>[i]
                    owner, obj = pending_add[-1]
                    if owner == ev["owner"] and st.ptr.get(obj) == "INIT":
                        st.listed[obj].discard(st.resolve(owner))
                        st.log.append("MOVE %s within %s" % (obj, owner))
                        continue
                st.delete(ev["owner"], ev["obj"], ev["how"])
            elif k == "SETP":
                val = ev["value"]
                if in_smartlist and val.endswith("]._parent") and val.startswith(me + "["):
                    val = "OWNER(%s)" % me      # axiom I: elements of a child list point to its owner
                st.setp(ev["obj"], val, "store")
            elif k == "REPLACE_RAW":
                st.add(ev["owner"], ev["obj"], "replace")
                st.delete(ev["owner"], "%s[%s]" % (me, ev["key"]), "replaced")
            elif k == "API_ADD":
                st.add(ev["owner"], ev["obj"], "api " + ev["how"])
                st.setp(ev["obj"], ev["owner"], "api " + ev["how"])
            elif k == "API_DEL":
                st.delete(ev["owner"], ev["obj"], "api remove")
                st.setp(ev["obj"], "None", "api remove")
            elif k == "API_SETPARENT":
                st._touch(ev["obj"])
                st.listed[ev["obj"]].discard("INIT")
                for o in list(st.listed[ev["obj"]]):
                    st.listed[ev["obj"]].discard(o)
                if ev["value"] == "None":
                    st.setp(ev["obj"], "None", "api parent=None")
                else:
                    st.add(ev["value"], ev["obj"], "api parent=")
                    st.setp(ev["obj"], ev["value"], "api parent=")
            elif k == "API_REPLACE":
                st._touch(ev["obj"])
                st.listed[ev["obj"]] = set([ev["owner"]])
                st.ptr[ev["obj"]] = ev["owner"]
    return st


def _dead_exception_path(R, f, path):
    """a path that leaves a node by its exception edge although nothing evaluated there can raise (explicit raises and the raise
    summaries of the callees, after discharge): e.g. the plain store `x._parent = self`."""
    from ..events import node_events
    evaluated = set()        # subscript expressions that were evaluated without raising earlier on this path
    for node, edge in path:
        evs = list(node_events(node))
        if edge != "exc" or node.kind == "raise":
            for ev in evs:
                if ev["kind"] == "load_sub":
                    evaluated.add(unparse(ev["ast"]))
                if ev["kind"] in ("store_sub", "del_sub") or (ev["kind"] == "call" and isinstance(ev["ast"].func, ast.Attribute)
                                                             and ev["ast"].func.attr in ("append", "insert", "remove", "extend", "pop", "clear", "__setitem__")):
                    evaluated.clear()
            continue
        live = False
        for ev in evs:
            if ev["kind"] == "load_sub" and unparse(ev["ast"]) in evaluated:
                continue      # the same lookup succeeded earlier on this path and nothing was added or removed since
            try:
                if R.event_raises(f, node, ev):
                    live = True
                    break
            except Exception:
                live = True
                break
        if not live:
            return True
    return False


def smartlist_detach_guard_ok(an, f):
    """SmartList.__setitem__: the statement that detaches `value` from its previous parent may be skipped only when value has no
    parent. Path form: every path to the primitive replacement that avoids the detaching call crosses a branch edge that forces
    not (hasattr(value, '_parent') and value._parent and value in value._parent); under invariant I the membership test follows
    from the pointer, so this is `value has no parent`."""
    g = an.s.cfg(f)
    ax = an.alias_expander(f)
    val = f.params[2] if len(f.params) > 2 else "value"
    dets, adds = [], []
    for n in g.nodes:
        for r in n.expr_roots():
            for c in calls_in(r):
                if isinstance(c.func, ast.Attribute) and c.func.attr == "remove" and c.args and norm_text(ax.expand(c.args[0], n)) == val \
                        and norm_text(_non_none(ax.expand(c.func.value, n))) == "%s._parent" % val:
                    dets.append(n)
                if isinstance(c.func, ast.Attribute) and c.func.attr == "__setitem__" and isinstance(c.func.value, ast.Call) \
                        and call_name(c.func.value) == "super":
                    adds.append(n)
    if not dets or not adds:
        return False, "no detaching call / no primitive replacement"
    det_ids = set(n.id for n in dets)

    def classify(leaf, br):
        t = norm_text(leaf)          # the whole test was expanded before it was decomposed
        if t == "hasattr(%s, '_parent')" % val:
            return "H"
        if t == "%s._parent" % val:
            return "P"
        if t == "%s._parent is None" % val:
            return "PN"
        if t == "%s in %s._parent" % (val, val):
            return "I"
        return None

    def edge_ok(src, kind, dst):
        if dst.id in det_ids:
            return True
        return src.kind == "branch" and kind in ("true", "false") and \
            entails(ax.expand(src.ast.test, src), kind == "true", lambda lf, src=src: classify(lf, src),
                    lambda a0: not (a0["H"] and a0["P"] and not a0["PN"] and a0["I"]), ["H", "P", "PN", "I"])
    ok = all(not reach_avoiding(g, g.entry, a0, edge_ok, skip_kinds=("exc",)) for a0 in adds)
    return ok, "hasattr(value, '_parent') and value._parent and value in value._parent"


def run(prog, rep):
    rep.decided = DECIDED
    rep.not_decided = NOT_DECIDED
    an = analysis.get(prog)
    an.note_coverage(rep)
    S = an.s

    # ----------------------------------------------------------------- OWN-1
    rep.rule("OWN-1", "every store to _parent, every mutation of a child list (kinds SmartList[...]) and every re-binding of "
                      "_sections/_props happens in an enumerated owner function; all other code (readers, merge, unmerge, extend, "
                      "create_*, export_leaf, templates, converters) reaches the tree state only through the owner API")
    n_sites = 0
    writers_seen = set()
    per_func_events = {}
    for f in prog.all_functions():
        g = S.cfg(f)
        evs = []
        for node in g.nodes:
            if not g.reachable(node):
                continue
            for ev in tree_events(an, f, node):
                evs.append((node, ev))
        if evs:
            per_func_events[f.qualname] = (f, evs)
        for node, ev in evs:
            k = ev["kind"]
            if k == "SETP":
                table, what = PARENT_WRITERS, "stores _parent"
            elif k in ("ADD_RAW", "DEL_RAW", "REPLACE_RAW", "ADD_SL", "DEL_SL"):
                table, what = LIST_WRITERS, "mutates a child list (%s)" % ev.get("how")
            elif k == "REBIND":
                table, what = REBINDERS, "re-binds %s" % ev["list"]
            else:
                continue
            n_sites += 1
            writers_seen.add(f.short)
            rep.check(prog.table_short(f) in table, "OWN-1", "%s %s" % (f.short, what), table.get(prog.table_short(f), ""),
                      "%s %s at `%s` but is not one of the owner functions: the tree invariant is no longer maintained "
                      "by a closed set of writers" % (f.short, what, unparse(node.ast).split("\n")[0][:60]), where(f, node.ast),
                      witness="after this operation a child is listed without / with a wrong parent pointer")
    rep.floor("OWN-1", n_sites, 30, "tree write sites")
    rep.floor("OWN-1", len(writers_seen), 14, "writer functions")
    rep.extra["tree_write_sites"] = n_sites
    rep.extra["tree_writer_functions"] = sorted(writers_seen)

    # ---------------------------------------------------------------- OWN-1b
    rep.rule("OWN-1b", "Sectionable.sections / BaseSection.properties return the live SmartList; every inherited list method that "
                       "adds or drops elements must be overridden (or refused) by SmartList, otherwise public code can change "
                       "membership without touching _parent")
    sl = prog.cls("SmartList")
    missing = [m for m in INHERITED_MUTATORS if m not in sl.methods]
    live = []
    for cname, prop in (("Sectionable", "sections"), ("BaseSection", "sections"), ("BaseSection", "properties"), ("BaseSection", "props")):
        gt = prog.cls(cname).lookup_prop(prop, "getter")
        if gt is not None:
            from ..facts import trivial_getter_field
            if isinstance(trivial_getter_field(gt), str):
                live.append("%s.%s" % (cname, prop))
    if live and missing:
        rep.fail("OWN-1b", "base.SmartList|inherited-mutators", "SmartList inherits %s from list unguarded while %s hand out the live list: "
                 "e.g. doc.sections.extend([...]) adds children without parent pointer and without name check" % (missing, live),
                 sl.module.path + ":%d" % sl.node.lineno, witness="doc.sections.extend([Section('a')]); doc.sections[0].parent is None")
    else:
        rep.ok("OWN-1b", "SmartList overrides every inherited mutator", "ok", sl.module.path)

    # ---------------------------------------------------------------- PAIR-1 / DOM-1
    rep.rule("PAIR-1", "symbolic simulation of every normal path of every owner function (calls to the owner API replaced by their "
                       "contracts append/insert: ADD+SETP(obj, owner); remove: DEL+SETP(obj, None); parent=: move): at the exit every "
                       "touched object is either untouched, attached (listed in X and _parent == X) or detached (in no list, _parent None)")
    rep.rule("DOM-1", "when an object is added to a list while it may still be listed in its previous parent (no removal on the path and "
                      "no path condition establishing that it has no parent) the function must detach or refuse; SmartList.__setitem__'s "
                      "detaching branch may be skipped only when the value has no parent")
    n_paths = 0
    from ..raises import Raises
    RZ = Raises(an)
    for qn, (f, evs) in sorted(per_func_events.items()):
        if f.short in PRIMITIVES:
            continue
        if not any(ev["kind"] in ("SETP", "ADD_RAW", "DEL_RAW", "ADD_SL", "DEL_SL", "REPLACE_RAW") for _, ev in evs):
            continue
        rep.saw_function(f)
        g = S.cfg(f)
        in_sl = f.cls is not None and f.cls.name == "SmartList"
        paths = [p for p in g.paths(loop_bound=1) if p[-1][0].kind in ("exit", "raise_exit") and not infeasible(an, f, p)
                 and not _dead_exception_path(RZ, f, p)]
        n_paths += len(paths)
        fresh = fresh_vars(an, f)
        worst = {}
        for p in paths:
            st = simulate(an, f, p, in_sl)
            for obj in st.touched:
                root = obj.split(".")[0].split("[")[0].split("(")[0]
                v, detail = st.verdict(obj, fresh=(root in fresh and obj == root) or obj in st.fresh_objs)
                if v != "ok":
                    key = (v, obj)
                    if key not in worst:
                        worst[key] = (detail, p, st)
        if not worst:
            rep.ok("PAIR-1", "%s: %d normal paths consistent" % (f.short, len(paths)), "membership and pointer agree at every exit", f.where)
        for (v, obj), (detail, p, st) in sorted(worst.items()):
            trace = " ; ".join(st.log[-6:])
            lines = "->".join("L%d" % n.lineno for n, _ in p if n.lineno)[:120]
            if v == "maydouble":
                if in_sl:
                    ok, guard = smartlist_detach_guard_ok(an, f)
                    rep.check(ok, "DOM-1", "%s|%s" % (f.short, obj), "the detaching branch is skipped only for values without parent (`%s`)" % guard,
                              "%s; the detaching guard `%s` can be false for a value that has a parent" % (detail, guard), f.where,
                              witness="container.sections[i] = obj with obj attached elsewhere: obj is listed twice")
                else:
                    rep.fail("DOM-1", "%s|%s" % (f.short, obj), detail + " [" + trace + "]", f.where,
                             witness="b.append(x) while x is a child of a: x is listed in a and in b")
            else:
                rep.fail("PAIR-1", "%s|%s|%s" % (f.short, obj, v), "%s on path %s [%s]" % (detail, lines, trace), f.where,
                         witness="call %s, then compare obj.parent with the parent's child list" % f.short)
    rep.analysed["paths"] += n_paths
    rep.floor("PAIR-1", n_paths, 30, "normal paths simulated")

    # ----------------------------------------------------------------- DOM-2
    rep.rule("DOM-2", "every function that lists a Section in a container which may itself be a Section must contain (or call a "
                      "helper containing) a walk of the destination's parent chain that raises when it meets the added object")
    for qn in ("base.Sectionable.append", "base.Sectionable.insert", "section.BaseSection.append", "section.BaseSection.insert",
               "base.SmartList.__setitem__"):
        f = prog.func(qn)
        rep.saw_function(f)
        rep.check(has_ancestry_guard(prog, S, f), "DOM-2", "%s|no-ancestry-guard" % f.short, "ancestry guard present",
                  "%s lists a Section without checking that it is not an ancestor of (or identical to) the destination: "
                  "a cycle makes get_path/document/itersections loop forever" % f.short, f.where,
                  witness="a = Section('a'); c = Section('c', parent=a); a.parent = c; a.get_path() never returns")

    # --------------------------------------------------------------- IDENT-1
    rep.rule("IDENT-1", "SmartList.index compares with `is`; SmartList.remove deletes self[self.index(obj)]; SmartList never "
                        "delegates removal/lookup to the inherited ==-based list methods (== is deep equality ignoring ids)")
    idx = sl.methods.get("index")
    rm = sl.methods.get("remove")
    if idx is None or rm is None:
        raise AnalysisError("SmartList.index / remove vanished")
    cmps = [n for n in walk_no_nested(idx.node) if isinstance(n, ast.Compare)]
    good = bool(cmps) and all(isinstance(o, (ast.Is, ast.IsNot)) for c in cmps for o in c.ops)
    rep.check(good, "IDENT-1", "SmartList.index compares by identity", "is", "SmartList.index compares with %s: an equal looking "
              "object of another parent selects (and removes) the wrong child" % [type(o).__name__ for c in cmps for o in c.ops], idx.where,
              witness="a.remove(<equal child of b>) silently drops a's own child")
    body = [s for s in rm.node.body if not (isinstance(s, ast.Expr) and isinstance(s.value, ast.Constant))]
    good = len(body) == 1 and isinstance(body[0], ast.Delete) and unparse(body[0].targets[0]) == "%s[%s.index(%s)]" % (rm.params[0], rm.params[0], rm.params[1])
    if not good:
        # `pos = self.index(obj); del self[pos]`
        from ..symtext import Expander as _Ex
        from ..cfg import build_cfg as _bc
        rg = _bc(rm)
        rx = _Ex(rm, rg)
        dels = [n for n in rg.nodes if n.kind == "stmt" and isinstance(n.ast, ast.Delete)]
        others = [n for n in rg.nodes if n.kind == "stmt" and not isinstance(n.ast, (ast.Delete, ast.Assign)) and
                  not (isinstance(n.ast, ast.Expr) and isinstance(n.ast.value, ast.Constant))]
        good = len(dels) == 1 and not others and len(dels[0].ast.targets) == 1 and isinstance(dels[0].ast.targets[0], ast.Subscript) \
            and rx.text(dels[0].ast.targets[0].slice, dels[0]) == "%s.index(%s)" % (rm.params[0], rm.params[1]) \
            and unparse(dels[0].ast.targets[0].value) == rm.params[0]
    rep.check(good, "IDENT-1", "SmartList.remove deletes self[self.index(obj)]", "ok",
              "SmartList.remove is `%s`: removal is no longer by identity" % "; ".join(unparse(s)[:60] for s in body), rm.where,
              witness="section.remove(clone_of_child) removes the real child, which keeps pointing to the section")
    for m in sl.methods.values():
        for c in calls_in(m.node):
            if isinstance(c.func, ast.Attribute) and isinstance(c.func.value, ast.Call) and call_name(c.func.value) == "super" \
                    and c.func.attr in ("remove", "index", "count", "__contains__"):
                rep.fail("IDENT-1", "%s|super.%s" % (m.short, c.func.attr), "%s delegates to list.%s, which compares with == (deep equality)"
                         % (m.short, c.func.attr), where(m, c))

    # --------------------------------------------------------------- ALIAS-4
    from .rules_merge import merge_adds_clones
    merge_adds_clones(prog, rep, S, "ALIAS-4")

    # ---------------------------------------------------------------- WALK-1
    rep.rule("WALK-1", "each `while` loop that walks the parent chain re-assigns its cursor from the cursor's own parent on every "
                       "iteration path and contains no store to _parent; under acyclicity (DOM-2) it terminates")
    walks = 0
    for f in prog.all_functions():
        if f.module.name not in ("odml.base", "odml.section", "odml.property", "odml.doc"):
            continue
        for n in walk_no_nested(f.node):
            if not isinstance(n, ast.While):
                continue
            t = norm_text(n.test)
            cursors = [x.id for x in ast.walk(n.test) if isinstance(x, ast.Name)]
            # `while (c := c.parent) is not None` is read as `while True: c = c.parent; if not ...: break`: the cursor is the local the body advances
            cursors += [m.targets[0].id for m in ast.walk(n) if isinstance(m, ast.Assign) and len(m.targets) == 1 and isinstance(m.targets[0], ast.Name)
                        and norm_text(m.value) == "%s._parent" % m.targets[0].id and m.targets[0].id not in cursors]
            if "._parent" not in t and not any(_advances(n, c) for c in cursors):
                continue
            walks += 1
            cur = [c for c in cursors if _advances(n, c)]
            good = bool(cur) and _advance_on_every_path(n, cur[0])
            no_store = not any(isinstance(m, ast.Attribute) and m.attr in ("_parent", "parent") and isinstance(m.ctx, ast.Store) for m in ast.walk(n))
            rep.check(good and no_store, "WALK-1", "%s: while %s" % (f.short, unparse(n.test)[:40]), "cursor advances to its parent on every iteration",
                      "the parent chain walk in %s does not advance on every iteration path (or writes _parent)" % f.short, where(f, n),
                      witness="the query loops forever on a well-formed tree")
    rep.floor("WALK-1", walks, 1, "parent chain walks")
    index_staleness_rule(prog, rep, "IDX-1")
    from ..report import import_verdicts
    import_verdicts(prog, rep, "C11", ("ALIAS-1",), "CLONE-P",
                    "a copy is made by copy.copy and carries the parent pointer of its original until clone() clears it: on every path to its "
                    "return clone() stores _parent = None (and fresh child lists), else the copy claims a parent that does not list it")
    rep.assume("objects are created only through the constructors (fresh objects satisfy I trivially)")
    rep.assume("user code does not assign _parent/_sections/_props directly (private attributes)")


def _advances(loop, cursor):
    for n in ast.walk(loop):
        if isinstance(n, ast.Assign) and isinstance(n.targets[0], ast.Name) and n.targets[0].id == cursor \
                and norm_text(n.value) == "%s._parent" % cursor:
            return True
    return False


def _advance_on_every_path(loop, cursor):
    """the statement `cursor = cursor.parent` is at the top level of the loop body, or every top-level alternative ends the loop"""
    for st in loop.body:
        if isinstance(st, ast.Assign) and isinstance(st.targets[0], ast.Name) and st.targets[0].id == cursor \
                and norm_text(st.value) == "%s._parent" % cursor:
            return True
        # statements before the advance must not `continue`
        if any(isinstance(m, ast.Continue) for m in ast.walk(st)):
            return False
    return False


def has_ancestry_guard(prog, S, f, depth=0):
    """a while/for loop re-assigning a cursor from its parent, with a raise (in the loop or right after a flag set in it)"""
    for n in walk_no_nested(f.node):
        if isinstance(n, (ast.While, ast.For)):
            adv = any(isinstance(m, ast.Assign) and norm_text(m.value).endswith("._parent") for m in ast.walk(n))
            rs = any(isinstance(m, ast.Raise) for m in ast.walk(n))
            ident = any(isinstance(m, ast.Compare) and any(isinstance(o, (ast.Is, ast.Eq)) for o in m.ops) for m in ast.walk(n))
            if adv and rs and ident:
                return True
    if depth < 2:
        for c in calls_in(f.node):
            for t in S.targets(c, f):
                if hasattr(t, "qualname") and t.qualname != f.qualname and t.module.name in ("odml.base", "odml.section") \
                        and t.name not in ("append", "insert", "remove", "__init__"):
                    if has_ancestry_guard(prog, S, t, depth + 1):
                        return True
    return False


_SHRINKING = ("remove", "pop", "__delitem__", "clear", "insert", "sort", "reverse")


def index_staleness_rule(prog, rep, rule="IDX-1"):
    """an element looked up by position is not used after something may have shifted the positions"""
    from ..cfg import build_cfg
    from ..dataflow import reaching_defs, def_value, node_uses
    rep.rule(rule, "in the methods of SmartList: a local bound to self[<index>] is not read after a call that can remove or move elements of a "
                   "child list (remove / pop / insert / del ...[...] on any receiver - the receiver may be this very list) unless it is looked up "
                   "again: after the shift the local names another element than self[<index>] does, and the parent pointers are swapped on the wrong pair")
    cls = prog.cls("SmartList")
    n = 0
    for f in cls.methods.values():
        if not f.params:
            continue
        me = f.params[0]
        g = build_cfg(f)
        looked = []
        for d in g.nodes:
            if d.kind == "stmt" and isinstance(d.ast, ast.Assign) and len(d.ast.targets) == 1 and isinstance(d.ast.targets[0], ast.Name) \
                    and isinstance(d.ast.value, ast.Subscript) and unparse(d.ast.value.value) == me:
                looked.append((d, d.ast.targets[0].id))
        if not looked:
            continue
        shifts = [m for m in g.nodes if any((isinstance(c.func, ast.Attribute) and c.func.attr in _SHRINKING) for r in m.expr_roots() for c in calls_in(r))
                  or (m.kind == "stmt" and isinstance(m.ast, ast.Delete))]
        for d, var in looked:
            n += 1
            bad = None
            for m in shifts:
                if not g.reaches(d, m, skip_kinds=("exc",)) or m.id == d.id:
                    continue
                for u in g.nodes:
                    if u.id != m.id and var in node_uses(u) and g.reaches(m, u, skip_kinds=("exc",)) and any(x.id == d.id for x in reaching_defs(g, u, var)):
                        bad = (m, u)
                        break
                if bad:
                    break
            rep.check(bad is None, rule, "%s: %s = %s" % (f.short, var, unparse(d.ast.value)[:30]), "used before any shift of positions",
                      "%s reads `%s` (= %s) at `%s` after `%s`, which can remove an element in front of that position: the local is no longer the "
                      "element at the index" % (f.short, var, unparse(d.ast.value)[:30], unparse(bad[1].ast).split("\n")[0][:50] if bad else "",
                                               unparse(bad[0].ast).split("\n")[0][:50] if bad else ""), where(f, d.ast),
                      witness="root.sections[1] = root.sections[0]: the wrong sibling loses its parent pointer")
    rep.note("%s: %d positional look-ups bound to locals in SmartList" % (rule, n))
