"""ORD-1/2/3: exhaustive order-type case analysis of the cardinality functions."""
import ast

from ..cfg import build_cfg
from ..logic import known, entails, reach_avoiding
from ..model import canonical_name
from ..symtext import Expander

from ..absint import Interp, Undecided, Raised, Opaque, ListOfLen
from ..astutil import bound_args, where, calls_in, call_name
from ..model import AnalysisError, unparse, walk_no_nested

# one representative per order type; 10 is there because its text is longer than
# that of 2 or 3 (text order != numeric order), -1 for negatives.
INTS = [-1, 0, 1, 2, 3, 10]
NONNEG = [0, 1, 2, 3, 10]
ELEMS = [None] + INTS + [1.5, 0.0, "", "1", "a", "None"]


def sem(x):
    """semantic bound: an absent bound and a bound of 0 on the minimum side are the same."""
    return None if x in (None, 0) else x


def is_normal_form(v):
    if v is None:
        return True
    if not (isinstance(v, tuple) and len(v) == 2):
        return False
    a, b = v
    for x in (a, b):
        if x is not None and not (isinstance(x, int) and not isinstance(x, bool) and x >= 0):
            return False
    if a is None and b is None:
        return False
    if not a and not b:
        return False
    if a is not None and b is not None and a > b:
        return False
    return True


def classify_setting(in_val):
    """('valid', (m, M)) / ('invalid',) / ('lenient',) for one cardinality setting."""
    isint = lambda x: isinstance(x, int) and not isinstance(x, bool)
    if in_val is None:
        return ("valid", (None, None))
    if isint(in_val):
        if in_val < 0:
            return ("invalid",)
        return ("valid", (None, sem(in_val)))
    if isinstance(in_val, (tuple, list)):
        if len(in_val) != 2:
            return ("invalid",) if len(in_val) else ("lenient",)   # () / [] are empty values: reset
        a, b = in_val
        if all(x is None or isint(x) for x in (a, b)):
            if any(isint(x) and x < 0 for x in (a, b)):
                return ("invalid",)
            if isint(a) and isint(b) and a > 0 and b > 0 and a > b:
                return ("invalid",)
            if isint(a) and a > 0 and isint(b) and b == 0:
                return ("lenient",)     # (n, 0): the code reads max 0 as "no maximum"
            return ("valid", (sem(a), sem(b)))
        # a non-int, non-None entry
        bad = [x for x in (a, b) if not (x is None or isint(x))]
        if any(x for x in bad):          # truthy garbage: 'a', 1.5, '1' ...
            return ("invalid",)
        return ("lenient",)              # falsy garbage ('' / 0.0) is read as "unset"
    if isinstance(in_val, float) or isinstance(in_val, str):
        return ("invalid",) if in_val else ("lenient",)
    return ("lenient",)


def settings_grid():
    grid = [None] + INTS + [1.5, 0.0, "", "a", "3", "(1, 2)", (), (1,), (1, 2, 3), [1], [1, 2, 3],
                                   (None,), (0,), [0], [None], (None, None, None), (0, 0, 0), [0, None, 0], (None, 1, None)]
    for a in ELEMS:
        for b in ELEMS:
            grid.append((a, b))
            grid.append([a, b])
    return grid


def normal_forms():
    out = []
    for a in [None] + NONNEG:
        for b in [None] + NONNEG:
            v = (a, b)
            if is_normal_form(v):
                out.append(v)
    return out


def _run(interp, *args):
    try:
        return ("ok", interp.call(*args))
    except Raised as exc:
        return ("raise", exc.cls)


def format_cardinality_rule(prog, rep):
    rep.rule("ORD-1", "format_cardinality over the full order-type grid of settings: the result is None or a "
                      "normal-form (min, max) pair (non-negative ints or None, not both empty, min <= max); valid "
                      "settings yield their own bounds; clearly invalid settings (negative, min > max, text, "
                      "non-zero float, wrong length) raise ValueError")
    f = prog.func("util.format_cardinality")
    rep.saw_function(f)
    grid = settings_grid()
    n_ok = 0
    for val in grid:
        it = Interp(f.node, module_funcs=dict((k, v.node) for k, v in f.module.functions.items()),
                        module_assigns=dict((k, v[-1]) for k, v in f.module.assigns.items() if v))
        try:
            kind, res = _run(it, val)
        except Undecided as exc:
            raise AnalysisError("ORD-1 undecided for input %r: %s" % (val, exc))
        cls = classify_setting(val)
        inst = "format_cardinality(%r)" % (val,)
        if kind == "raise":
            good = res == "ValueError" and cls[0] != "valid"
            detail = "raises %s" % res
            if not good:
                detail = ("raises %s for the valid setting %r" % (res, val)) if cls[0] == "valid" else \
                    "raises %s instead of ValueError" % res
        else:
            good = is_normal_form(res)
            detail = "-> %r" % (res,)
            if good and cls[0] == "valid":
                exp = cls[1]
                got = (None, None) if res is None else (sem(res[0]), sem(res[1]))
                good = got == exp
                if not good:
                    detail = "returns %r, expected bounds %r" % (res, exp)
            elif good and cls[0] == "invalid":
                good = False
                detail = "accepts the invalid setting %r as %r" % (val, res)
            elif not good:
                detail = "returns %r which is not a normal-form cardinality" % (res,)
        if good:
            n_ok += 1
        # one obligation per order type; key without line numbers
        rep.check(good, "ORD-1", inst, detail, detail, f.where,
                  witness="obj.val_cardinality = %r" % (val,))
    rep.extra["ord1_grid"] = len(grid)
    return n_ok


def _validation_env(prog):
    """module env / builtins for interpreting _cardinality_validation."""
    def b_getattr(interp, obj, name, *default):
        if isinstance(obj, Opaque) and name in obj.fields:
            return obj.fields[name]
        raise Undecided("getattr(%r, %r)" % (obj, name))

    def b_verr(interp, *args, **kwargs):
        return Opaque("ValidationError", {"args": args})
    return {"getattr": b_getattr, "ValidationError": b_verr}


def cardinality_validation_rule(prog, rep):
    rep.rule("ORD-2", "_cardinality_validation over order types of (child count, min, max): returns an issue "
                      "iff count < min or count > max; the three rule functions pass the matching cardinality "
                      "field, target attribute, warning rank and their own IssueID")
    f = prog.func("validation._cardinality_validation")
    rep.saw_function(f)
    builtins = _validation_env(prog)
    params = f.params
    if len(params) != 5:
        raise AnalysisError("_cardinality_validation signature changed: %s" % params)
    n = 0
    cards = [None] + normal_forms()
    for card in cards:
        for count in [0, 1, 2, 3, 4, 10, 11]:
            obj = Opaque("obj", {"children": ListOfLen([0] * count)})
            it = Interp(f.node, module_env={}, builtins=builtins, module_funcs=dict((k, v.node) for k, v in f.module.functions.items()),
                        module_assigns=dict((k, v[-1]) for k, v in f.module.assigns.items() if v))
            try:
                kind, res = _run(it, obj, card, "children", "warning", Opaque("id"))
            except Undecided as exc:
                raise AnalysisError("ORD-2 undecided for cardinality %r count %d: %s" % (card, count, exc))
            expected = False
            if card is not None:
                lo, hi = card
                expected = (lo is not None and count < lo) or (hi is not None and count > hi)
            inst = "_cardinality_validation(count=%d, cardinality=%r)" % (count, card)
            if kind == "raise":
                rep.fail("ORD-2", inst, "raises %s" % res, f.where)
                continue
            got = res is not None
            n += 1
            rep.check(got == expected, "ORD-2", inst,
                      "issue reported" if got else "no issue",
                      ("no issue reported although %d lies outside %r" % (count, card)) if expected else
                      ("issue reported although %d lies inside %r" % (count, card)), f.where,
                      witness="cardinality %r with %d children, then validate" % (card, count))
            if got and isinstance(res, Opaque):
                args = res.fields.get("args", ())
                rep.check(len(args) >= 4 and args[0] is obj and args[2] == "warning", "ORD-2",
                          inst + " issue fields", "bound to the object, rank passed through",
                          "the issue is not bound to the validated object / rank not passed through", f.where)
    # the three rule functions
    expect = {"section_properties_cardinality": ("prop_cardinality", "properties"),
              "section_sections_cardinality": ("sec_cardinality", "sections"),
              "property_values_cardinality": ("val_cardinality", "values")}
    vmod = prog.module_of("validation")
    for name, (field, attr) in sorted(expect.items()):
        if name not in vmod.functions:
            raise AnalysisError("validation.%s vanished" % name)
        rf = vmod.functions[name]
        rep.saw_function(rf)
        g = build_cfg(rf)
        x = Expander(rf, g)
        calls = [c for c in calls_in(rf.node) if canonical_name(prog, rf, c.func) == "validation._cardinality_validation"]
        ok = False
        detail = "no call to _cardinality_validation"
        call_txt = None
        cv_params = vmod.functions["_cardinality_validation"].params if "_cardinality_validation" in vmod.functions else []
        for c in calls:
            ba = bound_args(c, cv_params)
            if ba is not None and len(ba) >= 5 and all(y is not None for y in ba[:5]):
                a = [x.text(y) for y in ba]
                ok = (a[0] == rf.params[0] and a[1] == "%s.%s" % (rf.params[0], field)
                      and a[2] == repr(attr) and a[3] == "LABEL_WARNING" and a[4] == "IssueID.%s" % name)
                detail = "_cardinality_validation(%s)" % ", ".join(a)
                call_txt = x.text(c)
        rep.check(ok, "ORD-2", "%s arguments" % name, detail,
                  "%s does not pass (obj, obj.%s, %r, LABEL_WARNING, IssueID.%s): %s" % (name, field, attr, name, detail),
                  rf.where, witness="the %s cardinality is tested against the wrong child list or reported under the wrong id/rank" % field)
        # yields the issue iff one was returned: every yield hands out the call's result on paths that know it is truthy,
        # and the function cannot end without yielding on a path that does not know it is falsy
        ynodes = [n0 for n0 in g.nodes if n0.kind == "stmt" and isinstance(n0.ast, ast.Expr) and isinstance(n0.ast.value, ast.Yield)]

        def cl(leaf, br, x=x, call_txt=call_txt):
            return "ISSUE" if call_txt is not None and x.text(leaf, br) == call_txt else None
        ok = len(ynodes) >= 1 and call_txt is not None
        for yn in ynodes:
            v = yn.ast.value.value
            ok = ok and v is not None and x.text(v, yn) == call_txt and known(g, yn, cl, lambda a0: a0["ISSUE"], ["ISSUE"], with_node=True)
        if ok:
            yids = set(n0.id for n0 in ynodes)

            def edge_ok(src, kind, dst, yids=yids):
                if dst.id in yids:
                    return True
                return src.kind == "branch" and kind in ("true", "false") and \
                    entails(src.ast.test, kind == "true", lambda lf, src=src: cl(lf, src), lambda a0: not a0["ISSUE"], ["ISSUE"])
            ok = not reach_avoiding(g, g.entry, g.exit, edge_ok, skip_kinds=("exc",))
        rep.check(ok, "ORD-2", "%s yields exactly the returned issue" % name, "yield <issue> iff <issue>",
                  "the rule does not yield the issue returned by _cardinality_validation exactly when there is one", rf.where)
    return n


def _local_const(func, expr):
    """text of the value a local name was assigned once, else the expression text."""
    from ..astutil import local_assignments
    if isinstance(expr, ast.Name):
        defs = local_assignments(func.node, expr.id)
        if len(defs) == 1:
            return unparse(defs[0])
    return unparse(expr)


def cardinality_roundtrip(prog, rep, which=("xml", "dict")):
    rep.rule("ORD-3", "for every normal-form cardinality c (order types over {None, 0, 1, 2, 3, 10}): "
                      "parse_cardinality(render(c)) == c, where render is what the writer emits "
                      "(XML: str(tuple); JSON/YAML: list(tuple)); text that denotes no cardinality parses to None")
    n = 0
    forms = normal_forms()
    if "xml" in which:
        f = prog.func("tools.xmlparser.parse_cardinality")
        rep.saw_function(f)
        # writer side: the generic element branch renders with str(val)
        se = prog.func("tools.xmlparser.XMLWriter.save_element")
        from ..dataflow import private_closure
        generic = [c for h in private_closure(se) for c in calls_in(h.node) if call_name(c) == "E" and len(c.args) == 2
                   and isinstance(c.args[1], ast.Call) and call_name(c.args[1]) == "str"]
        rep.check(bool(generic), "ORD-3", "XML writer renders plain attributes with str(val)", "E(k, str(val))",
                  "the XML writer no longer renders attribute values with str(); the parser is checked against "
                  "str(tuple)", se.where)
        for c in forms:
            text = str(c)
            it = Interp(f.node, module_funcs=dict((k, v.node) for k, v in f.module.functions.items()),
                        module_assigns=dict((k, v[-1]) for k, v in f.module.assigns.items() if v))
            try:
                kind, res = _run(it, text)
            except Undecided as exc:
                raise AnalysisError("ORD-3 undecided (xml) for %r: %s" % (text, exc))
            n += 1
            inst = "xml parse_cardinality(%r)" % text
            good = kind == "ok" and res == c
            rep.check(good, "ORD-3", inst, "-> %r" % (res,),
                      "returns %r, the writer wrote %r" % (res, c) if kind == "ok" else "raises %s" % res, f.where,
                      witness="set cardinality %r, save as XML, load" % (c,))
        for text in ["", None, "()", "(1)", "(a, b)", "(1, 2, 3)", "(-1, 2)", "(3, 1)", "None", "(None, None)"]:
            it = Interp(f.node, module_funcs=dict((k, v.node) for k, v in f.module.functions.items()),
                        module_assigns=dict((k, v[-1]) for k, v in f.module.assigns.items() if v))
            try:
                kind, res = _run(it, text)
            except Undecided as exc:
                raise AnalysisError("ORD-3 undecided (xml) for %r: %s" % (text, exc))
            n += 1
            good = kind == "ok" and (res is None or is_normal_form(res))
            rep.check(good, "ORD-3", "xml parse_cardinality(%r)" % (text,), "-> %r" % (res,),
                      "malformed cardinality text makes the parser %s" % ("return %r" % (res,) if kind == "ok" else "raise " + res),
                      f.where, witness="XML file with <val_cardinality>%s</val_cardinality>" % text)
    if "dict" in which:
        f = prog.func("tools.dict_parser.parse_cardinality")
        rep.saw_function(f)
        for c in forms:
            for render in (list(c), tuple(c)):
                it = Interp(f.node, module_funcs=dict((k, v.node) for k, v in f.module.functions.items()),
                        module_assigns=dict((k, v[-1]) for k, v in f.module.assigns.items() if v))
                try:
                    kind, res = _run(it, render)
                except Undecided as exc:
                    raise AnalysisError("ORD-3 undecided (dict) for %r: %s" % (render, exc))
                n += 1
                inst = "dict parse_cardinality(%r)" % (render,)
                good = kind == "ok" and res == c
                rep.check(good, "ORD-3", inst, "-> %r" % (res,),
                          "returns %r, the writer wrote %r" % (res, c) if kind == "ok" else "raises %s" % res, f.where,
                          witness="set cardinality %r, save as JSON/YAML, load" % (c,))
        for val in [None, [], [1], [1, 2, 3], ["a", "b"], [-1, 2], [3, 1], "text", 3, 1.5, True, {}, [None, None],
                    ["None", 2], [1, "None"]]:
            it = Interp(f.node, module_funcs=dict((k, v.node) for k, v in f.module.functions.items()),
                        module_assigns=dict((k, v[-1]) for k, v in f.module.assigns.items() if v))
            try:
                kind, res = _run(it, val)
            except Undecided as exc:
                raise AnalysisError("ORD-3 undecided (dict) for %r: %s" % (val, exc))
            n += 1
            good = kind == "ok" and (res is None or is_normal_form(res))
            rep.check(good, "ORD-3", "dict parse_cardinality(%r)" % (val,), "-> %r" % (res,),
                      "a cardinality entry %r makes the parser %s" % (val, "return %r" % (res,) if kind == "ok" else "raise " + res),
                      f.where, witness="JSON/YAML file with val_cardinality: %r" % (val,))
    return n
