"""C04 - sibling names stay unique; names and ids are never empty or malformed.

Decided: a name clash test against the destination list (raising) dominates every primitive
add to a child list; the rename setters test the parent's list of the object's own kind before
storing and fall back to the id for empty names; the constructors' name fallback dominates the
name store on every path (exception handler paths included); every id ever stored is
str(uuid.UUID(x)) or str(uuid.uuid4()), stored only by the constructors and new_id; a malformed
id is replaced in the constructors and rejected by new_id; the three classes agree.
NOT decided: that __contains__ (name or ==) coincides with name equality for all values;
uuid.UUID's normalisation of upper-case/braced ids (library).
"""
import ast
import re

from .. import analysis
from ..astutil import calls_in, call_name, where, local_assignments, atoms_at
from ..logic import known, labels_in, entails, reach_avoiding
from ..dataflow import node_defs
from ..symtext import Expander
from ..cfg import enclosing_handlers
from ..dataflow import reaching_defs, def_value
from ..facts import instance_fields
from ..model import AnalysisError, unparse, walk_no_nested
from .rules_tree import tree_events, norm_text
from .c03 import INHERITED_MUTATORS

DECIDED = [
    "DOM-3 every primitive add to a child list is dominated by a raising test `<obj>.name in <that list>`",
    "DOM-4 the name setters test the parent's list of the object's own kind (raising) before storing; empty names fall back to the id",
    "PROV-1 in the constructors the fallback `if not name: name = self._id` dominates the store of _name on every path",
    "PROV-2 every value stored to _id is str(uuid.UUID(.)) or str(uuid.uuid4()); only __init__ and new_id store it; malformed ids are replaced by the constructors and rejected by new_id",
    "SIB-1 the id handling of Document, Section and Property has the same shape",
    "PTR-1 remove() clears the parent pointer only after the list removal succeeded (the clash test of the name setters looks the siblings up through the parent pointer)",
    "INV-I the tree invariant of C03 (a listed child points to its container) holds for every owner function: the clash tests of the name setters find the siblings through the parent pointer",
    "IDENT-1 / OWN-1b shared with C03 (identity based removal; inherited list mutators)",
]
NOT_DECIDED = ["__contains__ (name or deep ==) versus plain name equality", "uuid.UUID normalisation (library)"]

MODEL = ("BaseDocument", "BaseSection", "BaseProperty")


def run(prog, rep):
    rep.decided = DECIDED
    rep.not_decided = NOT_DECIDED
    an = analysis.get(prog)
    an.note_coverage(rep)
    S = an.s

    # ----------------------------------------------------------------- DOM-3
    rep.rule("DOM-3", "for every primitive list add (inherited list.append/insert on a child list, super().append in SmartList, "
                      "super().__setitem__) of an object o into list L: a branch whose test contains `o.name in L` (getter normalised) "
                      "with the add on its false side and a raise on its true side dominates the add; adds through SmartList.append are "
                      "covered by its own test; re-inserting self into the list it is already in (_reorder) is exempt")
    n_add = 0
    for f in prog.all_functions():
        g = S.cfg(f)
        me = f.params[0] if f.params else "self"
        for node in g.nodes:
            if not g.reachable(node):
                continue
            for ev in tree_events(an, f, node):
                if ev["kind"] not in ("ADD_RAW", "REPLACE_RAW"):
                    continue
                n_add += 1
                obj = ev["obj"]
                # moving an object inside the list it is already in: a completed <list>.index(<object>) on the same list and the same
                # object dominates the add (index raises for a non member), so the multiset of names cannot change
                ltxt0 = norm_text(ev["listexpr"]) if "listexpr" in ev else me
                member = [m for m in g.nodes if m.id != node.id and g.dominates(m, node)
                          and any(isinstance(c0.func, ast.Attribute) and c0.func.attr == "index" and len(c0.args) == 1
                                  and norm_text(an.alias_expander(f).expand(c0.func.value, m)) == ltxt0
                                  and norm_text(an.alias_expander(f).expand(c0.args[0], m)) == obj
                                  for r0 in m.expr_roots() for c0 in calls_in(r0))]
                if member:
                    rep.ok("DOM-3", "%s: re-insert of a member into its own list" % f.short, "dominated by %s.index(%s)" % (ltxt0, obj), where(f, node.ast))
                    continue
                if ev["kind"] == "ADD_RAW" and ev.get("how") in ("extend", "__iadd__", "+="):
                    rep.fail("DOM-3", "%s|bulk-add" % f.short, "bulk add `%s` to a child list without per element name test" % unparse(node.ast)[:60],
                             where(f, node.ast))
                    continue
                if "listexpr" in ev:
                    ltxt = norm_text(ev["listexpr"])
                else:
                    ltxt = me              # inside SmartList: the list is self
                want = "%s._name in %s" % (obj, ltxt)
                guard = None
                for test, pol, br in g.dominating_conditions(node):
                    if pol != "false":
                        continue
                    atoms = [norm_text(an.alias_expander(f).expand(x, br)) for x in ast.walk(test) if isinstance(x, ast.Compare)]
                    if want in atoms:
                        t_side = br.out("true")
                        if t_side and not g.reaches(t_side[0], node, skip_kinds=("exc", "back")) and \
                                any(m.kind == "raise" and g.dominates(t_side[0], m) for m in g.nodes):
                            guard = br
                if guard is None and "listexpr" in ev:
                    guard = _guard_per_alternative(an, f, g, node, ev, obj)
                inst = "%s|%s" % (f.short, ev.get("how", ev["kind"]))
                rep.check(guard is not None, "DOM-3", inst, "guarded by `%s`" % want,
                          "`%s` adds %s to the child list without a dominating raising test `%s`: two siblings can get the same name"
                          % (unparse(node.ast).split("\n")[0][:60], obj, want), where(f, node.ast),
                          witness="add an object whose name is already used: lookup by name returns only the first")
    rep.floor("DOM-3", n_add, 4, "primitive adds to child lists")
    sl = prog.cls("SmartList")
    missing = [m for m in INHERITED_MUTATORS if m not in sl.methods and m in ("insert", "extend", "__iadd__", "__imul__")]
    if missing:
        rep.fail("OWN-1b", "base.SmartList|inherited-adders", "SmartList inherits %s from list: the live lists returned by the getters "
                 "accept children without the name test" % missing, sl.module.path + ":%d" % sl.node.lineno,
                 witness="doc.sections.extend([Section('a'), Section('a')])")
    # SmartList.append: type test and name test both precede the add (checked above by dominance); loop over *obj_tuple
    ap = sl.methods.get("append")
    rep.saw_function(ap)

    # ----------------------------------------------------------------- DOM-4
    rep.rule("DOM-4", "name setters, path form: every entry->store path of `_name = <value>` crosses a branch edge that forces "
                      "`<value>` truthy, and one that forces not(hasattr(parent, L) and <value> in parent.L) where L is the child list of the "
                      "object's own kind and parent is self.parent (so the clashing outcome never reaches the store); every path to "
                      "`_name = self._id` crosses an edge that forces `<value>` falsy. Insensitive to how the tests are nested or flipped")
    for cname, lists in (("BaseSection", ("sections",)), ("BaseProperty", ("properties", "props"))):
        f = prog.cls(cname).lookup_prop("name", "setter")
        if f is None:
            raise AnalysisError("%s.name setter vanished" % cname)
        rep.saw_function(f)
        g = S.cfg(f)
        me, val = f.params[0], f.params[1]
        stores = [n for n in g.nodes if n.kind == "stmt" and isinstance(n.ast, ast.Assign)
                  and unparse(n.ast.targets[0]) == "%s._name" % me]
        rep.floor("DOM-4", len(stores), 1, "stores to _name in %s" % f.short)
        # the fallback written as a re-binding of the value (`if not v: v = self._id`, then one store): paths through the re-binding carry the id
        rebinds = set(n.id for n in g.nodes if n.kind == "stmt" and isinstance(n.ast, ast.Assign) and len(n.ast.targets) == 1
                      and unparse(n.ast.targets[0]) == val and unparse(n.ast.value) in ("%s._id" % me, "%s.id" % me))
        for rb in [n for n in g.nodes if n.id in rebinds]:
            good = known(g, rb, lambda leaf, val=val: "V" if isinstance(leaf, ast.Name) and leaf.id == val else None, lambda a: not a["V"], ["V"]) \
                or any(any(isinstance(y, ast.Name) and y.id == val for y in ast.walk(t0)) for t0, p0, _ in g.dominating_conditions(rb))
            rep.check(good, "DOM-4", "%s: fallback to the id" % f.short, "only for an empty new name",
                      "`%s = self._id` is reachable with a non-empty new name" % val, where(f, rb.ast))

        def is_parent(e, f=f, me=me):
            if isinstance(e, ast.Name):
                vals = local_assignments(f.node, e.id)
                return bool(vals) and all(not isinstance(v, ast.AugAssign) and norm_text(v) == "%s._parent" % me for v in vals)
            return norm_text(e) == "%s._parent" % me

        foreign = []

        def classify(leaf, val=val, lists=lists, is_parent=is_parent, foreign=foreign):
            if isinstance(leaf, ast.Name) and leaf.id == val:
                return "V"
            if isinstance(leaf, ast.Compare) and len(leaf.ops) == 1 and isinstance(leaf.ops[0], ast.In) and unparse(leaf.left) == val \
                    and isinstance(leaf.comparators[0], ast.Attribute):
                lst = leaf.comparators[0]
                if lst.attr in lists and is_parent(lst.value):
                    return "C"
                foreign.append(lst)
                return None
            if isinstance(leaf, ast.Call) and call_name(leaf) == "hasattr" and len(leaf.args) == 2 and is_parent(leaf.args[0]) \
                    and isinstance(leaf.args[1], ast.Constant) and leaf.args[1].value in lists:
                return "H"
            return None

        def xt(test, br=None):
            # `v in getattr(p, "sections", ())` (read as `v in (p.sections if hasattr(p, "sections") else ())`) is `hasattr(p, "sections") and v in p.sections`
            class R(ast.NodeTransformer):
                def visit_Compare(self, c):
                    self.generic_visit(c)
                    if len(c.ops) == 1 and isinstance(c.ops[0], (ast.In, ast.NotIn)) and isinstance(c.comparators[0], ast.Call) \
                            and isinstance(c.comparators[0].func, ast.Name) and c.comparators[0].func.id == "getattr" and len(c.comparators[0].args) == 3 \
                            and isinstance(c.comparators[0].args[1], ast.Constant) and isinstance(c.comparators[0].args[2], (ast.Tuple, ast.List)) \
                            and not c.comparators[0].args[2].elts:
                        ga = c.comparators[0]
                        has = ast.Call(func=ast.Name(id="hasattr", ctx=ast.Load()), args=[ga.args[0], ga.args[1]], keywords=[])
                        inner = ast.Compare(left=c.left, ops=[ast.In()], comparators=[ast.Attribute(value=ga.args[0], attr=ga.args[1].value, ctx=ast.Load())])
                        both = ast.BoolOp(op=ast.And(), values=[has, inner])
                        return both if isinstance(c.ops[0], ast.In) else ast.UnaryOp(op=ast.Not(), operand=both)
                    if len(c.ops) == 1 and isinstance(c.ops[0], (ast.In, ast.NotIn)) and isinstance(c.comparators[0], ast.IfExp):
                        ie = c.comparators[0]
                        empty = isinstance(ie.orelse, (ast.Tuple, ast.List)) and not ie.orelse.elts
                        if empty:
                            inner = ast.Compare(left=c.left, ops=[ast.In()], comparators=[ie.body])
                            both = ast.BoolOp(op=ast.And(), values=[ie.test, inner])
                            return both if isinstance(c.ops[0], ast.In) else ast.UnaryOp(op=ast.Not(), operand=both)
                    return c
            import copy as _copy
            return ast.fix_missing_locations(R().visit(_copy.deepcopy(test)))

        for n in stores:
            v = unparse(n.ast.value)
            if v == "%s._id" % me:
                good = known(g, n, classify, lambda a: not a["V"], ["V"])
                rep.check(good, "DOM-4", "%s: fallback to the id" % f.short, "only for an empty new name",
                          "_name = self._id is reachable with a non-empty new name", where(f, n.ast))
                continue
            good_empty = v == val and known(g, n, classify, lambda a: a["V"], ["V"])
            if v == val and not good_empty and rebinds:
                from ..logic import must_cross, branch_edge_entails
                forced = branch_edge_entails(classify, lambda a: a["V"], ["V"])
                good_empty = must_cross(g, n, lambda src, kind, dst: forced(src, kind, dst) or (dst.id in rebinds and kind != "exc"))
            rep.check(good_empty, "DOM-4", "%s: store of the new name" % f.short, "non-empty value",
                      "_name = %s is reachable with an empty value (no fallback to the id on that path)" % v, where(f, n.ast),
                      witness="obj.name = '' leaves an empty name")
            del foreign[:]
            has_clash = any("C" in labels_in(xt(b.ast.test), classify) for b in g.nodes if b.kind == "branch")
            if not has_clash:
                if foreign:
                    rep.fail("DOM-4", "%s: clash test uses the list of its own kind" % f.short,
                             "the clash test looks into %s; a %s lives in self.parent.%s" % (unparse(foreign[0]), cname[4:], lists[0]), where(f, n.ast),
                             witness="rename a %s to the name of a sibling %s: accepted" % (cname[4:], cname[4:]))
                else:
                    rep.fail("DOM-4", "%s|no-clash-test" % f.short, "the new name is stored without a raising test against the parent's child list",
                             where(f, n.ast), witness="rename a child to the name of its sibling")
                continue
            rep.ok("DOM-4", "%s: clash test uses the list of its own kind" % f.short, "self.parent.%s" % lists[0], where(f, n.ast))
            guarded = known(g, n, classify, lambda a: not (a["H"] and a["C"]), ["H", "C"], expand_test=xt)
            rep.check(guarded, "DOM-4", "%s: clash never reaches the store" % f.short, "every path to the store knows not(hasattr and clash)",
                      "a path reaches `_name = %s` although `%s in self.parent.%s` may hold (the clash outcome is not excluded on it)"
                      % (v, val, lists[0]), where(f, n.ast), witness="rename a child to the name of its sibling: accepted")

    # ---------------------------------------------------------------- PROV-1
    rep.rule("PROV-1", "constructors of Section and Property, path form: every value stored to _name is self._id, or the `name` parameter on "
                       "paths that either know it is truthy or re-bound it to self._id; self._id has been stored on every path reaching "
                       "the store (including the path through the ValueError handler of the id parsing)")
    for cname in ("BaseSection", "BaseProperty"):
        f = prog.cls(cname).lookup_method("__init__")
        rep.saw_function(f)
        g = S.cfg(f)
        me = f.params[0]
        x = Expander(f, g, inline=prog)
        if "name" not in f.params:
            raise AnalysisError("%s.__init__ has no name parameter" % cname)
        stores = [n for n in g.nodes if n.kind == "stmt" and isinstance(n.ast, ast.Assign) and unparse(n.ast.targets[0]) == "%s._name" % me]
        rep.floor("PROV-1", len(stores), 1, "stores to _name in %s.__init__" % cname)
        idst = set(n.id for n in g.nodes if n.kind == "stmt" and isinstance(n.ast, ast.Assign) and unparse(n.ast.targets[0]) == "%s._id" % me)
        for st in stores:
            for expr, atoms in _value_cases(x.expand(st.ast.value, st)):
                t = unparse(expr)
                if t == "%s._id" % me:
                    good, why = True, "the id"
                elif t == "name":
                    if ("name", True) in atoms:
                        good, why = True, "known to be non-empty"
                    else:
                        rebind = set(d.id for d in g.nodes if d.kind == "stmt" and isinstance(d.ast, ast.Assign)
                                     and any(isinstance(t0, ast.Name) and t0.id == "name" for t0 in d.ast.targets)
                                     and unparse(d.ast.value) == "%s._id" % me)
                        other_defs = [d for d in g.nodes if "name" in node_defs(d) and d.id not in rebind and d.kind != "entry"]

                        def edge_ok(src, kind, dst, rebind=rebind):
                            if dst.id in rebind:
                                return True
                            return src.kind == "branch" and kind in ("true", "false") and \
                                entails(src.ast.test, kind == "true", lambda lf: "N" if isinstance(lf, ast.Name) and lf.id == "name" else None,
                                        lambda a0: a0["N"], ["N"])
                        good = not other_defs and not reach_avoiding(g, g.entry, st, edge_ok, skip_kinds=())
                        why = "every path knows a non-empty name or re-binds it to the id"
                else:
                    good, why = False, ""
                rep.check(good, "PROV-1", "%s.__init__: _name = %s" % (cname, t[:30]), why,
                          "%s.__init__ can store `%s` as name on a path where it may be empty (e.g. through the malformed-id handler)" % (cname, t[:50]),
                          where(f, st.ast), witness="%s(name=None, oid='garbage').name is None" % cname[4:])
            reach = _reach_without(g, g.entry, st, idst)
            rep.check(not reach, "PROV-1", "%s.__init__: _id is set before the name" % cname, "ok",
                      "a path reaches the name store before any _id store", where(f, st.ast))

    # ---------------------------------------------------------------- PROV-2
    rep.rule("PROV-2", "stores to _id: only in __init__ and new_id of the three model classes; value is str(uuid.UUID(<oid>)) or "
                       "str(uuid.uuid4()); in __init__ the uuid.UUID call sits in a try whose ValueError handler stores a fresh "
                       "uuid4; in new_id it sits in no try (a malformed id propagates as ValueError) and is the right hand side "
                       "of the store (nothing is stored when it raises)")
    n_id = 0
    shapes = {"__init__": {}, "new_id": {}}
    for cname in MODEL:
        cls = prog.cls(cname)
        delegate = None       # (parameters of new_id, [(shape, atoms)]) for a constructor that calls self.new_id(...)
        for fname in ("new_id", "__init__"):
            f = cls.methods.get(fname)
            if f is None:
                raise AnalysisError("%s.%s vanished" % (cname, fname))
            rep.saw_function(f)
            g = S.cfg(f)
            me = f.params[0]
            stores = [n for n in g.nodes if n.kind in ("stmt",) and isinstance(n.ast, ast.Assign) and unparse(n.ast.targets[0]) == "%s._id" % me]
            x = Expander(f, g, inline=prog)
            cases = []        # (store node, shape, atoms from conditional expressions in the value)
            for n in stores:
                for shape, extra in _id_cases(x.expand(n.ast.value, n)):
                    cases.append((n, shape, extra))
            if fname == "new_id":
                delegate = (f.params[1:], [(shape, [(t0, p0) for t0, p0, _ in atoms_at(g, n)] + list(extra)) for n, shape, extra in cases])
            elif delegate is not None:
                # the constructor hands the id to self.new_id(<oid>): the stores of new_id with its parameter replaced by the argument
                for n in g.nodes:
                    c = n.ast.value if n.kind == "stmt" and isinstance(n.ast, ast.Expr) and isinstance(n.ast.value, ast.Call) else None
                    if c is None or unparse(c.func) != "%s.new_id" % me:
                        continue
                    arg = unparse(c.args[0]) if c.args else (unparse(c.keywords[0].value) if c.keywords else "None")
                    for shape, ats in delegate[1]:
                        tr = [(re.sub(r"(?<![\w.])%s\b" % re.escape(delegate[0][0]), arg, t), pol) for t, pol in ats] if delegate[0] else list(ats)
                        if any(_const_atom(t) is not None and _const_atom(t) != pol for t, pol in tr):
                            continue          # new_id() without an id never parses
                        cases.append((n, shape, tuple((t, pol) for t, pol in tr if _const_atom(t) is None)))
            skel = []
            for n, shape, extra in cases:
                n_id += 1
                rep.check(shape is not None, "PROV-2", "%s: _id = %s" % (f.short, x.text(n.ast.value, n)[:40]), "canonical uuid text",
                          "_id is stored as %s, not as str(uuid.uuid4()) / str(uuid.UUID(..))" % x.text(n.ast.value, n)[:80], where(f, n.ast),
                          witness="an id in upper case / with braces / garbage is kept verbatim")
                hs = enclosing_handlers(g, n)
                if shape and shape[0] == "parse":
                    if fname == "__init__":
                        ok = False
                        for h in hs:
                            for k, hn in h.succ:
                                if k == "except" and any(c in ("ValueError", "Exception", "*") for c in hn.info["classes"]):
                                    sub = [m for m, sh2, _ in cases if g.dominates(hn, m) and sh2 == ("fresh",)]
                                    ok = ok or bool(sub)
                        rep.check(ok, "PROV-2", "%s: malformed id is replaced" % f.short, "except ValueError: fresh uuid4",
                                  "a malformed oid is not replaced by a fresh id in the constructor", where(f, n.ast),
                                  witness="%s(oid='garbage') raises or keeps the garbage" % cname[4:])
                    else:
                        rep.check(not hs, "PROV-2", "%s: malformed id is rejected" % f.short, "no handler around uuid.UUID",
                                  "new_id catches the ValueError of a malformed id instead of rejecting it", where(f, n.ast),
                                  witness="obj.new_id('garbage') succeeds")
                # skeleton entry: (value shape, what is known about the id parameter there, handler classes around / containing it)
                facts = set()
                for t, pol in [(t0, p0) for t0, p0, _ in atoms_at(g, n)] + list(extra):
                    hit = [p for p in f.params[1:] if re.search(r"(?<![\w.])%s\b" % re.escape(p), t)]
                    if hit:
                        for p in hit:
                            t = re.sub(r"(?<![\w.])%s\b" % re.escape(p), "ID", t)
                        facts.add("%s=%s" % (t, pol))
                if shape and shape[0] == "parse":
                    given = [fa for fa in facts if fa in ("ID is not None=True", "ID is None=False")]
                    rep.check(bool(given) or not facts, "PROV-2", "%s: an id that was given is parsed" % f.short, "`is not None` decides",
                              "%s parses the id only if {%s}: a given but falsy id ('') is treated as absent and silently replaced by a fresh "
                              "one instead of being rejected" % (f.short, ", ".join(sorted(facts))), where(f, n.ast),
                              witness="%s.new_id('') succeeds with a random id" % cname[4:])
                around = sorted(set(c for h in hs for k, hn in h.succ if k == "except" for c in hn.info["classes"]))
                inside = sorted(set(c for hn in g.nodes if hn.kind == "handler" and g.dominates(hn, n) for c in hn.info["classes"]))
                skel.append("%s if {%s} try-except(%s) in-handler(%s)" % (shape and shape[0], ", ".join(sorted(facts)), ",".join(around), ",".join(inside)))
            shapes[fname][cname] = " | ".join(sorted(skel))
            rep.floor("PROV-2", len(cases), 2, "values stored to _id in %s" % f.short)
    # foreign writers
    for f in prog.all_functions():
        for n in walk_no_nested(f.node):
            if isinstance(n, (ast.Assign, ast.AugAssign)):
                tg = n.targets if isinstance(n, ast.Assign) else [n.target]
                for t in tg:
                    if isinstance(t, ast.Attribute) and t.attr == "_id":
                        n_ok = f.cls is not None and f.cls.name in MODEL and f.name in ("__init__", "new_id")
                        rep.check(n_ok, "PROV-2", "%s stores _id" % f.short, "constructor or new_id",
                                  "%s stores _id directly" % f.short, where(f, n))
    rep.floor("PROV-2", n_id, 12, "values stored to _id")

    # ----------------------------------------------------------------- SIB-1
    rep.rule("SIB-1", "the id block of __init__ and the body of new_id have the same skeleton (id stores, tests, handler classes) in Document, Section and Property")
    for fname, d in shapes.items():
        vals = set(d.values())
        rep.check(len(vals) == 1, "SIB-1", "%s id handling agrees across the three classes" % fname, "identical shape",
                  "the id handling of %s differs between the classes: %s" % (fname, d),
                  "odml/{doc,section,property}.py", witness="one class accepts/keeps an id the others reject/replace")

    # --------------------------------------------------------------- IDENT-1 (shared with C03)
    rep.rule("IDENT-1", "SmartList.index compares with `is` and SmartList.remove deletes self[self.index(obj)] (a removal by deep "
                        "equality detaches the wrong sibling, after which a rename is not checked against it)")
    idx = sl.methods.get("index")
    rm = sl.methods.get("remove")
    cmps = [n for n in walk_no_nested(idx.node) if isinstance(n, ast.Compare)]
    rep.check(bool(cmps) and all(isinstance(o, (ast.Is, ast.IsNot)) for c in cmps for o in c.ops), "IDENT-1", "SmartList.index by identity", "is",
              "SmartList.index compares with ==", idx.where, witness="A.remove(<equal child of B>) removes A's child and clears B's child's parent: later rename of B's child is unchecked")
    body = [s for s in rm.node.body if not (isinstance(s, ast.Expr) and isinstance(s.value, ast.Constant))]
    via_index = len(body) == 1 and isinstance(body[0], ast.Delete) and "index(" in unparse(body[0])
    if not via_index:
        # `pos = self.index(obj); del self[pos]` - the position may be kept in a local
        from ..symtext import Expander as _Ex
        from ..cfg import build_cfg as _bc
        rg = _bc(rm)
        rx = _Ex(rm, rg)
        dels = [n for n in rg.nodes if n.kind == "stmt" and isinstance(n.ast, ast.Delete)]
        others = [n for n in rg.nodes if n.kind == "stmt" and not isinstance(n.ast, (ast.Delete, ast.Assign)) and
                  not (isinstance(n.ast, ast.Expr) and isinstance(n.ast.value, ast.Constant))]
        via_index = len(dels) == 1 and not others and len(dels[0].ast.targets) == 1 and isinstance(dels[0].ast.targets[0], ast.Subscript) \
            and rx.text(dels[0].ast.targets[0].slice, dels[0]) == "%s.index(%s)" % (rm.params[0], rm.params[1]) \
            and unparse(dels[0].ast.targets[0].value) == rm.params[0]
    rep.check(via_index, "IDENT-1", "SmartList.remove via index", "ok",
              "SmartList.remove no longer goes through the identity based index", rm.where)
    # ----------------------------------------------------------------- INV-I
    from ..report import import_verdicts
    import_verdicts(prog, rep, "C11", ("ID-2",), "ID-2",
                    "names change through the name setters only, which check the siblings: new_id() writes the id and nothing else - a new_id "
                    "that also re-binds the name of an unnamed object puts a name into the list that no clash test has seen")
    from ..report import import_verdicts
    import_verdicts(prog, rep, "C03", ("PAIR-1", "DOM-1", "OWN-1"), "INV-I",
                    "the name setters look the siblings up through <obj>.parent: every function that lists a child must leave its parent "
                    "pointer consistent")

    # ----------------------------------------------------------------- PTR-1
    rep.rule("PTR-1", "in Sectionable.remove / BaseSection.remove every store `<child>._parent = None` is dominated by the completed "
                      "removal call <list>.remove(<child>) of the same child (a refused remove - the object is not a child here - "
                      "must leave the pointer alone: the name setters find the siblings through it)")
    from ..cfg import build_cfg
    n_ptr = 0
    for qn in ("base.Sectionable.remove", "section.BaseSection.remove"):
        f = prog.func(qn)
        rep.saw_function(f)
        g = build_cfg(f)
        x = Expander(f, g, only_locations=True)
        for n in g.nodes:
            st = n.ast
            if not (n.kind == "stmt" and isinstance(st, ast.Assign) and len(st.targets) == 1 and isinstance(st.targets[0], ast.Attribute)
                    and st.targets[0].attr == "_parent" and isinstance(st.value, ast.Constant) and st.value.value is None):
                continue
            child = x.text(st.targets[0].value, n)
            n_ptr += 1
            doms = [m for m in g.nodes if m.id != n.id and m.kind == "stmt" and g.dominates(m, n)
                    and any(isinstance(c.func, ast.Attribute) and c.func.attr == "remove" and c.args and x.text(c.args[0], m) == child
                            for c in calls_in(m.ast))]
            rep.check(bool(doms), "PTR-1", "%s: `%s._parent = None` after the removal" % (f.short, child), "dominated by .remove(%s)" % child,
                      "%s clears %s._parent before (or without) the list removal that can refuse: after a refused remove the object is "
                      "still listed in its real parent but reports no parent" % (f.short, child), where(f, st),
                      witness="b.remove(child of a) raises ValueError; afterwards child.name = <name of a sibling> is accepted")
    rep.floor("PTR-1", n_ptr, 2, "parent pointer resets in the remove functions")
    rep.assume("uuid.UUID raises ValueError exactly for malformed ids and str() of it is the canonical form")


def _id_shape(value):
    """('fresh',) for str(<..>uuid4()) ; ('parse', <arg text>) for str(<..>UUID(arg)) ; None otherwise."""
    if not (isinstance(value, ast.Call) and unparse(value.func) == "str" and len(value.args) == 1 and isinstance(value.args[0], ast.Call)):
        return None
    inner = value.args[0]
    fn = unparse(inner.func).split(".")[-1]
    if fn == "uuid4" and not inner.args and not inner.keywords:
        return ("fresh",)
    if fn == "UUID" and len(inner.args) == 1 and not inner.keywords:       # UUID(text, version=n) rewrites the version bits
        return ("parse", unparse(inner.args[0]))
    return None


def _value_cases(value, atoms=()):
    """[(expr, atoms)] of a (possibly conditional / `a or b`) value expression"""
    from ..astutil import atoms_of
    if isinstance(value, ast.IfExp):
        return _value_cases(value.body, tuple(atoms) + tuple(atoms_of(value.test, True))) + \
            _value_cases(value.orelse, tuple(atoms) + tuple(atoms_of(value.test, False)))
    if isinstance(value, ast.BoolOp) and isinstance(value.op, ast.Or) and len(value.values) == 2:
        return [(value.values[0], tuple(atoms) + tuple(atoms_of(value.values[0], True)))] + \
            _value_cases(value.values[1], tuple(atoms) + tuple(atoms_of(value.values[0], False)))
    return [(value, tuple(atoms))]


def _const_atom(t):
    """truth value of an atom over constants only (None is not None, None is None, None), else None"""
    t = t.strip()
    return {"None is not None": False, "None is None": True, "None": False, "not None": True}.get(t)


def _id_cases(value, atoms=()):
    """[(shape, atoms)] of a (possibly conditional) value expression"""
    from ..astutil import atoms_of
    if isinstance(value, ast.IfExp):
        return _id_cases(value.body, tuple(atoms) + tuple(atoms_of(value.test, True))) + \
            _id_cases(value.orelse, tuple(atoms) + tuple(atoms_of(value.test, False)))
    if isinstance(value, ast.Call) and unparse(value.func) == "str" and len(value.args) == 1 and not value.keywords \
            and isinstance(value.args[0], ast.IfExp):
        # str(a if t else b) is str(a) if t else str(b)
        inner = value.args[0]
        wrap = lambda e: ast.Call(func=value.func, args=[e], keywords=[])
        return _id_cases(ast.IfExp(test=inner.test, body=wrap(inner.body), orelse=wrap(inner.orelse)), atoms)
    return [(_id_shape(value), tuple(atoms))]


def _reach_without(g, a, b, blocked):
    seen = set()
    stack = [a]
    while stack:
        n = stack.pop()
        if n.id in seen or n.id in blocked:
            continue
        seen.add(n.id)
        if n.id == b.id:
            return True
        for k, m in n.succ:
            stack.append(m)
    return False


def _all_paths_pass(g, start, end, via):
    return not _reach_without(g, start, end, set([via.id]))


def _guard_per_alternative(an, f, g, node, ev, obj):
    """the list of the add is picked by a private helper (one child list per kind of object) and the clash test reads a local that was bound,
    under the same kind tests, to the list of that kind: for every list the helper can pick there is a raising test `o.name in <local>` whose
    local is, under the conditions of that pick, exactly that list.  Returns the guarding branch or None."""
    from .rules_tree import _helper_lists
    from ..astutil import atoms_of
    from ..dataflow import reaching_defs, def_value
    le = ev["listexpr"]
    alts = None
    hl = _helper_lists(f, le) if isinstance(le, ast.Call) else None
    if hl is None and isinstance(le, ast.Name):
        ds = list(reaching_defs(g, node, le.id))
        if len(ds) == 1 and ds[0].kind != "entry":
            v = def_value(ds[0], le.id)
            hl = _helper_lists(f, v) if isinstance(v, ast.Call) else None
            le = v if hl else le
    if not hl:
        return None
    # conditions of each pick, in the caller's terms
    from ..symtext import _is_private_helper_call
    h = _is_private_helper_call(f, le)
    hg = an.s.cfg(h)
    args = an.s.arg_exprs(le, h, f)
    mapping = dict((pn, norm_text(args[i])) for i, pn in enumerate(h.params + h.kwonly) if i in args)
    picks = []
    for rn in [n for n in hg.nodes if n.kind == "return" and isinstance(n.ast.value, ast.Attribute)]:
        conds = []
        for test, pol, br in hg.dominating_conditions(rn):
            if pol in ("true", "false"):
                for t2, p2 in atoms_of(test, pol == "true", norm_text):
                    for a0, b0 in mapping.items():
                        t2 = re.sub(r"\b%s\b" % re.escape(a0), b0, t2)
                    conds.append((t2, p2))
        lst = "%s.%s" % (norm_text(le.func.value), {"sections": "_sections", "properties": "_props", "props": "_props"}.get(rn.ast.value.attr, rn.ast.value.attr))
        picks.append((lst, conds))
    if not picks:
        return None
    found = None
    here = []
    for t0, p0, _ in g.dominating_conditions(node):
        if p0 in ("true", "false"):
            here += atoms_of(t0, p0 == "true", norm_text)
    for lst, conds in picks:
        if any((t4, not p4) in here for t4, p4 in conds):
            continue               # the helper cannot pick this list where the add stands (the kind test around it says otherwise)
        ok = None
        for test, pol, br in g.dominating_conditions(node):
            if pol != "false":
                continue
            for cmp in [x for x in ast.walk(test) if isinstance(x, ast.Compare) and len(x.ops) == 1 and isinstance(x.ops[0], ast.In)]:
                if norm_text(an.alias_expander(f).expand(cmp.left, br)) != "%s._name" % obj or not isinstance(cmp.comparators[0], ast.Name):
                    continue
                cands = []
                for d in reaching_defs(g, br, cmp.comparators[0].id):
                    if d.kind == "entry":
                        cands = None
                        break
                    dconds = []
                    for t3, p3, _ in g.dominating_conditions(d):
                        if p3 in ("true", "false"):
                            dconds += atoms_of(t3, p3 == "true", norm_text)
                    if any((t4, not p4) in dconds for t4, p4 in conds):
                        continue           # this binding belongs to another kind of object
                    cands.append(def_value(d, cmp.comparators[0].id))
                if cands and len(cands) == 1 and cands[0] is not None:
                    vt = norm_text(cands[0])
                    vt = re.sub(r"\.sections$", "._sections", re.sub(r"\.(properties|props)$", "._props", vt))
                    t_side = br.out("true")
                    if vt == lst and t_side and not g.reaches(t_side[0], node, skip_kinds=("exc", "back")) and \
                            any(m.kind == "raise" and g.dominates(t_side[0], m) for m in g.nodes):
                        ok = br
        if ok is None:
            return None
        found = ok
    return found
