"""C10 - RDF export is a faithful, well-formed graph that imports back unchanged.

Decided (graph shape / table clauses): the RDF attribute tables agree with the model classes and
with what the dictionary reader accepts; every object becomes one node named by its id and linked
from its parent by that very node; a single constant Hub links every Document; nodes are typed
with the format's rdf_type, or with a sub-class that the same path declares as subClassOf Section
(only when sub-classing is on); values become one fresh rdf:Seq per Property filled in list order
and are read back through rdflib's Seq; no set-but-falsy attribute is dropped; the reader recovers
the id from the node URI and produces the 1.1 dictionary layout.
NOT decided: literal fidelity per serialisation, equality of the re-imported documents, sibling order.
"""
import ast
import re

from ..astutil import calls_in, call_name, where, truthiness_tests, local_assignments
from ..cfg import build_cfg
from ..facts import MODEL_CLASSES, readable_attrs, ctor_keywords
from ..fold import Folder, format_tables
from ..model import AnalysisError, unparse, walk_no_nested
from ..astutil import atoms_at, truthiness_tests
from ..dataflow import private_closure
from ..logic import known
from ..symtext import Expander, effect_calls, ordered_iterations, strip_order_keeping
from .c02 import falsy_set_attributes

DECIDED = [
    "TAB-8 _rdf_map keys are readable on the model class, accepted by the dictionary reader and map to constructor keywords",
    "PROV-7 one node per object, URI = namespace + id, the node linked from the parent is the node the attributes go to; one constant Hub",
    "GET-1 the getters save_element reads return the object's own state (a node carries exactly its set attributes)",
    "READ-2 the reader parses every child node the graph links: the loops that import Sections / Properties iterate the complete graph.objects(...) result",
    "CONV-1 every export converts the current documents: get_rdf_str runs convert_to_rdf on every path",
    "PAIR-2 a node typed with a Section sub-class is declared subClassOf Section on the same path; no sub-class without the switch",
    "SEQ-1 values: one fresh rdf:Seq node per call, filled in list order; the reader iterates rdflib's Seq",
    "TRUTH-3 no set-but-falsy attribute is dropped by the writers' skip guards",
    "RID-1 the reader takes the id from the node URI after '#', which is how the namespace ends",
]
NOT_DECIDED = ["literal fidelity per serialisation (float shortening, large ints)", "equality of the re-imported documents", "sibling order"]

SAVE = {"Document": "save_document", "Section": "save_section", "Property": "save_property"}
PARSE = {"Document": "parse_document", "Section": "parse_section", "Property": "parse_property"}


def run(prog, rep):
    rep.decided = DECIDED
    rep.not_decided = NOT_DECIDED
    tabs = format_tables(prog)
    rmod = prog.module_of("tools.rdf_converter")
    W = prog.cls("RDFWriter")
    Rd = prog.cls("RDFReader")
    fd = Folder(prog)

    # ----------------------------------------------------------------- TAB-8
    rep.rule("TAB-8", "for each format F and each key k of F._rdf_map: k (Property: 'value' via F.map) is a readable attribute of the "
                      "model class (the writer does an unguarded getattr); k is accepted by DictReader.is_valid_attribute for F (member "
                      "of _args or value of _map) and F.map(k) is a constructor keyword or a child collection; every writer/reader "
                      "function of format F iterates F's own table")
    for fname, tab in sorted(tabs.items()):
        cls = prog.cls(MODEL_CLASSES[fname])
        readable = readable_attrs(cls)
        kws = ctor_keywords(cls)
        accepted = set(tab["_args"]) | set(tab["_map"].values())
        for k in sorted(tab["_rdf_map"]):
            attr = tab["_map"].get(k, k) if (fname == "Property" and k == "value") else k
            rep.check(attr in readable, "TAB-8", "%s rdf key %s readable" % (fname, k), "ok",
                      "_rdf_map key '%s' of %s is not an attribute of %s: the export raises AttributeError" % (k, fname, cls.name), "odml/format.py",
                      witness="export any %s" % fname)
            rep.check(k in accepted, "TAB-8", "%s rdf key %s accepted by the dict reader" % (fname, k), "ok",
                      "_rdf_map key '%s' of %s is refused by DictReader.is_valid_attribute: the import of every %s fails" % (k, fname, fname),
                      "odml/format.py", witness="import an exported graph")
            py = tab["_map"].get(k, k)
            # keys that are python names already (dtype, sections, properties) are passed through Format.map unchanged
            ctor_ok = py in ("sections", "properties") or kws is None or py in kws
            rep.check(ctor_ok, "TAB-8", "%s rdf key %s constructible" % (fname, k), "ok",
                      "_rdf_map key '%s' of %s maps to '%s', which is no constructor keyword of %s" % (k, fname, py, cls.name), "odml/format.py")
        sf = W.lookup_method(SAVE[fname])
        pf = Rd.lookup_method(PARSE[fname])
        if sf is None or pf is None:
            raise AnalysisError("RDF writer/reader function for %s vanished" % fname)
        rep.saw_function(sf)
        rep.saw_function(pf)
        sx = Expander(sf)
        loops = [n for n in walk_no_nested(sf.node) if isinstance(n, ast.For) and sx.text(n.iter).endswith(".rdf_map_keys")]
        fmt_ok = len(loops) == 1 and sx.text(loops[0].iter) == "%s.format().rdf_map_keys" % sf.params[1]
        rep.check(fmt_ok, "TAB-8", "%s iterates the object's own rdf table" % sf.name, "for k in <obj>.format().rdf_map_keys",
                  "%s does not iterate <object>.format().rdf_map_keys" % sf.name, sf.where)
        px = Expander(pf)
        rl = [n for n in walk_no_nested(pf.node) if isinstance(n, ast.For)
              and _strip_format_module(prog, pf, px.text(n.iter)) == "%s.rdf_map_items" % fname]
        rep.check(len(rl) == 1, "TAB-8", "%s iterates %s.rdf_map_items" % (pf.name, fname), "ok",
                  "%s does not iterate the %s table" % (pf.name, fname), pf.where, witness="attributes of another kind are read / own ones missed")

    # ---------------------------------------------------------------- PROV-7
    rep.rule("PROV-7", "triples and calls are read with locals expanded and private helpers inlined. save_odml_list adds (parent, predicate, "
                       "URIRef(ODML_NS + str(item.id))) for the loop item and passes that item and that node to save_section / save_property "
                       "under a test on Section.name / Property.name; save_document: node from doc.id unless given, typed with fmt.rdf_type "
                       "and linked by (hub_root, hasDocument, node) on every path; hub_root is the constant ODML_NS.Hub; every attribute "
                       "triple and every child call has the function's own node as subject / parent")
    sl = W.lookup_method("save_odml_list")
    rep.saw_function(sl)
    me = sl.params[0]
    item = "EACH(%s)" % sl.params[3]
    nodeexpr = "URIRef(ODML_NS + str(%s.id))" % item
    tr = triples(prog, sl)
    ok = (sl.params[1], sl.params[2], nodeexpr) in [t[:3] for t in tr]
    disp = {}
    for eff in effect_calls(prog, sl, lambda c: call_name(c) in ("%s.save_section" % me, "%s.save_property" % me)):
        guards = " ".join(t for t, p in eff.guards() if p)
        disp[call_name(eff.call).split(".")[-1]] = ([unparse(a) for a in eff.call.args], guards)
    ok = ok and disp.get("save_section", ([], ""))[0] == [item, nodeexpr] and "Section.name" in disp["save_section"][1] \
        and disp.get("save_property", ([], ""))[0] == [item, nodeexpr] and "Property.name" in disp["save_property"][1]
    rep.check(ok, "PROV-7", "save_odml_list names, links and fills the same node", "ok",
              "save_odml_list does not (name the node by the item's id, link exactly that node from the parent, pass item and node on): "
              "triples %s, dispatch %s" % ([t[:3] for t in tr], disp), sl.where,
              witness="a Section's attributes end up on another node / the node is not reachable from its parent")
    link_every_iteration(prog, rep, "PROV-7")
    from . import common_tables as ct0
    ct0.own_state_getters(prog, rep, "GET-1")
    # ---------------------------------------------------------------- READ-2
    rep.rule("READ-2", "RDFReader.parse_document / parse_section: every call self.parse_section(x) / self.parse_property(x) takes x from an "
                       "iteration over the whole result of <graph>.objects(subject=..., predicate=...) (list(...) allowed): no filtered or "
                       "partial view - a node typed with a custom sub-class is a Section like any other")
    R0 = prog.cls("RDFReader")
    n_child = 0
    for mname in ("parse_document", "parse_section"):
        pf0 = R0.lookup_method(mname)
        if pf0 is None:
            raise AnalysisError("RDFReader.%s vanished" % mname)
        rep.saw_function(pf0)
        px0 = Expander(pf0, inline=prog)
        for e0 in effect_calls(prog, pf0, lambda c: isinstance(c.func, ast.Attribute) and c.func.attr in ("parse_section", "parse_property") and len(c.args) == 1,
                               expanded=True):
            n_child += 1
            arg = e0.call.args[0]
            t0 = unparse(arg)
            core = None
            if isinstance(arg, ast.Call) and isinstance(arg.func, ast.Name) and arg.func.id == "EACH" and arg.args:
                core, _ = strip_order_keeping(arg.args[0])
            if core is None and isinstance(e0.raw.args[0], ast.Name):
                # the import is the element of a comprehension: its generator must range over the whole result, unfiltered
                for root0 in e0.inner.expr_roots():
                    for comp in ast.walk(root0):
                        if isinstance(comp, (ast.ListComp, ast.GeneratorExp, ast.SetComp)) and any(y is e0.raw for y in ast.walk(comp.elt)):
                            gens = [g0 for g0 in comp.generators if isinstance(g0.target, ast.Name) and g0.target.id == e0.raw.args[0].id]
                            if len(gens) == 1 and not gens[0].ifs:
                                core, _ = strip_order_keeping(e0.x.expand(gens[0].iter, e0.inner))
            if isinstance(core, ast.Call) and not (isinstance(core.func, ast.Attribute) and core.func.attr == "objects"):
                # the query wrapped in a private helper (`self._objects_of(uri, predicate)` = list(self.graph.objects(...)))
                from ..symtext import _is_private_helper_call, expression_of
                try:
                    hh = _is_private_helper_call(e0.func, core)
                    he = expression_of(hh) if hh is not None else None
                except Exception:
                    he = None
                if he is not None:
                    core, _ = strip_order_keeping(he)
            whole = isinstance(core, ast.Call) and isinstance(core.func, ast.Attribute) and core.func.attr == "objects"
            rep.check(whole, "READ-2", "%s: %s(%s)" % (mname, e0.call.func.attr, t0[:40]), "every object of the predicate",
                      "%s imports children from `%s`, which is not the complete graph.objects(...) result: linked nodes can be skipped silently"
                      % (mname, t0[:90]), where(e0.func, e0.raw), witness="Sections exported with a custom sub-class map are dropped on import")
    rep.floor("READ-2", n_child, 3, "child imports in the RDF reader")

    # ---------------------------------------------------------------- CONV-1
    rep.rule("CONV-1", "RDFWriter.get_rdf_str: every normal path calls self.convert_to_rdf() before it serialises self.graph (a writer that "
                       "remembers an earlier conversion exports a stale graph after the documents changed)")
    gs0 = W.lookup_method("get_rdf_str")
    if gs0 is None:
        raise AnalysisError("RDFWriter.get_rdf_str vanished")
    rep.saw_function(gs0)
    gg0 = build_cfg(gs0)
    conv = set(e0.node.id for e0 in effect_calls(prog, gs0, lambda c: isinstance(c.func, ast.Attribute) and c.func.attr == "convert_to_rdf"))
    from ..logic import reach_avoiding as _ra
    ok0 = bool(conv) and not _ra(gg0, gg0.entry, gg0.exit, lambda s0, k0, d0: d0.id in conv, skip_kinds=("exc",))
    rep.check(ok0, "CONV-1", "get_rdf_str converts on every call", "convert_to_rdf() on every path",
              "get_rdf_str can serialise the graph without converting the documents first: a second export with the same writer misses what "
              "was added since the first", gs0.where, witness="export, add a Section, export again with the same RDFWriter")
    repository_linked_on_every_path(prog, rep, "PROV-7")
    sd = W.lookup_method("save_document")
    g = build_cfg(sd)
    dx = Expander(sd, g, inline=prog)
    me = sd.params[0]
    cn = sd.params[2]
    name_ok = any(isinstance(n, ast.Assign) and unparse(n.targets[0]) == cn and dx.text(n.value) == "URIRef(ODML_NS + str(%s.id))" % sd.params[1]
                  for n in walk_no_nested(sd.node))
    # the same choice written as an expression bound to a second local: `node = curr_node if curr_node else URIRef(ODML_NS + str(doc.id))`
    own_nodes = {}
    for sf0 in (W.lookup_method(SAVE[k0]) for k0 in ("Document", "Section", "Property")):
        own_nodes[sf0.qualname] = set([sf0.params[2]])
    fresh_t = "URIRef(ODML_NS + str(%s.id))" % sd.params[1]
    for n in walk_no_nested(sd.node):
        if isinstance(n, ast.Assign) and len(n.targets) == 1 and isinstance(n.targets[0], ast.Name) and n.targets[0].id != cn:
            v = n.value
            cases = None
            if isinstance(v, ast.IfExp) and unparse(v.test) == cn:
                cases = (unparse(v.body), dx.text(v.orelse))
            elif isinstance(v, ast.BoolOp) and isinstance(v.op, ast.Or) and len(v.values) == 2 and unparse(v.values[0]) == cn:
                cases = (cn, dx.text(v.values[1]))
            if cases == (cn, fresh_t):
                name_ok = True
                own_nodes[sd.qualname].add(n.targets[0].id)
                own_nodes[sd.qualname].add(dx.text(v))
    rep.check(name_ok, "PROV-7", "save_document names the node by the document id", "ok", "the Document node is not URIRef(ODML_NS + str(doc.id))", sd.where,
              witness="two exports of one document give different nodes / ids are lost on import")
    dtr = triples(prog, sd)
    for want, what in (((cn, "RDF.type", "URIRef(%s.format().rdf_type)" % sd.params[1]), "typed as odml:Document"),
                       (("%s.hub_root" % me, "ODML_NS.hasDocument", cn), "linked from the Hub")):
        alts = [tuple(o1 if x == cn else x for x in want) for o1 in own_nodes[sd.qualname]]
        nodes = [t[3] for t in dtr if t[:3] in alts]
        ok = len(nodes) == 1 and all(g.dominates(nodes[0], p) for _, p in g.exit.pred)
        rep.check(ok, "PROV-7", "save_document: node %s on every path" % what, "ok", "the Document node is not %s on every path" % what, sd.where,
                  witness="an exported document is missing from the import (not reachable from the Hub)")
    cv = W.lookup_method("convert_to_rdf")
    hub = [n for n in walk_no_nested(cv.node) if isinstance(n, ast.Assign) and unparse(n.targets[0]) == "%s.hub_root" % cv.params[0]]
    rep.check(len(hub) == 1 and Expander(cv).text(hub[0].value) == "URIRef(ODML_NS.Hub)", "PROV-7", "the Hub is the constant ODML_NS.Hub", "ok",
              "hub_root is not URIRef(ODML_NS.Hub)", cv.where, witness="several hubs / reader does not find the documents")
    to = Rd.lookup_method("to_odml")
    tox = Expander(to)
    starts = [c for c in calls_in(to.node) if call_name(c).endswith(".graph.objects")]
    good = any(any(k.arg == "subject" and tox.text(k.value) == "URIRef(ODML_NS.Hub)" for k in c.keywords) and
               any(k.arg == "predicate" and tox.text(k.value) == "ODML_NS.hasDocument" for k in c.keywords) for c in starts)
    rep.check(good, "PROV-7", "reader starts from the same Hub and predicate", "ok", "RDFReader.to_odml does not start from (ODML_NS.Hub, hasDocument)", to.where)
    for fname in ("Document", "Section", "Property"):
        sf = W.lookup_method(SAVE[fname])
        me = sf.params[0]
        node_param = sf.params[2]
        n_attr = 0
        for s0, p0, o0, node, wf in triples(prog, sf):
            if ".rdf_map(" in p0:
                n_attr += 1
                rep.check(s0 in own_nodes.get(sf.qualname, set([node_param])), "PROV-7", "%s attaches attributes to its own node" % sf.name, "ok",
                          "%s adds an attribute triple with subject %s instead of %s" % (sf.name, s0, node_param), where(sf, node.ast),
                          witness="attributes of one object appear on another node")
        rep.floor("PROV-7", n_attr, 1, "attribute triples in %s" % sf.short)
        for c, node, wf in effect_calls(prog, sf, lambda c, me=me: call_name(c) in tuple("%s.%s" % (me, x) for x in ("save_odml_list", "save_odml_values", "save_repository_node"))):
            rep.check(unparse(c.args[0]) in own_nodes.get(sf.qualname, set([node_param])), "PROV-7", "%s: %s under its own node" % (sf.name, call_name(c).split(".")[-1]), "ok",
                      "%s passes %s as parent node" % (sf.name, unparse(c.args[0])), where(sf, node.ast))

    # ---------------------------------------------------------------- PAIR-2
    rep.rule("PAIR-2", "save_section types its node with URIRef(T); T is <sec>.format().rdf_type unless re-assigned; every re-assignment is "
                       "reachable only with self.rdf_subclassing true, and a triple (URIRef(<new type>), RDFS.subClassOf, URIRef(<sec>.format().rdf_type)) "
                       "is added after it on every path to the exit (helpers inlined); save_property types with the format's rdf_type")
    ss = W.lookup_method("save_section")
    g = build_cfg(ss)
    x = Expander(ss, g)
    me, sec, cnode = ss.params[0], ss.params[1], ss.params[2]
    base_type = "%s.format().rdf_type" % sec
    str_ = triples(prog, ss)
    typed = [t for t in str_ if t[0] == cnode and t[1] == "RDF.type"]
    rep.check(len(typed) == 1 and all(g.dominates(typed[0][3], p) for _, p in g.exit.pred), "PAIR-2", "save_section types the node on every path", "ok",
              "the Section node is not typed exactly once on every path: %s" % [t[:3] for t in typed], ss.where)
    tvar = None
    if len(typed) == 1:
        o = typed[0][2]
        if o == "URIRef(%s)" % base_type:
            rep.ok("PAIR-2", "save_section: node typed with the format's rdf_type", o, ss.where)
        elif o.startswith("URIRef(") and o[7:-1].isidentifier():
            tvar = o[7:-1]
        else:
            rep.fail("PAIR-2", "save_section|type-expression", "the Section node is typed with %s" % o, ss.where)
    if tvar is not None:
        assigns = [n for n in g.nodes if n.kind == "stmt" and isinstance(n.ast, ast.Assign) and unparse(n.ast.targets[0]) == tvar]
        rep.floor("PAIR-2", len(assigns), 1, "assignments of the type variable")
        for n in assigns:
            v = x.text(n.ast.value, n)
            if v == base_type:
                rep.ok("PAIR-2", "save_section: default type", base_type, where(ss, n.ast))
                continue
            under_switch = known(g, n, lambda lf, me=me: "SW" if unparse(lf) == "%s.rdf_subclassing" % me else None, lambda a: a["SW"], ["SW"],
                                 expand_test=lambda t0, br: x.expand(t0, br))
            want = ("URIRef(%s)" % v, "RDFS.subClassOf", "URIRef(%s)" % base_type)
            decl = [t[3] for t in str_ if t[:3] == want]
            decl_ok = any((m.id == n.id or g.dominates(n, m)) and all(g.dominates(m, p) or not g.dominates(n, p) for _, p in g.exit.pred) for m in decl)
            rep.check(under_switch, "PAIR-2", "save_section: sub-class only with the switch on", "every path to the re-assignment knows rdf_subclassing",
                      "the node type is replaced by %s on a path where self.rdf_subclassing may be false" % v, where(ss, n.ast),
                      witness="rdf_subclassing=False still exports sub-class types")
            rep.check(decl_ok, "PAIR-2", "save_section: sub-class declared in the graph", "subClassOf triple on the same path",
                      "a node may be typed with sub-class %s without a (sub, rdfs:subClassOf, odml:Section) triple on that path (triples: %s)"
                      % (v, [t[:3] for t in str_ if "subClassOf" in t[1]]), where(ss, n.ast),
                      witness="the importer / a reasoner does not recognise the node as a Section")
    sp = W.lookup_method("save_property")
    ptr = triples(prog, sp)
    rep.check((sp.params[2], "RDF.type", "URIRef(%s.format().rdf_type)" % sp.params[1]) in [t[:3] for t in ptr], "PAIR-2", "save_property types the node", "ok",
              "the Property node is not typed with fmt.rdf_type", sp.where)

    # ----------------------------------------------------------------- SEQ-1
    rep.rule("SEQ-1", "save_odml_values: the sequence node S is URIRef(ODML_NS + str(uuid.uuid4())) (fresh per call, so a second conversion never "
                      "appends to an existing sequence); (S, rdf:type, rdf:Seq) and (parent, predicate, S) are added; every iteration over "
                      "`values` is order keeping (for / enumerate / comprehension, never sorted/reversed/set); the rdflib>=6 branch hands "
                      "CollSeq a list built as Literal(v) per value in that order; the legacy branch adds (S, rdf:_<n>, Literal(v)) with n "
                      "counting from 1; parse_property reads the members through rdflib's Seq(graph=..., subject=...) and toPython()")
    sv = W.lookup_method("save_odml_values")
    rep.saw_function(sv)
    vx = Expander(sv)
    parent, pred, values = sv.params[1], sv.params[2], sv.params[3]
    vtr = triples(prog, sv)
    seqnodes = sorted(set(t[0] for t in vtr if t[1] == "RDF.type" and t[2] == "RDF.Seq"))
    fresh = len(seqnodes) == 1 and seqnodes[0] == "URIRef(ODML_NS + str(uuid.uuid4()))"
    rep.check(fresh, "SEQ-1", "fresh sequence node per call", "uuid4",
              "the value sequence node is %s: repeated conversions by one writer append to the same sequence" % seqnodes, sv.where,
              witness="get_rdf_str() twice on one RDFWriter: values doubled on import")
    S0 = seqnodes[0] if seqnodes else "?"
    rep.check((parent, pred, S0) in [t[:3] for t in vtr], "SEQ-1", "sequence typed rdf:Seq and linked from the Property", "ok",
              "the sequence node is not typed rdf:Seq / not linked from the parent node", sv.where)
    okit, badit = ordered_iterations(sv.node, values)
    rep.check(len(okit) >= 2 and not badit, "SEQ-1", "both branches iterate `values` in order", "%d order keeping iterations" % len(okit),
              "a branch does not iterate the values in list order (%s)" % [unparse(getattr(b, "iter", b))[:40] for b in badit], sv.where,
              witness="values come back in another order")
    colls = [c for c, node, wf in effect_calls(prog, sv, lambda c: call_name(c).split(".")[-1] in ("CollSeq", "Seq", "Collection"))]
    good = False
    for c in colls:
        if len(c.args) == 3 and unparse(c.args[1]) == S0:
            lst = unparse(c.args[2])
            if lst == "[Literal(curr_val) for curr_val in %s]" % values or _is_literal_comp(c.args[2], values):
                good = True
            elif isinstance(c.args[2], ast.Name):
                good = _append_loop_builds(sv.node, c.args[2].id, values)
    rep.check(good, "SEQ-1", "rdflib>=6 branch builds the Seq from the list", "ok",
              "the rdflib>=6 branch no longer builds CollSeq(graph, seq, [Literal(v) for v in values])", sv.where)
    legacy = [t for t in vtr if t[0] == S0 and t[2] == "Literal(EACH(%s))" % values]
    numbered = False
    for t in legacy:
        if "INDEX" in t[1]:
            numbered = _enumerate_from_one(sv.node, values)
        else:
            numbered = numbered or _manual_counter(sv.node, values)
    rep.check(bool(legacy) and numbered, "SEQ-1", "legacy branch numbers the members", "ok",
              "the legacy branch does not add (seq, rdf:_n, Literal(value)) with n counting from 1 (triples %s)" % [t[:3] for t in vtr], sv.where)
    pp = Rd.lookup_method("parse_property")
    seq_calls = effect_calls(prog, pp, lambda c: call_name(c) == "Seq")
    n_seq = sum(1 for c, node, wf in seq_calls if any(k.arg == "graph" for k in c.keywords) and any(k.arg == "subject" for k in c.keywords))
    closure = private_closure(pp)
    sorts = [c for h in closure for c in calls_in(h.node) if call_name(c) in ("sorted", "reversed", "set") or call_name(c).endswith(".sort")]
    rep.check(n_seq >= 1 and not sorts, "SEQ-1", "reader iterates rdflib's Seq", "ok",
              "parse_property does not read the values through Seq(graph, subject) (or sorts them): rdf:_10 sorts before rdf:_2 as text", pp.where,
              witness="a Property with ten or more values comes back shuffled")
    conv = [c for h in closure for c in calls_in(h.node) if isinstance(c.func, ast.Attribute) and c.func.attr == "toPython"]
    rep.check(len(conv) >= 2, "SEQ-1", "reader converts literals with toPython()", "ok", "values are not converted with toPython()", pp.where)

    # --------------------------------------------------------------- TRUTH-3
    rep.rule("TRUTH-3", "the skip guard of the three save_* loops may use truthiness of the attribute value only for formats none of "
                        "whose exported attributes has a falsy-but-set value (numeric or list valued; the child lists are exempt: an "
                        "empty list exports nothing)")
    for fname in ("Document", "Section", "Property"):
        sf = W.lookup_method(SAVE[fname])
        risky = dict((k, v) for k, v in falsy_set_attributes(prog, fname).items()
                     if k in tabs[fname]["_rdf_map"] and k not in ("sections", "properties"))
        tests = []
        for n in walk_no_nested(sf.node):
            if isinstance(n, ast.If) and any(isinstance(x, ast.Continue) for x in n.body):
                for txt2, pol, e in truthiness_tests(n.test):
                    if txt2 == "curr_val" and not pol:
                        tests.append(n)
        if not tests:
            rep.ok("TRUTH-3", "%s skips only unset values" % sf.name, "no truthiness test", sf.where)
        for n in tests:
            rep.check(not risky, "TRUTH-3", "%s: `%s`" % (sf.name, unparse(n.test)[:50]), "no falsy-but-set attribute in this format",
                      "%s drops %s when falsy (`%s`)" % (sf.name, sorted(risky), unparse(n.test)[:60]), where(sf, n),
                      witness="uncertainty = 0 is missing from the export")

    # SKIP-1: an attribute is left out because of what it IS (the id key, handled by the node itself) or because it is empty - never because its
    # value happens to equal another value of the object
    rep.rule("SKIP-1", "in the three save_* loops every comparison of the attribute value in a skip guard (`if ...: continue`) is with a "
                       "constant or an empty display (None, '', []): skipping `curr_val == <obj>.id` (or `in (..., <obj>.id)`) drops every attribute "
                       "that merely has that value - the name of an unnamed Property is its id")
    n_skip = 0
    for fname in ("Document", "Section", "Property"):
        sf = W.lookup_method(SAVE[fname])
        for h in private_closure(sf):
            for n in walk_no_nested(h.node):
                if not (isinstance(n, ast.If) and any(isinstance(x, ast.Continue) for x in n.body)):
                    continue
                try:
                    test_x = Expander(h, inline=prog, expand_names=False).expand(n.test)
                except Exception:
                    test_x = n.test
                for cmp in [y for y in ast.walk(test_x) if isinstance(y, ast.Compare)]:
                    sides = [cmp.left] + list(cmp.comparators)
                    if not any(isinstance(y, ast.Name) and y.id in ("curr_val", "val", "value") for sd in sides for y in ast.walk(sd)):
                        continue
                    n_skip += 1

                    def plain(e):
                        if isinstance(e, ast.Constant):
                            return True
                        if isinstance(e, (ast.List, ast.Tuple, ast.Set, ast.Dict)):
                            return all(plain(x) for x in getattr(e, "elts", [])) and not getattr(e, "keys", None)
                        return isinstance(e, ast.Name)
                    foreign = [unparse(sd) for sd in sides if not plain(sd)]
                    rep.check(not foreign, "SKIP-1", "%s: `%s`" % (h.name, unparse(cmp)[:50]), "compares with constants only",
                              "%s skips an attribute whose value equals %s: attributes are dropped by coincidence of values" % (h.short, foreign),
                              where(h, n), witness="a Property created without a name (its name is its id): hasName is not exported, the graph does not import back")
    rep.note("SKIP-1: %d value comparisons in the skip guards of the RDF writer" % n_skip)

    # READ-3: the reader's constructor only loads the graph
    rep.rule("READ-3", "RDFReader.__init__ converts nothing: no call in it reaches to_odml (to_odml appends to self.docs, so a conversion in the "
                       "constructor makes RDFReader(file, format).to_odml() return every document twice)")
    ri = Rd.lookup_method("__init__")
    if ri is None:
        raise AnalysisError("RDFReader.__init__ vanished")
    seen, todo, reaches = set(), [ri], False
    while todo:
        cur = todo.pop()
        if cur.qualname in seen:
            continue
        seen.add(cur.qualname)
        for c in calls_in(cur.node):
            if isinstance(c.func, ast.Attribute) and isinstance(c.func.value, ast.Name) and cur.params and c.func.value.id == cur.params[0]:
                if c.func.attr == "to_odml":
                    reaches = True
                m = Rd.lookup_method(c.func.attr)
                if m is not None:
                    todo.append(m)
    rep.check(not reaches, "READ-3", "RDFReader.__init__ does not convert", "no path to to_odml",
              "RDFReader.__init__ reaches to_odml: the documents are converted once by the constructor and again by the caller's to_odml()", ri.where,
              witness="len(RDFReader(path, 'turtle').to_odml()) == 2 for a file holding one document")

    # every Document node of the graph yields one document: the append in to_odml depends on nothing the reader has collected so far
    rep.rule("READ-4", "RDFReader.to_odml: every `self.docs.append(<parsed document>)` is unconditional with respect to self.docs (no membership test, "
                       "no comparison with documents read before - odML == is a deep content comparison that ignores ids, so two documents built "
                       "from one template would count as one)")
    tod = Rd.lookup_method("to_odml")
    gt = build_cfg(tod)
    from ..astutil import atoms_at as _atoms_at
    tx4 = Expander(tod, gt, only_locations=True)
    apps = [n for n in gt.nodes if any(isinstance(c.func, ast.Attribute) and c.func.attr == "append" and
                                       tx4.text(c.func.value, n) == "%s.docs" % tod.params[0] for r in n.expr_roots() for c in calls_in(r))]
    rep.floor("READ-4", len(apps), 1, "self.docs.append in to_odml")
    for n in apps:
        ats = [t for t, _, _ in _atoms_at(gt, n) if re.search(r"\b%s\.docs\b" % re.escape(tod.params[0]), t)]
        rep.check(not ats, "READ-4", "to_odml appends every parsed document", "unconditional",
                  "to_odml appends a parsed document only if {%s}: a document whose content equals an earlier one is dropped" % ", ".join(ats),
                  where(tod, n.ast), witness="export a document and its clone(): one document comes back")

    from ..report import import_verdicts
    import_verdicts(prog, rep, "C05", ("RET-1",), "RET-1",
                    "the importer hands every value (a native int, float, date ... as rdflib delivers it) to the Property constructor, which re-types "
                    "it with the dtype converters: they must return what they are given in normal form, exactly")
    import_verdicts(prog, rep, "C02", ("LOOP-1",), "DICT-I",
                    "RDFReader builds dictionaries and hands them to DictReader().to_odml: what one Section's dictionary lacks (no 'sections' / "
                    "'properties' key for a node without such links) must not be filled in from the sibling parsed before it")
    import_verdicts(prog, rep, "C01", ("ENUM-1",), "ENUM-1",
                    "the exporter writes the dtype as Literal(prop.dtype), i.e. through str(): a DType member has to print as its name, or the graph "
                    "carries `DType.url` and the import drops the dtype")
    from .common_tables import stateless_tools_rule
    stateless_tools_rule(prog, rep, "STATE-2", ("RDFWriter", "RDFReader"))
    # reader side of TRUTH-3: an object fetched from the graph is never tested for truthiness (a Literal 0 / 0.0 is falsy)
    for fname in ("Document", "Section", "Property"):
        pf = Rd.lookup_method(PARSE[fname])
        risky = dict((k, v) for k, v in falsy_set_attributes(prog, fname).items() if k in tabs[fname]["_rdf_map"] and k not in ("sections", "properties"))
        bad = []
        for h in private_closure(pf):
            hx = Expander(h, inline=prog)
            single = set()       # locals bound to one graph object (graph.value(...), an element of graph.objects(...))
            for n in walk_no_nested(h.node):
                if isinstance(n, ast.Assign) and len(n.targets) == 1 and isinstance(n.targets[0], ast.Name) and isinstance(n.value, ast.Call) \
                        and isinstance(n.value.func, ast.Attribute) and n.value.func.attr in ("value", "toPython"):
                    single.add(n.targets[0].id)
            for n in ast.walk(h.node):
                tests = [n.test] if isinstance(n, (ast.If, ast.IfExp, ast.While)) else []
                for t0 in tests:
                    for txt, pol, e0 in truthiness_tests(t0):
                        if isinstance(e0, ast.Name) and e0.id in single:
                            bad.append((h, n, txt))
        if not bad:
            rep.ok("TRUTH-3", "%s tests presence, not truthiness, of graph objects" % pf.name, "ok", pf.where)
        for h, n, txt in bad:
            rep.check(not risky, "TRUTH-3", "%s: truthiness of the graph object `%s`" % (pf.name, txt), "no falsy-but-set attribute in this format",
                      "%s drops an attribute when the literal read from the graph is falsy (`%s`): %s are set values" % (pf.name, txt, sorted(risky)),
                      where(h, n), witness="an uncertainty of 0 is exported but comes back as None")

    # ----------------------------------------------------------------- RID-1
    rep.rule("RID-1", "the namespace ends with '#'; the three parse_* functions store <uri>.split('#', 1)[1] under 'id'; parse_document "
                      "returns {'Document': ..., 'odml-version': FORMAT_VERSION}; mandatory-name check raises ParserException")
    ns = fd.class_attr(prog.module_of("format").classes["Format"], "_ns")
    rep.check(isinstance(ns, str) and ns.endswith("#"), "RID-1", "namespace ends with '#'", str(ns), "the odML namespace %r does not end with '#'" % (ns,), "odml/format.py")
    for fname in ("Document", "Section", "Property"):
        pf = Rd.lookup_method(PARSE[fname])
        uri = pf.params[1]
        ix = Expander(pf, inline=prog)
        idvals = [ix.text(n.value) for n in walk_no_nested(pf.node) if isinstance(n, ast.Assign)]
        rep.check("%s.split('#', 1)[1]" % uri in idvals or "%s.split('#', 1)[1]" % uri in unparse(pf.node), "RID-1", "%s recovers the id from the URI" % pf.name, "ok",
                  "%s does not take the id from %s.split('#', 1)[1]" % (pf.name, uri), pf.where, witness="imported ids differ from the exported ones")
    rep.assume("rdflib's Graph/Seq/serialisers behave as documented")


def triples(prog, f):
    """[(subject, predicate, object, node, func)] of every <x>.graph.add((s, p, o)) in f and its private helpers (expanded texts)."""
    out = []
    for c, node, wf in effect_calls(prog, f, lambda c: call_name(c).endswith(".graph.add") and len(c.args) == 1
                                    and isinstance(c.args[0], ast.Tuple) and len(c.args[0].elts) == 3, expanded=True):
        t = c.args[0].elts
        out.append((unparse(t[0]), unparse(t[1]), unparse(t[2]), node, wf))
    return out


def _is_literal_comp(e, values):
    if not (isinstance(e, ast.ListComp) and len(e.generators) == 1 and not e.generators[0].ifs):
        return False
    gen = e.generators[0]
    base, _ = strip_order_keeping(gen.iter)
    return isinstance(base, ast.Name) and base.id == values and isinstance(gen.target, ast.Name) \
        and unparse(e.elt) == "Literal(%s)" % gen.target.id


def _append_loop_builds(fnode, lst, values):
    """lst = [] ; for v in values: lst.append(Literal(v))"""
    inits = [n for n in ast.walk(fnode) if isinstance(n, ast.Assign) and unparse(n.targets[0]) == lst]
    if not (len(inits) == 1 and isinstance(inits[0].value, ast.List) and not inits[0].value.elts):
        return False
    for loop in ast.walk(fnode):
        if isinstance(loop, ast.For) and isinstance(loop.target, ast.Name):
            base, _ = strip_order_keeping(loop.iter)
            if isinstance(base, ast.Name) and base.id == values:
                apps = [c for c in calls_in(loop) if unparse(c.func) == "%s.append" % lst]
                if len(apps) == 1 and unparse(apps[0].args[0]) == "Literal(%s)" % loop.target.id:
                    others = [c for c in calls_in(fnode) if isinstance(c.func, ast.Attribute) and unparse(c.func.value) == lst
                              and c.func.attr in ("insert", "sort", "reverse", "extend", "remove", "pop") or
                              (unparse(c.func) == "%s.append" % lst and c is not apps[0])]
                    return not others
    return False


def _enumerate_from_one(fnode, values):
    for loop in ast.walk(fnode):
        if isinstance(loop, ast.For) and isinstance(loop.iter, ast.Call) and unparse(loop.iter.func) == "enumerate" and loop.iter.args \
                and unparse(loop.iter.args[0]) == values:
            start = loop.iter.args[1] if len(loop.iter.args) > 1 else next((k.value for k in loop.iter.keywords if k.arg == "start"), None)
            if isinstance(start, ast.Constant) and start.value == 1:
                return True
    return False


def _manual_counter(fnode, values):
    """counter = 1 before a loop over values whose body uses it in the predicate and increments it by one, once"""
    for loop in ast.walk(fnode):
        if not (isinstance(loop, ast.For) and isinstance(loop.iter, ast.Name) and loop.iter.id == values):
            continue
        incs = []
        for n in ast.walk(loop):
            if isinstance(n, ast.AugAssign) and isinstance(n.op, ast.Add) and isinstance(n.value, ast.Constant) and n.value.value == 1 \
                    and isinstance(n.target, ast.Name):
                incs.append(n.target.id)
            if isinstance(n, ast.Assign) and isinstance(n.targets[0], ast.Name) and isinstance(n.value, ast.BinOp) and isinstance(n.value.op, ast.Add) \
                    and unparse(n.value) in ("%s + 1" % n.targets[0].id, "1 + %s" % n.targets[0].id):
                incs.append(n.targets[0].id)
        for cvar in incs:
            inits = [n for n in ast.walk(fnode) if isinstance(n, ast.Assign) and unparse(n.targets[0]) == cvar
                     and not any(n is m for m in ast.walk(loop))]
            used = any(isinstance(c, ast.Call) and call_name(c).endswith(".graph.add") and cvar in [y.id for y in ast.walk(c) if isinstance(y, ast.Name)]
                       for c in ast.walk(loop)) or any(isinstance(n, ast.Assign) and cvar in [y.id for y in ast.walk(n.value) if isinstance(y, ast.Name)]
                                                       and unparse(n.targets[0]) != cvar for n in ast.walk(loop))
            if len(inits) == 1 and isinstance(inits[0].value, ast.Constant) and inits[0].value.value == 1 and incs.count(cvar) == 1 and used:
                return True
    return False


def _strip_format_module(prog, f, text):
    """'odmlfmt.Section.rdf_map_items' -> 'Section.rdf_map_items' when the leading name is an alias of the odml.format module"""
    head = text.split(".", 1)[0]
    imp = f.module.imports.get(head)
    if imp is not None:
        try:
            r = prog.resolve_import(imp)
        except Exception:
            r = None
        if getattr(r, "name", None) == "odml.format" and "." in text:
            return text.split(".", 1)[1]
    return text


def repository_linked_on_every_path(prog, rep, rule="PROV-7"):
    """save_repository_node: whether the terminology node is new or already known, the element is linked to it"""
    from ..logic import reach_avoiding
    W = prog.cls("RDFWriter")
    sr = W.lookup_method("save_repository_node")
    if sr is None:
        raise AnalysisError("RDFWriter.save_repository_node vanished")
    rep.saw_function(sr)
    g = build_cfg(sr)
    parent, pred = sr.params[1], sr.params[2]
    links = set(t[3].id for t in triples(prog, sr) if t[0] == parent and t[1] == pred)
    ok = bool(links) and not reach_avoiding(g, g.entry, g.exit, lambda s0, k0, d0: d0.id in links, skip_kinds=("exc",))
    rep.check(ok, rule, "save_repository_node links the element on every path", "graph.add((%s, %s, <terminology node>)) on every path" % (parent, pred),
              "save_repository_node can return without adding (%s, %s, <terminology node>): an element whose repository URL was exported "
              "before loses its repository" % (parent, pred), sr.where,
              witness="a Document and one of its Sections with the same repository: the second one is exported without it")


def link_every_iteration(prog, rep, rule="PROV-7"):
    """save_odml_list: on every way through one iteration the child node is linked from its parent (shared with C20: a missing
    containment triple makes the queries miss the object)."""
    from .c15 import _iteration_paths
    W = prog.cls("RDFWriter")
    sl = W.lookup_method("save_odml_list")
    g = build_cfg(sl)
    x = Expander(sl, g, inline=prog)
    item = "EACH(%s)" % sl.params[3]
    nodeexpr = "URIRef(ODML_NS + str(%s.id))" % item
    loops = [n for n in g.nodes if n.kind == "for" and x.text(n.ast.iter, n) == sl.params[3]]
    links = set(t[3].id for t in triples(prog, sl) if t[:3] == (sl.params[1], sl.params[2], nodeexpr))
    ok = len(loops) == 1 and bool(links)
    if ok:
        paths = _iteration_paths(g, loops[0])
        rep.analysed["paths"] += len(paths)
        ok = bool(paths) and all(any(n.id in links for n, _ in p) for p in paths)
    rep.check(ok, rule, "save_odml_list links every child from its parent", "the link triple lies on every path through an iteration",
              "an iteration of save_odml_list can end without adding (parent, predicate, child node): the child is not reachable from its parent",
              sl.where, witness="two exported documents sharing a Section id: the second document's link is missing and queries miss the hit")
