"""C10 - RDF export is a faithful, well-formed graph that imports back unchanged.

Decided (graph shape / table clauses): the RDF attribute tables agree with the model classes and
with what the dictionary reader accepts; every object becomes one node named by its id and linked
from its parent by that very node; a single constant Hub links every Document; nodes are typed
with the format's rdf_type, or with a sub-class that the same path declares as subClassOf Section
(only when sub-classing is on); values become one fresh rdf:Seq per Property filled in list order
and are read back through rdflib's Seq; no set-but-falsy attribute is dropped; the reader recovers
the id from the node URI and produces the 1.1 dictionary layout.
NOT decided: literal fidelity per serialisation, equality of the re-imported documents, sibling order.
"""
import ast

from ..astutil import calls_in, call_name, where, truthiness_tests, local_assignments
from ..cfg import build_cfg
from ..facts import MODEL_CLASSES, readable_attrs, ctor_keywords
from ..fold import Folder, format_tables
from ..model import AnalysisError, unparse, walk_no_nested
from .c02 import falsy_set_attributes

DECIDED = [
    "TAB-8 _rdf_map keys are readable on the model class, accepted by the dictionary reader and map to constructor keywords",
    "PROV-7 one node per object, URI = namespace + id, the node linked from the parent is the node the attributes go to; one constant Hub",
    "PAIR-2 a node typed with a Section sub-class is declared subClassOf Section on the same path; no sub-class without the switch",
    "SEQ-1 values: one fresh rdf:Seq node per call, filled in list order; the reader iterates rdflib's Seq",
    "TRUTH-3 no set-but-falsy attribute is dropped by the writers' skip guards",
    "RID-1 the reader takes the id from the node URI after '#', which is how the namespace ends",
]
NOT_DECIDED = ["literal fidelity per serialisation (float shortening, large ints)", "equality of the re-imported documents", "sibling order"]

SAVE = {"Document": "save_document", "Section": "save_section", "Property": "save_property"}
PARSE = {"Document": "parse_document", "Section": "parse_section", "Property": "parse_property"}


def run(prog, rep):
    rep.decided = DECIDED
    rep.not_decided = NOT_DECIDED
    tabs = format_tables(prog)
    rmod = prog.module_of("tools.rdf_converter")
    W = prog.cls("RDFWriter")
    Rd = prog.cls("RDFReader")
    fd = Folder(prog)

    # ----------------------------------------------------------------- TAB-8
    rep.rule("TAB-8", "for each format F and each key k of F._rdf_map: k (Property: 'value' via F.map) is a readable attribute of the "
                      "model class (the writer does an unguarded getattr); k is accepted by DictReader.is_valid_attribute for F (member "
                      "of _args or value of _map) and F.map(k) is a constructor keyword or a child collection; every writer/reader "
                      "function of format F iterates F's own table")
    for fname, tab in sorted(tabs.items()):
        cls = prog.cls(MODEL_CLASSES[fname])
        readable = readable_attrs(cls)
        kws = ctor_keywords(cls)
        accepted = set(tab["_args"]) | set(tab["_map"].values())
        for k in sorted(tab["_rdf_map"]):
            attr = tab["_map"].get(k, k) if (fname == "Property" and k == "value") else k
            rep.check(attr in readable, "TAB-8", "%s rdf key %s readable" % (fname, k), "ok",
                      "_rdf_map key '%s' of %s is not an attribute of %s: the export raises AttributeError" % (k, fname, cls.name), "odml/format.py",
                      witness="export any %s" % fname)
            rep.check(k in accepted, "TAB-8", "%s rdf key %s accepted by the dict reader" % (fname, k), "ok",
                      "_rdf_map key '%s' of %s is refused by DictReader.is_valid_attribute: the import of every %s fails" % (k, fname, fname),
                      "odml/format.py", witness="import an exported graph")
            py = tab["_map"].get(k, k)
            # keys that are python names already (dtype, sections, properties) are passed through Format.map unchanged
            ctor_ok = py in ("sections", "properties") or kws is None or py in kws
            rep.check(ctor_ok, "TAB-8", "%s rdf key %s constructible" % (fname, k), "ok",
                      "_rdf_map key '%s' of %s maps to '%s', which is no constructor keyword of %s" % (k, fname, py, cls.name), "odml/format.py")
        sf = W.lookup_method(SAVE[fname])
        pf = Rd.lookup_method(PARSE[fname])
        if sf is None or pf is None:
            raise AnalysisError("RDF writer/reader function for %s vanished" % fname)
        rep.saw_function(sf)
        rep.saw_function(pf)
        loops = [n for n in walk_no_nested(sf.node) if isinstance(n, ast.For) and unparse(n.iter).endswith(".rdf_map_keys")]
        fmt_ok = False
        if len(loops) == 1:
            base = loops[0].iter.value
            defs = local_assignments(sf.node, base.id) if isinstance(base, ast.Name) else []
            fmt_ok = len(defs) == 1 and unparse(defs[0]) == "%s.format()" % sf.params[1]
        rep.check(fmt_ok, "TAB-8", "%s iterates the object's own rdf table" % sf.name, "for k in <obj>.format().rdf_map_keys",
                  "%s does not iterate <object>.format().rdf_map_keys" % sf.name, sf.where)
        rl = [n for n in walk_no_nested(pf.node) if isinstance(n, ast.For) and unparse(n.iter) == "%s.rdf_map_items" % fname]
        rep.check(len(rl) == 1, "TAB-8", "%s iterates %s.rdf_map_items" % (pf.name, fname), "ok",
                  "%s does not iterate the %s table" % (pf.name, fname), pf.where, witness="attributes of another kind are read / own ones missed")

    # ---------------------------------------------------------------- PROV-7
    rep.rule("PROV-7", "save_odml_list: node = URIRef(ODML_NS + str(item.id)); graph.add((parent, predicate, node)); the same node and "
                       "item go to save_section / save_property, dispatched on the item's format name; save_document: node from doc.id "
                       "unless given, typed with fmt.rdf_type and linked by (hub_root, hasDocument, node) on every path; hub_root is the "
                       "constant ODML_NS.Hub; every attribute triple has the current node as subject")
    sl = W.lookup_method("save_odml_list")
    rep.saw_function(sl)
    lp = [n for n in walk_no_nested(sl.node) if isinstance(n, ast.For)]
    ok = len(lp) == 1 and unparse(lp[0].iter) == sl.params[3]
    if ok:
        item = unparse(lp[0].target)
        nodes = [n for n in lp[0].body if isinstance(n, ast.Assign) and unparse(n.value) == "URIRef(ODML_NS + str(%s.id))" % item]
        ok = len(nodes) == 1
        if ok:
            nv = unparse(nodes[0].targets[0])
            adds = [unparse(c) for c in calls_in(lp[0]) if call_name(c) == "self.graph.add"]
            ok = "self.graph.add((%s, %s, %s))" % (sl.params[1], sl.params[2], nv) in adds
            disp = {}
            for n in ast.walk(lp[0]):
                if isinstance(n, ast.If):
                    for c in calls_in(ast.Module(body=n.body, type_ignores=[])):
                        if call_name(c) in ("self.save_section", "self.save_property"):
                            disp[call_name(c)] = (unparse(n.test), [unparse(a) for a in c.args])
            ok = ok and disp.get("self.save_section", ("", []))[1] == [item, nv] and "Section.name" in disp["self.save_section"][0] \
                and disp.get("self.save_property", ("", []))[1] == [item, nv] and "Property.name" in disp["self.save_property"][0]
    rep.check(ok, "PROV-7", "save_odml_list names, links and fills the same node", "ok",
              "save_odml_list does not (name the node by the item's id, link exactly that node from the parent, pass item and node on)", sl.where,
              witness="a Section's attributes end up on another node / the node is not reachable from its parent")
    sd = W.lookup_method("save_document")
    g = build_cfg(sd)
    cn = sd.params[2]
    name_ok = any(isinstance(n, ast.Assign) and unparse(n.targets[0]) == cn and unparse(n.value) == "URIRef(ODML_NS + str(%s.id))" % sd.params[1]
                  for n in walk_no_nested(sd.node))
    rep.check(name_ok, "PROV-7", "save_document names the node by the document id", "ok", "the Document node is not URIRef(ODML_NS + str(doc.id))", sd.where,
              witness="two exports of one document give different nodes / ids are lost on import")
    for want, what in (("self.graph.add((%s, RDF.type, URIRef(fmt.rdf_type)))" % cn, "typed as odml:Document"),
                       ("self.graph.add((self.hub_root, ODML_NS.hasDocument, %s))" % cn, "linked from the Hub")):
        nodes = [n for n in g.nodes if n.kind == "stmt" and unparse(n.ast) == want]
        ok = len(nodes) == 1 and all(g.dominates(nodes[0], p) for _, p in g.exit.pred)
        rep.check(ok, "PROV-7", "save_document: node %s on every path" % what, "ok", "the Document node is not %s on every path" % what, sd.where,
                  witness="an exported document is missing from the import (not reachable from the Hub)")
    cv = W.lookup_method("convert_to_rdf")
    hub = [n for n in walk_no_nested(cv.node) if isinstance(n, ast.Assign) and unparse(n.targets[0]) == "self.hub_root"]
    rep.check(len(hub) == 1 and unparse(hub[0].value) == "URIRef(ODML_NS.Hub)", "PROV-7", "the Hub is the constant ODML_NS.Hub", "ok",
              "hub_root is not URIRef(ODML_NS.Hub)", cv.where, witness="several hubs / reader does not find the documents")
    to = Rd.lookup_method("to_odml")
    rep.check("subject=URIRef(ODML_NS.Hub)" in unparse(to.node) and "predicate=ODML_NS.hasDocument" in unparse(to.node), "PROV-7",
              "reader starts from the same Hub and predicate", "ok", "RDFReader.to_odml does not start from (ODML_NS.Hub, hasDocument)", to.where)
    for fname in ("Document", "Section", "Property"):
        sf = W.lookup_method(SAVE[fname])
        node_param = sf.params[2]
        for c in calls_in(sf.node):
            if call_name(c) == "self.graph.add" and c.args and isinstance(c.args[0], ast.Tuple) and len(c.args[0].elts) == 3:
                subj = unparse(c.args[0].elts[0])
                pred = unparse(c.args[0].elts[1])
                if pred in ("curr_pred",):
                    rep.check(subj == node_param, "PROV-7", "%s attaches attributes to its own node" % sf.name, "ok",
                              "%s adds an attribute triple with subject %s instead of %s" % (sf.name, subj, node_param), where(sf, c),
                              witness="attributes of one object appear on another node")
        subs = [c for c in calls_in(sf.node) if call_name(c) in ("self.save_odml_list", "self.save_odml_values", "self.save_repository_node")]
        for c in subs:
            rep.check(unparse(c.args[0]) == node_param, "PROV-7", "%s: %s under its own node" % (sf.name, call_name(c)[5:]), "ok",
                      "%s passes %s as parent node" % (sf.name, unparse(c.args[0])), where(sf, c))

    # ---------------------------------------------------------------- PAIR-2
    rep.rule("PAIR-2", "save_section: curr_type starts as fmt.rdf_type; it is replaced by a sub-class only inside `if self.rdf_subclassing` "
                       "/ `if sub_sec`, and that block adds (URIRef(curr_type), RDFS.subClassOf, URIRef(fmt.rdf_type)); the node is typed "
                       "with curr_type")
    ss = W.lookup_method("save_section")
    g = build_cfg(ss)
    assigns = [n for n in g.nodes if n.kind == "stmt" and isinstance(n.ast, ast.Assign) and unparse(n.ast.targets[0]) == "curr_type"]
    rep.floor("PAIR-2", len(assigns), 1, "assignments of curr_type")
    for n in assigns:
        v = unparse(n.ast.value)
        if v == "fmt.rdf_type":
            rep.ok("PAIR-2", "save_section: default type", "fmt.rdf_type", where(ss, n.ast))
            continue
        conds = [(unparse(t), pol) for t, pol, _ in g.dominating_conditions(n)]
        under_switch = ("self.rdf_subclassing", "true") in conds
        decl = [m for m in g.nodes if m.kind == "stmt" and "RDFS.subClassOf" in unparse(m.ast) and g.dominates(n, m)
                and all(g.dominates(m, p) or not g.dominates(n, p) for _, p in g.exit.pred)]
        decl_ok = any(unparse(m.ast) == "self.graph.add((URIRef(curr_type), RDFS.subClassOf, URIRef(fmt.rdf_type)))" for m in decl)
        rep.check(under_switch, "PAIR-2", "save_section: sub-class only with the switch on", str(conds),
                  "curr_type is replaced by %s outside `if self.rdf_subclassing`" % v, where(ss, n.ast),
                  witness="rdf_subclassing=False still exports sub-class types")
        rep.check(decl_ok, "PAIR-2", "save_section: sub-class declared in the graph", "subClassOf triple on the same path",
                  "a node may be typed with sub-class %s without a (sub, rdfs:subClassOf, odml:Section) triple on that path" % v, where(ss, n.ast),
                  witness="the importer / a reasoner does not recognise the node as a Section")
    typed = [n for n in g.nodes if n.kind == "stmt" and unparse(n.ast) == "self.graph.add((curr_node, RDF.type, URIRef(curr_type)))"]
    rep.check(len(typed) == 1 and all(g.dominates(typed[0], p) for _, p in g.exit.pred), "PAIR-2", "save_section types the node with curr_type", "ok",
              "the Section node is not typed with curr_type on every path", ss.where)
    sp = W.lookup_method("save_property")
    rep.check("self.graph.add((curr_node, RDF.type, URIRef(fmt.rdf_type)))" in unparse(sp.node), "PAIR-2", "save_property types the node", "ok",
              "the Property node is not typed with fmt.rdf_type", sp.where)

    # ----------------------------------------------------------------- SEQ-1
    rep.rule("SEQ-1", "save_odml_values: seq = URIRef(ODML_NS + str(uuid.uuid4())) (fresh per call, so a second conversion never appends "
                      "to an existing sequence); (seq, rdf:type, rdf:Seq) and (parent, predicate, seq) are added; both rdflib branches "
                      "add the values in iteration order of `values`; parse_property reads them with Seq(graph=..., subject=elems[0])")
    sv = W.lookup_method("save_odml_values")
    rep.saw_function(sv)
    seqs = local_assignments(sv.node, "seq")
    rep.check(len(seqs) == 1 and unparse(seqs[0]) == "URIRef(ODML_NS + str(uuid.uuid4()))", "SEQ-1", "fresh sequence node per call", "uuid4",
              "the value sequence node is %s: repeated conversions by one writer append to the same sequence" % [unparse(x) for x in seqs], sv.where,
              witness="get_rdf_str() twice on one RDFWriter: values doubled on import")
    txt = unparse(sv.node)
    rep.check("self.graph.add((seq, RDF.type, RDF.Seq))" in txt and "self.graph.add((%s, %s, seq))" % (sv.params[1], sv.params[2]) in txt, "SEQ-1",
              "sequence typed rdf:Seq and linked from the Property", "ok", "the sequence node is not typed rdf:Seq / not linked from the parent node", sv.where)
    loops = [n for n in walk_no_nested(sv.node) if isinstance(n, ast.For)]
    rep.check(len(loops) == 2 and all(unparse(n.iter) == sv.params[3] for n in loops), "SEQ-1", "both branches iterate `values` in order", "ok",
              "a branch does not iterate the values in list order (sorted/reversed/set?)", sv.where, witness="values come back in another order")
    rep.check("seq_list.append(Literal(curr_val))" in txt and "CollSeq(self.graph, seq, seq_list)" in txt, "SEQ-1", "rdflib>=6 branch builds the Seq from the list", "ok",
              "the rdflib>=6 branch no longer builds CollSeq(graph, seq, [Literal(v) for v in values])", sv.where)
    rep.check("counter = counter + 1" in txt or "counter += 1" in txt, "SEQ-1", "legacy branch numbers the members", "ok",
              "the legacy branch does not increment the member counter", sv.where)
    pp = Rd.lookup_method("parse_property")
    ptxt = unparse(pp.node)
    n_seq = ptxt.count("Seq(graph=self.graph, subject=elems[0])")
    rep.check(n_seq >= 2 and "sorted(" not in ptxt, "SEQ-1", "reader iterates rdflib's Seq", "ok",
              "parse_property does not read the values through Seq(graph, subject) (or sorts them): rdf:_10 sorts before rdf:_2 as text", pp.where,
              witness="a Property with ten or more values comes back shuffled")
    rep.check("seq_item.toPython()" in ptxt, "SEQ-1", "reader converts literals with toPython()", "ok", "values are not converted with toPython()", pp.where)

    # --------------------------------------------------------------- TRUTH-3
    rep.rule("TRUTH-3", "the skip guard of the three save_* loops may use truthiness of the attribute value only for formats none of "
                        "whose exported attributes has a falsy-but-set value (numeric or list valued; the child lists are exempt: an "
                        "empty list exports nothing)")
    for fname in ("Document", "Section", "Property"):
        sf = W.lookup_method(SAVE[fname])
        risky = dict((k, v) for k, v in falsy_set_attributes(prog, fname).items()
                     if k in tabs[fname]["_rdf_map"] and k not in ("sections", "properties"))
        tests = []
        for n in walk_no_nested(sf.node):
            if isinstance(n, ast.If) and any(isinstance(x, ast.Continue) for x in n.body):
                for txt2, pol, e in truthiness_tests(n.test):
                    if txt2 == "curr_val" and not pol:
                        tests.append(n)
        if not tests:
            rep.ok("TRUTH-3", "%s skips only unset values" % sf.name, "no truthiness test", sf.where)
        for n in tests:
            rep.check(not risky, "TRUTH-3", "%s: `%s`" % (sf.name, unparse(n.test)[:50]), "no falsy-but-set attribute in this format",
                      "%s drops %s when falsy (`%s`)" % (sf.name, sorted(risky), unparse(n.test)[:60]), where(sf, n),
                      witness="uncertainty = 0 is missing from the export")

    # ----------------------------------------------------------------- RID-1
    rep.rule("RID-1", "the namespace ends with '#'; the three parse_* functions store <uri>.split('#', 1)[1] under 'id'; parse_document "
                      "returns {'Document': ..., 'odml-version': FORMAT_VERSION}; mandatory-name check raises ParserException")
    ns = fd.class_attr(prog.module_of("format").classes["Format"], "_ns")
    rep.check(isinstance(ns, str) and ns.endswith("#"), "RID-1", "namespace ends with '#'", str(ns), "the odML namespace %r does not end with '#'" % (ns,), "odml/format.py")
    for fname in ("Document", "Section", "Property"):
        pf = Rd.lookup_method(PARSE[fname])
        uri = pf.params[1]
        rep.check("%s.split('#', 1)[1]" % uri in unparse(pf.node), "RID-1", "%s recovers the id from the URI" % pf.name, "ok",
                  "%s does not take the id from %s.split('#', 1)[1]" % (pf.name, uri), pf.where, witness="imported ids differ from the exported ones")
    rep.assume("rdflib's Graph/Seq/serialisers behave as documented")
