"""C20 - searches over exported RDF return exactly the matching objects.

Decided (vocabulary / table clauses): the attribute alternations of the six parser regexes equal the
RDF attribute tables of the matching format class; the query vocabulary (classes, predicates, value
container) is what the exporter writes; the dictionary keys Doc/Sec/Prop agree between parsers,
query builder and fuzzy finder; parsers keep no state between queries; every non-empty combination
is generated (DFS skeleton), duplicates are decided on the attribute name, most specific first,
empty results omitted.
NOT decided: soundness/completeness of the SPARQL against arbitrary graphs, value escaping, rdflib.
"""
import ast
import re

from ..astutil import calls_in, call_name, where, local_assignments
from ..cfg import build_cfg
from ..logic import known
from .c10 import _strip_format_module
from ..dataflow import private_closure
from ..fold import Folder, format_tables, Unfoldable
from ..symtext import effect_calls, Expander
from ..model import AnalysisError, unparse, walk_no_nested

DECIDED = [
    "TAB-9 attribute alternations of the six parser regexes == _rdf_map keys of the matching format (Property minus value, handled separately)",
    "TAB-10 every odml:/rdf: term of the query templates is produced by the exporter",
    "PAIR-2 (C10) a Section is exported as odml:Section unless sub-classing is switched on: the queries select Sections by that type",
    "KEY-1 the q_dict keys Doc/Sec/Prop agree across parsers, query builder, possible_q_dict_keys and the fuzzy finder",
    "STATE-1 parsers and creators keep their dictionaries per instance and reset them per parse",
    "DFS-1 subset generation: recursion on i + 1 with path + [attrs[i]], duplicates decided on the attribute name, longest first, empty results omitted",
]
NOT_DECIDED = ["SPARQL soundness/completeness on arbitrary graphs", "escaping of values", "rdflib query evaluation"]

KEYS = {"Doc": "Document", "Sec": "Section", "Prop": "Property"}


def alternation(pattern):
    """the attribute alternation (a|b|c) of a parser regex."""
    m = re.search(r"\(((?:\w+\|)+\w+)\)", pattern)
    return set(m.group(1).split("|")) if m else None


def _alternations_by_content(prog, rep, fd, tabs, cls, qmod):
    """TAB-9 without the per entity helper functions: every attribute alternation among the regular expressions of the query module
    (module level tables included) is the attribute table of exactly one format, and each of the three formats has one in the
    patterns the parser class can reach.  Decides less than the per function form: a correct list used for the wrong entity
    is not seen."""
    want = dict((fname, set(tabs[fname]["_rdf_map"]) - ({"value"} if fname == "Property" else set())) for fname in KEYS.values())
    names_used = set(y.id for m in cls.methods.values() for h in private_closure(m) for y in ast.walk(h.node) if isinstance(y, ast.Name))
    # module level names reachable from those (tables of compiled patterns)
    grew = True
    while grew:
        grew = False
        for n0 in list(names_used):
            for v in qmod.assigns.get(n0, []):
                for y in ast.walk(v):
                    if isinstance(y, ast.Name) and y.id not in names_used:
                        names_used.add(y.id)
                        grew = True
    alts = []
    for node in ast.walk(qmod.tree):
        if isinstance(node, ast.Call) and isinstance(node.func, ast.Attribute) and node.func.attr in ("compile", "findall", "finditer", "search", "match") \
                and node.args:
            v = fd.try_fold(node.args[0], qmod)
            if isinstance(v, str) and alternation(v) and len(alternation(v)) >= 4:
                alts.append((alternation(v), node))
    rep.floor("TAB-9", len(alts), 3, "attribute alternations in the patterns of rdf.query_creator")
    seen = set()
    for alt, node in alts:
        hit = [fname for fname, w in want.items() if w == alt]
        if hit:
            seen.add(hit[0])
        rep.check(bool(hit), "TAB-9", "%s: alternation %s" % (cls.name, "|".join(sorted(alt))[:50]), "the attribute table of %s" % (hit[0] if hit else "?"),
                  "the pattern accepts %s, which is the attribute table of no format (Document %s / Section %s / Property %s)"
                  % (sorted(alt), sorted(want["Document"]), sorted(want["Section"]), sorted(want["Property"])),
                  "%s:%d" % (qmod.path, node.lineno), witness="a query on a dropped attribute is silently ignored")
    rep.check(seen == set(want), "TAB-9", "%s: every entity has its attribute pattern" % cls.name, str(sorted(seen)),
              "no pattern carries the attribute table of %s" % sorted(set(want) - seen), qmod.path)


def run(prog, rep):
    rep.decided = DECIDED
    rep.not_decided = NOT_DECIDED
    tabs = format_tables(prog)
    qmod = prog.module_of("rdf.query_creator")
    fmod = prog.module_of("rdf.fuzzy_finder")
    fd = Folder(prog)

    # ----------------------------------------------------------------- TAB-9
    rep.rule("TAB-9", "for QueryParser and QueryParserFuzzy, _parse_doc/_parse_sec/_parse_prop: the names in the regex alternation "
                      "(folded from the literal / attr_list) are exactly the _rdf_map keys of Document/Section/Property (Property: "
                      "without 'value', which has its own clause); an attribute missing from a regex is silently ignored in queries, an "
                      "extra one yields a malformed triple pattern")
    for cname in ("QueryParser", "QueryParserFuzzy"):
        cls = prog.cls(cname)
        if any(cls.lookup_method(m0) is None for m0 in ("_parse_doc", "_parse_sec", "_parse_prop")):
            # the per entity helpers were merged / made table driven: the weaker, layout free form of the rule
            _alternations_by_content(prog, rep, fd, tabs, cls, qmod)
            continue
        for meth, fname in (("_parse_doc", "Document"), ("_parse_sec", "Section"), ("_parse_prop", "Property")):
            f = cls.lookup_method(meth)
            if f is None:
                raise AnalysisError("%s.%s vanished" % (cname, meth))
            rep.saw_function(f)
            alt = None
            x = Expander(f, inline=prog)
            for st in walk_no_nested(f.node):
                if not (isinstance(st, ast.Assign) and isinstance(st.targets[0], ast.Subscript) and isinstance(st.targets[0].slice, ast.Constant)):
                    continue
                vx = x.expand(st.value)
                for c in ast.walk(vx):
                    if isinstance(c, ast.Call) and isinstance(c.func, ast.Attribute) and c.func.attr in ("findall", "finditer", "search", "match", "compile") and c.args:
                        pat = c.args[0]
                        if isinstance(pat, ast.Call) and isinstance(pat.func, ast.Attribute) and pat.func.attr == "compile" and pat.args:
                            pat = pat.args[0]
                        v = fd.try_fold(pat, f.module)
                        if isinstance(v, str) and alternation(v) and alt is None:
                            alt = alternation(v)
            want = set(tabs[fname]["_rdf_map"]) - ({"value"} if fname == "Property" else set())
            if alt is None:
                # the patterns are no longer written in the per entity methods (a shared, table driven parser): the layout free form
                _alternations_by_content(prog, rep, fd, tabs, cls, qmod)
                break
            rep.check(alt == want, "TAB-9", "%s.%s attributes" % (cname, meth), str(sorted(alt)),
                      "%s.%s accepts %s, the %s RDF table has %s (missing %s, extra %s)" % (cname, meth, sorted(alt), fname, sorted(want),
                                                                                         sorted(want - alt), sorted(alt - want)), f.where,
                      witness="a query on %s is silently dropped / builds a broken pattern" % sorted((want - alt) | (alt - want)))
            stored = [n for n in walk_no_nested(f.node) if isinstance(n, ast.Assign) and isinstance(n.targets[0], ast.Subscript)
                      and isinstance(n.targets[0].slice, ast.Constant)]
            key = [k for k, v in KEYS.items() if v == fname][0]
            rep.check(bool(stored) and all(s.targets[0].slice.value == key for s in stored), "KEY-1", "%s.%s stores under '%s'" % (cname, meth, key),
                      "ok", "%s.%s stores its result under %s" % (cname, meth, [s.targets[0].slice.value for s in stored]), f.where,
                      witness="the query builder never sees these attributes")

    # ---------------------------------------------------------------- TAB-10
    rep.rule("TAB-10", "QueryCreator._prepare_query: every odml:X / rdf:X term in its string templates is written by the exporter: "
                       "odml:Document/Section/Property are the formats' rdf types, odml:hasSection/hasProperty/hasValue are _rdf_map "
                       "values, attribute predicates come from <Format>.rdf_map(...), and the value container class and membership "
                       "predicate are those save_odml_values uses")
    pq = prog.cls("QueryCreator").lookup_method("_prepare_query")
    rep.saw_function(pq)
    strings = [n.value for h in private_closure(pq) for n in ast.walk(h.node) if isinstance(n, ast.Constant) and isinstance(n.value, str)
               and not (isinstance(getattr(n, "_doc", None), str))]
    docs = set(ast.get_docstring(h.node) for h in private_closure(pq))
    strings = [s0 for s0 in strings if s0.strip() not in set(d.strip() for d in docs if d)]
    terms = set()
    for s in strings:
        terms |= set(re.findall(r"\b(odml|rdf):(\w+)", s))
    exported = set()
    for fname, tab in tabs.items():
        exported.add(("odml", str(tab["_rdf_type"])))
        for v in tab["_rdf_map"].values():
            exported.add(("odml", str(v)))
    exported.add(("rdf", "type"))
    sv = prog.cls("RDFWriter").lookup_method("save_odml_values")
    svt = unparse(sv.node)
    for cont in ("Seq", "Bag", "Alt"):
        if "RDF.%s" % cont in svt:
            exported.add(("rdf", cont))
    if "RDF.li" in svt and "#" not in svt.split("RDF.li")[0].split("\n")[-1]:
        exported.add(("rdf", "li"))
    rep.floor("TAB-10", len(terms), 6, "vocabulary terms in the query templates")
    for ns, t in sorted(terms):
        rep.check((ns, t) in exported, "TAB-10", "query term %s:%s" % (ns, t), "written by the exporter",
                  "the query uses %s:%s, which the exporter never writes: every query containing it returns nothing" % (ns, t), pq.where,
                  witness="a {'Prop': [('value', ['v'])]} query on an export that contains v")
    maps = effect_calls(prog, pq, lambda c: isinstance(c.func, ast.Attribute) and c.func.attr == "rdf_map")
    for fname, var in (("Document", "Doc"), ("Section", "Sec"), ("Property", "Prop")):
        mine = [e for e in maps if any(p and ("'%s' in " % var) in t for t, p in e.guards())]
        used = sorted(set(_strip_format_module(prog, e.func, unparse(e.call.func.value)) for e in mine))
        rep.check(used == [fname], "TAB-10", "predicates of %s come from %s.rdf_map" % (var, fname), str(used),
                  "_prepare_query maps the %s attributes through %s instead of %s.rdf_map" % (var, used, fname), pq.where,
                  witness="a query on a %s attribute builds the predicate of another kind (or none) and matches nothing" % fname)
    # containment relations between the kinds
    joined = " ".join(strings)
    rep.check("?d odml:hasSection ?s" in joined and "?s odml:hasProperty ?p" in joined, "TAB-10", "kinds related by direct containment", "ok",
              "the Document/Section/Property variables are no longer related by hasSection/hasProperty", pq.where)

    # the containment patterns of the queries rely on the links the exporter writes for every child
    from .c10 import link_every_iteration
    link_every_iteration(prog, rep, "TAB-10")

    from ..report import import_verdicts
    import_verdicts(prog, rep, "C10", ("PAIR-2",), "PAIR-2",
                    "every query with a Sec part contains `?s rdf:type odml:Section`: the exporter must type Sections that way whenever "
                    "rdf_subclassing is off")

    # ----------------------------------------------------------------- KEY-1
    rep.rule("KEY-1", "possible_q_dict_keys == ['Doc', 'Sec', 'Prop']; _prepare_query reads exactly these keys; the fuzzy finder "
                      "iterates QueryCreator.possible_q_dict_keys")
    bc = prog.cls("BaseQueryCreator")
    try:
        keys = fd.class_attr(bc, "possible_q_dict_keys")
    except Unfoldable:
        keys = None
    rep.check(keys == ["Doc", "Sec", "Prop"], "KEY-1", "possible_q_dict_keys", str(keys), "possible_q_dict_keys is %s" % (keys,), bc.module.path)
    read = set(n.left.value for h in private_closure(pq) for n in ast.walk(h.node) if isinstance(n, ast.Compare) and isinstance(n.left, ast.Constant)
               and isinstance(n.ops[0], (ast.In, ast.NotIn)) and "q_dict" in unparse(n.comparators[0]))
    rep.check(read == set(KEYS), "KEY-1", "_prepare_query reads Doc/Sec/Prop", str(sorted(read)), "_prepare_query tests keys %s" % sorted(read), pq.where)
    ff = prog.cls("FuzzyFinder")
    # the two pair generators (match mode, fuzzy mode) - whatever they are called - go through the shared key list
    users = [m0 for _, m0 in sorted(ff.methods.items()) if any(isinstance(y, ast.Attribute) and y.attr == "possible_q_dict_keys" for y in ast.walk(m0.node))]
    for m0 in users:
        rep.saw_function(m0)
    literal_keys = [m0 for _, m0 in sorted(ff.methods.items())
                    if any(isinstance(y, (ast.Tuple, ast.List)) and [getattr(e0, "value", None) for e0 in y.elts] == ["Doc", "Sec", "Prop"]
                           for y in ast.walk(m0.node))]
    rep.check(len(users) >= 2 and not literal_keys, "KEY-1", "the pair generators iterate the shared key list", "%d methods use possible_q_dict_keys" % len(users),
              "the fuzzy finder no longer builds its parameter pairs from QueryCreator.possible_q_dict_keys in both modes (%s)"
              % [m0.name for m0 in users], ff.module.path, witness="a key added to the query builder is ignored by the finder")

    # TYPE-1: a variable is typed only by the block of its own part
    rep.rule("TYPE-1", "_prepare_query: a statement that emits `?d rdf:type odml:Document` / `?s rdf:type odml:Section` / `?p rdf:type odml:Property` is "
                       "reached only where the Doc / Sec / Prop part of the query is known to be present: without a Document part ?d stays "
                       "untyped, so that `?d odml:hasSection ?s` also matches a Section below a Section")
    from ..astutil import atoms_at as _atoms_at
    n_ty = 0
    for h in private_closure(pq):
        gq = build_cfg(h)
        for nq in gq.nodes:
            if nq.kind != "stmt" or not isinstance(nq.ast, (ast.AugAssign, ast.Assign, ast.Expr)):
                continue
            for cst in [y for y in ast.walk(nq.ast) if isinstance(y, ast.Constant) and isinstance(y.value, str)]:
                m1 = re.search(r"\?(\w) rdf:type odml:(Document|Section|Property)", cst.value)
                if not m1:
                    continue
                n_ty += 1
                key = {"Document": "Doc", "Section": "Sec", "Property": "Prop"}[m1.group(2)]
                ats = [(t, pol) for t, pol, _ in _atoms_at(gq, nq)]
                ok1 = any(pol and re.search(r"['\"]%s['\"]" % key, t) for t, pol in ats) or h is not pq
                rep.check(ok1, "TYPE-1", "%s typed under the %s part" % (m1.group(0)[:30], key), "guarded",
                          "`%s` is emitted where the %s part is not known to be present (conditions: %s): sub-Sections no longer match a query "
                          "without Document attributes" % (m1.group(0), key, [t for t, _ in ats][:3]), where(h, nq.ast),
                          witness="Section query without Document attributes for a Section that lies below another Section: no result")
    rep.note("TYPE-1: %d type triples emitted by statements of _prepare_query" % n_ty)

    # PAIR-3: every (attribute, value) pair the caller gave becomes a parameter pair
    rep.rule("PAIR-3", "the pair generators of FuzzyFinder (and their private helpers) iterate <self>.q_params[<key>] as it is: they do not pass it "
                       "through dict() / set() / frozenset(), which keep one entry per attribute - `sec(type:a, type:b)` would search for b only")
    n_pairs = 0
    for m0 in users:
        for h in private_closure(m0):
            for c in calls_in(h.node):
                if isinstance(c.func, ast.Name) and c.func.id in ("dict", "set", "frozenset") and c.args \
                        and any(isinstance(y, ast.Attribute) and y.attr == "q_params" for y in ast.walk(c.args[0])):
                    rep.fail("PAIR-3", "%s|%s(q_params)" % (h.short, c.func.id), "%s wraps the caller's parameter list in %s(): repeated attributes "
                             "collapse to one entry" % (h.short, c.func.id), where(h, c),
                             witness="find(mode='match', q_str='sec(type:stimulus, type:recording)') reports the matches of 'recording' only")
            n_pairs += 1
    rep.ok("PAIR-3", "the parameter lists are iterated as given", "%d generator functions" % n_pairs, "")

    # --------------------------------------------------------------- STATE-1
    rep.rule("STATE-1", "no class of rdf.query_creator / rdf.fuzzy_finder keeps a mutable container at class level other than read-only "
                        "tables; parsers initialise self.q_dict in __init__; QueryParserFuzzy resets it per parse; FuzzyFinder resets "
                        "_subsets per generation")
    for mod in (qmod, fmod):
        for cls in mod.classes.values():
            for name, node in cls.attrs.items():
                mutable = isinstance(node, (ast.Dict, ast.List, ast.Set))
                if not mutable:
                    continue
                # read-only tables are never written through self/cls
                written = False
                for c2 in list(mod.classes.values()):
                    for f in list(c2.methods.values()):
                        for n in walk_no_nested(f.node):
                            if isinstance(n, (ast.Assign, ast.AugAssign)):
                                for t in (n.targets if isinstance(n, ast.Assign) else [n.target]):
                                    if isinstance(t, ast.Subscript) and isinstance(t.value, ast.Attribute) and t.value.attr == name:
                                        own = any(isinstance(s, ast.Assign) and any(unparse(tt) == "self.%s" % name for tt in s.targets)
                                                  for fn in [c2.lookup_method("__init__")] if fn is not None for s in walk_no_nested(fn.node))
                                        if not own:
                                            written = True
                rep.check(not written, "STATE-1", "%s.%s is not a shared mutable" % (cls.name, name), "read-only table",
                          "%s.%s is a class level container that instances write into: queries leak into each other" % (cls.name, name),
                          cls.module.path, witness="two searches in one process: the second carries pairs of the first")
    bp = prog.cls("BaseQueryParser")
    init = bp.lookup_method("__init__")
    ok = init is not None and any(isinstance(n, ast.Assign) and unparse(n.targets[0]) == "self.q_dict" and isinstance(n.value, ast.Dict)
                                  for n in walk_no_nested(init.node))
    rep.check(ok, "STATE-1", "parsers create q_dict per instance", "self.q_dict = {} in __init__",
              "BaseQueryParser no longer creates self.q_dict in __init__ (class level dictionary shared by all parsers?)", bp.module.path,
              witness="doc(author:x) then sec(name:y) in one process: the second search still carries the Doc pair")
    for cname in ("QueryParser", "QueryParserFuzzy"):
        c = prog.cls(cname)
        i2 = c.lookup_method("__init__")
        ok = i2 is not None and (i2.cls is bp or any(call_name(x).endswith("__init__") for x in calls_in(i2.node)))
        rep.check(ok, "STATE-1", "%s initialises through the base __init__" % cname, "ok", "%s.__init__ does not run the base initialiser" % cname, c.module.path)
    gs = ff.lookup_method("_generate_parameters_subsets")
    def _fresh_list(v, fn=gs):
        if isinstance(v, ast.List) and not v.elts:
            return True
        if isinstance(v, ast.Name):
            defs = local_assignments(fn.node, v.id)
            return len(defs) == 1 and isinstance(defs[0], ast.List) and not defs[0].elts
        return False
    rep.check(any(isinstance(n, ast.Assign) and unparse(n.targets[0]) == "%s._subsets" % gs.params[0] and _fresh_list(n.value) for n in walk_no_nested(gs.node)),
              "STATE-1", "FuzzyFinder resets _subsets per search", "ok", "_generate_parameters_subsets does not reset self._subsets", gs.where)

    # the finder never modifies the query parameters it was handed (the caller may reuse the dictionary)
    muts = []
    for f in ff.methods.values():
        me0 = f.params[0] if f.params else "self"
        for n in walk_no_nested(f.node):
            if isinstance(n, ast.Call) and isinstance(n.func, ast.Attribute) and unparse(n.func.value) == "%s.q_params" % me0 \
                    and n.func.attr in ("pop", "popitem", "clear", "update", "setdefault", "__setitem__", "__delitem__"):
                muts.append((f, n, unparse(n)[:50]))
            if isinstance(n, (ast.Assign, ast.AugAssign, ast.Delete)):
                tg = n.targets if isinstance(n, (ast.Assign, ast.Delete)) else [n.target]
                for t0 in tg:
                    if isinstance(t0, ast.Subscript) and unparse(t0.value) == "%s.q_params" % me0:
                        muts.append((f, n, unparse(n)[:50]))
    rep.check(not muts, "STATE-1", "FuzzyFinder leaves the caller's query parameters unchanged", "no mutation of self.q_params",
              "FuzzyFinder modifies the parameter dictionary it was given: %s" % [m0[2] for m0 in muts], where(muts[0][0], muts[0][1]) if muts else fmod.path,
              witness="the same parameter dictionary used for a second search: the search terms are gone, the report is empty")

    # ------------------------------------------------------------------ DFS-1
    rep.rule("DFS-1", "_subsets_util_dfs(index, path, res, attrs): appends path when non-empty, loops i over range(index, len(attrs)) and "
                      "recurses with (i + 1, path + [attrs[i]]) guarded by _check_duplicate_attrs(path, attrs[i]); _check_duplicate_attrs "
                      "compares the attribute name component [1][0] of both pairs; subsets sorted by len, reverse=True; "
                      "_output_query_results appends only when triples is non-empty")
    dfs = ff.lookup_method("_subsets_util_dfs")
    rep.saw_function(dfs)
    rec = [c for c in calls_in(dfs.node) if call_name(c).split(".")[-1] == "_subsets_util_dfs"]
    dx = Expander(dfs, only_locations=True)
    off = 1 if dfs.has_self else 0            # a method, a static method or a module function
    p_index, p_path, p_res, p_attrs = dfs.params[off:off + 4] if len(dfs.params) >= off + 4 else ("index", "path", "res", "attrs")
    loops = [n for n in walk_no_nested(dfs.node) if isinstance(n, ast.For)]
    pos = elem = None
    if len(loops) == 1:
        lp0 = loops[0]
        it = unparse(lp0.iter)
        if isinstance(lp0.target, ast.Name) and it == "range(%s, len(%s))" % (p_index, p_attrs):
            pos, elem = lp0.target.id, "%s[%s]" % (p_attrs, lp0.target.id)
        elif isinstance(lp0.target, ast.Tuple) and len(lp0.target.elts) == 2 and all(isinstance(e0, ast.Name) for e0 in lp0.target.elts) \
                and it in ("enumerate(islice(%s, %s, None), start=%s)" % (p_attrs, p_index, p_index),
                           "enumerate(islice(%s, %s, None), %s)" % (p_attrs, p_index, p_index),
                           "enumerate(itertools.islice(%s, %s, None), start=%s)" % (p_attrs, p_index, p_index),
                           "enumerate(%s[%s:], start=%s)" % (p_attrs, p_index, p_index), "enumerate(%s[%s:], %s)" % (p_attrs, p_index, p_index)):
            pos, elem = lp0.target.elts[0].id, lp0.target.elts[1].id
    rep.check(pos is not None, "DFS-1", "DFS loop range", "every position from index to the end, with its pair",
              "the DFS loop iterates %s" % [unparse(n.iter) for n in loops], dfs.where)
    rargs = [dx.text(a0) for a0 in rec[0].args] if rec else None
    ok = len(rec) == 1 and pos is not None and rargs == ["%s + 1" % pos, "%s + [%s]" % (p_path, elem), p_res, p_attrs]
    rep.check(ok, "DFS-1", "DFS recursion", "(position + 1, path + [pair at position], res, attrs)", "the DFS recursion is %s" % (rargs,),
              dfs.where, witness="combinations are missing or repeated")
    early = [y for lp0 in loops for y in ast.walk(lp0) if isinstance(y, (ast.Break, ast.Return))]
    rep.check(not early, "DFS-1", "the DFS loop tries every remaining pair", "no break / return in the loop",
              "the DFS loop stops early (%s): combinations that continue with a later pair are never generated"
              % [type(y).__name__.lower() for y in early], where(dfs, early[0]) if early else dfs.where,
              witness="FIND sec(name, type) HAVING stim, stimulus: the combination name=stim & type=stimulus is not searched")
    rep.check("if %s:" % p_path in unparse(dfs.node) and "%s.append(%s)" % (p_res, p_path) in unparse(dfs.node), "DFS-1", "every non-empty path is recorded", "ok",
              "non-empty combinations are not all recorded", dfs.where)
    cd = ff.lookup_method("_check_duplicate_attrs")
    cmps = [n for n in walk_no_nested(cd.node) if isinstance(n, ast.Compare)]
    ok = len(cmps) == 1 and isinstance(cmps[0].ops[0], ast.Eq)
    if ok:
        l, r = unparse(cmps[0].left), unparse(cmps[0].comparators[0])
        ok = l.endswith("[1][0]") and r.endswith("[1][0]")
    rep.check(ok, "DFS-1", "duplicates decided on the attribute name", "x[1][0] == y[1][0]",
              "_check_duplicate_attrs compares %s" % [unparse(c) for c in cmps], cd.where,
              witness="sec(name:a, type:a): the most specific combination is dropped")
    aliases = set(["%s._subsets" % gs.params[0]]) | set(unparse(n.value) for n in walk_no_nested(gs.node) if isinstance(n, ast.Assign)
                                                          and unparse(n.targets[0]) == "%s._subsets" % gs.params[0] and isinstance(n.value, ast.Name))
    sorts = [c for c in calls_in(gs.node) if isinstance(c.func, ast.Attribute) and c.func.attr == "sort" and unparse(c.func.value) in aliases]
    rep.check(any(sorted(unparse(k0) if hasattr(k0, "arg") is False else "%s=%s" % (k0.arg, unparse(k0.value)) for k0 in c.keywords) == ["key=len", "reverse=True"] for c in sorts), "DFS-1", "most specific first", "sort(key=len, reverse=True)",
              "subsets are not sorted longest first", gs.where)
    oq = ff.lookup_method("_output_query_results")
    og = build_cfg(oq)
    adds = [n for n in og.nodes if n.kind == "stmt" and isinstance(n.ast, ast.AugAssign) and "triples" in [y.id for y in ast.walk(n.ast.value) if isinstance(y, ast.Name)]]
    good = bool(adds) and all(known(og, n, lambda lf: "T" if isinstance(lf, ast.Name) and lf.id == "triples" else None, lambda a0: a0["T"], ["T"]) for n in adds)
    rep.check(good, "DFS-1", "combinations without a hit are omitted", "results are added only when triples is non-empty", "results are appended regardless of hits", oq.where)
    rep.assume("regular expression semantics of python's re; SPARQL evaluation of rdflib")
