"""C11 - copies handed out are equal to, and independent of, the original.

Decided (aliasing / freshness / id policy clauses): every clone chain re-binds every
mutable container field of the copy (child lists, value list) with fresh containers
whose elements are fresh too, detaches the copy, adds only clones of the children and
only under `if children`; a new id is given iff not keep_id and the flag reaches every
recursive clone; export_leaf clones with keep_id=True and children=False; the values
getter hands out a fresh list (inner tuple lists copied), the value mutators store only
converted values, never the caller's container.
NOT decided: clone() == original (deep equality is value level), equality ignoring
ids, independence of third party objects stored as attribute values.
"""
import ast
import re

from .. import analysis
from ..astutil import calls_in, call_name, where, kw
from ..cfg import build_cfg
from ..facts import instance_fields, init_of
from ..logic import known
from ..model import AnalysisError, ClassInfo, unparse, walk_no_nested, canonical_name
from ..symtext import Expander, effect_calls
from ..dataflow import private_closure

DECIDED = [
    "ALIAS-1 each clone chain must-writes every mutable container field of the copy with a fresh, element-fresh container and detaches the copy (_parent = None)",
    "ALIAS-2 children are added to the copy only as clones and only under `if children`",
    "ID-1 new_id() is called iff not keep_id in every model class's clone, and keep_id is forwarded to every recursive clone",
    "ID-2 new_id() changes the id and nothing else (the copy keeps every other attribute of the original, the name included)",
    "LEAF-1 export_leaf clones with keep_id=True, the chain Sections with children=False, and adds cloned Properties only",
    "ALIAS-3 the values getter returns a fresh list with inner lists copied; value mutators store converted values only",
    "RET-1 (C05) the dtype converters build their results: the value lists the copy gets from the values setter share no inner list with the caller's input",
    "FWD-2 TemplateHandler.clone_section forwards children and keep_id",
    'EQ-1 BaseObject.__eq__ singles out no attribute name but id / oid',
    'LEAF-1 also: the start node of export_leaf is told from its ancestors by the object itself, never by agreement of an attribute value',
]
NOT_DECIDED = ["clone() == original (deep, value level equality)", "independence of foreign objects stored as attribute values",
               "_merged is copied by reference (points at the original's merge target; not a container)"]

MODEL = ("BaseDocument", "BaseSection", "BaseProperty")


def container_fields(cls):
    """instance fields initialised with a mutable container in some __init__ along the MRO."""
    out = {}
    for c in cls.mro:
        if isinstance(c, ClassInfo) and "__init__" in c.methods:
            f = c.methods["__init__"]
            for n in walk_no_nested(f.node):
                if isinstance(n, ast.Assign) and isinstance(n.targets[0], ast.Attribute) \
                        and unparse(n.targets[0].value) == f.params[0]:
                    v = n.value
                    if isinstance(v, (ast.List, ast.Dict, ast.Set, ast.ListComp)) or \
                            (isinstance(v, ast.Call) and call_name(v).split(".")[-1] in ("SmartList", "list", "dict", "set")):
                        out[n.targets[0].attr] = (f, n)
    return out


def clone_chain(prog, cls):
    """clone methods executed for an instance of cls, most derived first, following super() calls."""
    chain = []
    for c in cls.mro:
        if isinstance(c, ClassInfo) and "clone" in c.methods:
            chain.append(c.methods["clone"])
    return chain


def run(prog, rep):
    rep.decided = DECIDED
    rep.not_decided = NOT_DECIDED
    an = analysis.get(prog)
    S = an.s
    an.note_coverage(rep)

    # ---------------------------------------------------------------- ALIAS-1
    rep.rule("ALIAS-1", "for each model class: container fields are derived from the constructors (fields initialised with "
                        "list/dict/set/SmartList); along the class's clone chain (each clone calls super().clone) every such field "
                        "of the copy is stored on every path before the return with SmartList(...) / a fresh display, or - for the "
                        "value list, whose elements may be lists - through the values setter (which converts every element) ; "
                        "`obj._parent = None` is stored as well; BaseObject.clone is copy.copy(self)")
    base_clone = prog.func("base.BaseObject.clone")
    rep.saw_function(base_clone)
    from ..symtext import canon_text
    bx = Expander(base_clone, inline=prog)
    rets = [n.value for n in walk_no_nested(base_clone.node) if isinstance(n, ast.Return)]
    rtexts = [canon_text(prog, base_clone, bx.expand(v)) if v is not None else "None" for v in rets]
    rep.check(len(rets) == 1 and rtexts == ["copy.copy(%s)" % base_clone.params[0]], "ALIAS-1",
              "BaseObject.clone is a shallow copy of self", "copy.copy(self)", "BaseObject.clone no longer returns copy.copy(self)", base_clone.where)
    for cname in MODEL:
        cls = prog.cls(cname)
        fields = container_fields(cls)
        if not fields:
            raise AnalysisError("no container field derived for %s" % cname)
        chain = clone_chain(prog, cls)
        rep.floor("ALIAS-1", len(chain), 2, "clone methods in the chain of %s" % cname)
        # each non-base clone obtains the copy from super().clone(...)
        for f in chain[:-1]:
            rep.saw_function(f)
            sup = [c for c in calls_in(f.node) if isinstance(c.func, ast.Attribute) and c.func.attr == "clone"
                   and isinstance(c.func.value, ast.Call) and call_name(c.func.value) == "super"]
            rep.check(len(sup) == 1, "ALIAS-1", "%s starts from super().clone" % f.short, "ok",
                      "%s does not obtain the copy from exactly one super().clone(...) call" % f.short, f.where,
                      witness="part of the clone chain (detaching, list re-binding of a base class) is skipped")
        for field in sorted(fields) + ["_parent"]:
            hit = None
            for f in chain:
                g = S.cfg(f)
                objvars = set()
                for n in walk_no_nested(f.node):
                    if isinstance(n, ast.Assign) and isinstance(n.value, ast.Call) and isinstance(n.targets[0], ast.Name) \
                            and (call_name(n.value) in ("copy.copy",) or (isinstance(n.value.func, ast.Attribute) and n.value.func.attr == "clone")):
                        objvars.add(n.targets[0].id)
                for node in g.nodes:
                    if node.kind != "stmt" or not isinstance(node.ast, ast.Assign):
                        continue
                    t = node.ast.targets[0]
                    if not (isinstance(t, ast.Attribute) and isinstance(t.value, ast.Name) and t.value.id in objvars):
                        continue
                    v = node.ast.value
                    via_setter = None
                    if t.attr == field:
                        pass
                    elif field == "_values" and t.attr in ("values", "value"):
                        via_setter = t.attr
                    else:
                        continue
                    # must-write: the store dominates every normal exit
                    dom = all(g.dominates(node, p) for _, p in g.exit.pred)
                    hit = (f, node, v, via_setter, dom)
            inst = "%s clone: %s" % (cname, field)
            if hit is None:
                rep.fail("ALIAS-1", "%s|%s" % (cname, field), "container field %s of the copy is never re-bound along the clone chain %s: "
                         "the copy shares it with the original" % (field, [f.short for f in chain]), chain[0].where,
                         witness="append to the clone's %s and look at the original" % field)
                continue
            f, node, v, via_setter, dom = hit
            if field == "_parent":
                good = isinstance(v, ast.Constant) and v.value is None
                exp = "None"
            elif via_setter:
                good = True
                exp = "values setter (converts every element)"
            elif field == "_values":
                good = isinstance(v, ast.ListComp) and isinstance(v.elt, ast.Call) or \
                    (isinstance(v, ast.Call) and call_name(v) == "copy.deepcopy")
                exp = "element-fresh list (values of n-tuple dtype are lists)"
            else:
                good = (isinstance(v, ast.Call) and call_name(v).split(".")[-1] == "SmartList") or \
                    (isinstance(v, (ast.List, ast.Dict, ast.Set)) and not getattr(v, "elts", getattr(v, "keys", [])))
                exp = "fresh empty container"
            rep.check(good and dom, "ALIAS-1", inst, "%s = %s on every path" % (field, unparse(v)[:40]),
                      ("%s is re-bound to %s (expected: %s)" % (field, unparse(v)[:60], exp)) if not good else
                      "%s is not re-bound on every path of %s" % (field, f.short), where(f, node.ast),
                      witness="mutate an element of the clone's %s (e.g. an n-tuple value) and look at the original" % field)
        # the values setter re-binds _values with a fresh list on every normal path
    vs = prog.func("property.BaseProperty.values.setter")
    rep.saw_function(vs)
    g = S.cfg(vs)
    stores = [n for n in g.nodes if n.kind == "stmt" and isinstance(n.ast, ast.Assign)
              and unparse(n.ast.targets[0]) == "%s._values" % vs.params[0]]
    # a list that is emptied or filled in place is the list clone() shares with the original (clone relies on this setter to unshare it)
    me_v = vs.params[0]
    for n in g.nodes:
        for r in n.expr_roots() if n.kind != "stmt" or not isinstance(n.ast, ast.Delete) else []:
            for c in calls_in(r):
                if isinstance(c.func, ast.Attribute) and unparse(c.func.value) == "%s._values" % me_v and \
                        c.func.attr in ("clear", "append", "extend", "insert", "pop", "remove", "sort", "reverse"):
                    rep.fail("ALIAS-1", "values setter|in place|%s" % c.func.attr,
                             "the values setter changes the stored list in place (`%s`) instead of binding a fresh one: a clone made from it keeps "
                             "sharing the list with the original" % unparse(c)[:50], where(vs, c),
                             witness="clone an empty Property that has a dtype, extend the clone: the original has the values too")
        if n.kind == "stmt" and isinstance(n.ast, (ast.Delete, ast.Assign, ast.AugAssign)):
            tg = n.ast.targets if isinstance(n.ast, (ast.Delete, ast.Assign)) else [n.ast.target]
            if any(isinstance(t, ast.Subscript) and unparse(t.value) == "%s._values" % me_v for t in tg) or \
                    (isinstance(n.ast, ast.AugAssign) and unparse(n.ast.target) == "%s._values" % me_v):
                rep.fail("ALIAS-1", "values setter|in place|%s" % type(n.ast).__name__,
                         "the values setter changes the stored list in place (`%s`) instead of binding a fresh one: a clone made from it keeps "
                         "sharing the list with the original" % unparse(n.ast)[:50], where(vs, n.ast),
                         witness="clone an empty Property that has a dtype, extend the clone: the original has the values too")
    rep.floor("ALIAS-1", len(stores), 2, "stores to _values in the values setter")
    for n in stores:
        v = n.ast.value
        good = (isinstance(v, ast.List) and not v.elts) or (isinstance(v, ast.ListComp) and isinstance(v.elt, ast.Call)
                                                            and call_name(v.elt) == "dtypes.get")
        rep.check(good, "ALIAS-1", "values setter: _values = %s" % unparse(v)[:40], "fresh list of converted values",
                  "the values setter stores %s: the caller's list (or its elements) may be shared" % unparse(v)[:60], where(vs, n.ast),
                  witness="p.values = lst; lst.append(x) changes p")
    paths = g.paths(loop_bound=1)
    rep.analysed["paths"] += len(paths)
    missing = [p for p in paths if p[-1][0].kind == "exit" and not any(n in stores for n, _ in p)]
    rep.check(not missing, "ALIAS-1", "values setter re-binds _values on every normal path", "%d paths" % len(paths),
              "a normal path through the values setter leaves _values untouched", vs.where)

    # ---------------------------------------------------------------- ALIAS-2
    rep.rule("ALIAS-2", "in Sectionable.clone and BaseSection.clone everything appended to the copy is the result of "
                        "<child>.clone(...) and the append is control dependent on `children`")
    n_add = 0
    for qn in ("base.Sectionable.clone", "section.BaseSection.clone"):
        f = prog.func(qn)
        g = S.cfg(f)
        for node in g.nodes:
            for r in node.expr_roots():
                for c in calls_in(r):
                    recv0 = c.func.value if isinstance(c.func, ast.Attribute) else None
                    if isinstance(recv0, ast.Attribute) and isinstance(recv0.value, ast.Name):
                        recv0 = recv0.value          # obj._props.append(...): the copy's own child list
                    if isinstance(c.func, ast.Attribute) and c.func.attr in ("append", "insert", "extend") and \
                            isinstance(recv0, ast.Name) and recv0.id != f.params[0]:
                        n_add += 1
                        org = S.origin(c.args[-1], f, node)
                        fresh = bool(org) and all(o[0] == "FRESH" for o in org)
                        rep.check(fresh, "ALIAS-2", "%s: %s" % (f.short, unparse(c)[:50]), "appends a clone",
                                  "%s appends an object that is not a fresh clone (origin %s): original and copy share the child"
                                  % (f.short, sorted(org)), where(f, c), witness="edit a child of the clone; the original's child changes (and lost its parent)")
                        under = known(g, node, lambda lf: "C" if isinstance(lf, ast.Name) and lf.id == "children" else None, lambda a0: a0["C"], ["C"])
                        rep.check(under, "ALIAS-2", "%s: append under `if children`" % f.short, "ok",
                                  "children are added on a path that does not know `children` to be requested", where(f, c),
                                  witness="clone(children=False) has children")
    rep.floor("ALIAS-2", n_add, 2, "child appends in the clone functions")

    # ------------------------------------------------------------------- ID-1
    rep.rule("ID-1", "BaseDocument.clone, BaseSection.clone and BaseProperty.clone call <copy>.new_id() exactly under "
                     "`if not keep_id` (and on every path where keep_id is false); every clone call made inside a clone "
                     "function binds the callee's keep_id parameter to the caller's keep_id")
    for cname in MODEL:
        cls = prog.cls(cname)
        f = cls.methods.get("clone")
        if f is None:
            rep.fail("ID-1", "%s|no-own-clone" % cname, "%s does not define clone(): the inherited chain never assigns a new id" % cname,
                     cls.module.path, witness="%s.clone().id == original id" % cname)
            continue
        rep.saw_function(f)
        if "keep_id" not in f.params:
            rep.fail("ID-1", "%s|no-keep_id" % cname, "%s.clone has no keep_id parameter" % cname, f.where)
            continue
        g = S.cfg(f)
        nid = []
        for node in g.nodes:
            for r in node.expr_roots():
                for c in calls_in(r):
                    if isinstance(c.func, ast.Attribute) and c.func.attr == "new_id" and not c.args:
                        nid.append((node, c))
        rep.check(len(nid) == 1, "ID-1", "%s.clone calls new_id once" % cname, "ok", "%s.clone calls new_id %d times" % (cname, len(nid)), f.where,
                  witness="clone keeps the id of the original")
        for node, c in nid:
            conds = [(unparse(t), pol) for t, pol, _ in g.dominating_conditions(node)]
            good = conds in ([("not keep_id", "true")], [("keep_id", "false")])
            rep.check(good, "ID-1", "%s.clone: new_id under `not keep_id`" % cname, str(conds),
                      "new_id() is guarded by %s instead of exactly `not keep_id`" % conds, where(f, c),
                      witness="keep_id=True still changes the id / keep_id=False keeps it")
            # every normal path with keep_id false passes the call: the guard's true side reaches exit only via the call
            br = [b for b in g.nodes if b.kind == "branch" and unparse(b.ast.test) in ("not keep_id", "keep_id")]
            rep.check(len(br) == 1 and all(g.dominates(br[0], p) for _, p in g.exit.pred), "ID-1",
                      "%s.clone: the keep_id test is on every path" % cname, "ok", "some path returns without testing keep_id", f.where)
    n_fwd = 0
    for f in prog.all_functions():
        if f.name != "clone" or f.cls is None or f.cls.name not in MODEL + ("Sectionable",):
            continue
        for c in calls_in(f.node):
            if not (isinstance(c.func, ast.Attribute) and c.func.attr == "clone"):
                continue
            targets = [t for t in S.targets(c, f) if hasattr(t, "params") and "keep_id" in t.params]
            if not targets:
                continue
            n_fwd += 1
            passed = kw(c, "keep_id", None)
            if passed is None:
                for t in targets:
                    idx = t.params.index("keep_id") - 1
                    if len(c.args) > idx:
                        passed = c.args[idx]
            good = "keep_id" in f.params and isinstance(passed, ast.Name) and passed.id == "keep_id"
            # positional binding must hit keep_id in *every* possible callee
            if good and not any(k.arg == "keep_id" for k in c.keywords):
                pos = [i for i, a in enumerate(c.args) if a is passed][0]
                good = all(t.params.index("keep_id") - 1 == pos for t in targets)
            rep.check(good, "ID-1", "%s: %s" % (f.short, unparse(c)[:50]), "keep_id forwarded",
                      "%s calls %s without binding keep_id to its own keep_id (%s)" % (f.short, unparse(c)[:60],
                                                                                     unparse(passed) if passed is not None else "omitted"),
                      where(f, c), witness="clone(keep_id=True) of a tree: ids below this level are fresh")
    rep.floor("ID-1", n_fwd, 3, "keep_id taking clone calls inside clone functions")

    # ------------------------------------------------------------------- ID-2
    rep.rule("ID-2", "transitive write summary of BaseDocument.new_id, BaseSection.new_id and BaseProperty.new_id: the only visible write "
                     "is the store of _id on self")
    for cname in MODEL:
        f = prog.cls(cname).lookup_method("new_id")
        if f is None:
            raise AnalysisError("%s.new_id vanished" % cname)
        rep.saw_function(f)
        ws = S.visible_writes(f)
        if not ws:
            raise AnalysisError("%s.new_id has an empty write summary: effect analysis went blind" % cname)
        other = sorted(set("%s.%s" % (w.origin[0], w.field) for w in ws if not (w.origin == ("P0", "") and w.field == "_id")))
        rep.check(not other, "ID-2", "%s.new_id writes _id only" % cname, "%d write(s), all to self._id" % len(ws),
                  "%s.new_id also writes %s: clone() (which calls new_id on the copy) no longer returns an equal copy" % (cname, other), f.where,
                  witness="clone() of a Section that was created without a name: the copy has another name")

    from ..report import import_verdicts
    import_verdicts(prog, rep, "C05", ("RET-1",), "RET-1",
                    "clone() hands the stored values to the values setter of the copy, which converts every element with dtypes.get: a converter "
                    "that returns its argument makes copy and original share the inner lists of tuple values")

    eq1_rule(prog, rep)
    clone2_rule(prog, rep)
    direct_children_rule(prog, rep)

    # ----------------------------------------------------------------- LEAF-1
    rep.rule("LEAF-1", "Section.export_leaf: every clone call passes keep_id=True; the Section clones pass children=False; "
                       "Properties are appended as clones; Property.export_leaf delegates to the parent Section")
    el = prog.func("section.BaseSection.export_leaf")
    rep.saw_function(el)
    cl = effect_calls(prog, el, lambda c: isinstance(c.func, ast.Attribute) and c.func.attr == "clone")
    rep.floor("LEAF-1", len(cl), 2, "clone calls in export_leaf (helpers inlined)")
    for e in cl:
        c = e.call
        k = kw(c, "keep_id", None)
        rep.check(isinstance(k, ast.Constant) and k.value is True, "LEAF-1", "export_leaf: %s" % unparse(e.raw)[:50], "keep_id=True",
                  "export_leaf clones with %s: the exported chain does not carry the original ids" % unparse(e.raw)[:60], where(e.func, e.raw),
                  witness="export_leaf() ids differ from the document's")
    sec_cl = [e.call for e in cl if kw(e.call, "children", None) is not None]
    rep.check(any(isinstance(kw(c, "children", None), ast.Constant) and kw(c, "children", None).value is False for c in sec_cl),
              "LEAF-1", "export_leaf clones chain Sections without children", "children=False",
              "the chain Sections are cloned with their children: other sub-Sections are exported too", el.where)
    # every object appended while exporting is a clone (never an original child)
    apps = effect_calls(prog, el, lambda c: isinstance(c.func, ast.Attribute) and c.func.attr in ("append", "insert", "extend"))
    for e in apps:
        arg = e.call.args[-1] if e.call.args else None
        t = unparse(arg) if arg is not None else "?"
        is_clone = isinstance(arg, ast.Call) and isinstance(arg.func, ast.Attribute) and arg.func.attr == "clone"
        is_prev = isinstance(arg, ast.Name)      # the clone built in the previous iteration (state variable)
        rep.check(is_clone or is_prev, "LEAF-1", "export_leaf appends %s" % t[:40], "a clone",
                  "export_leaf appends `%s`, which is not a clone: the export shares objects with the document" % t[:60], where(e.func, e.raw),
                  witness="editing the exported tree edits the document")
    # the Properties of every Section on the chain are copied: the copying may depend only on whether the node has Properties at all
    for e in apps:
        arg = e.call.args[-1] if e.call.args else None
        if isinstance(arg, ast.Call) and isinstance(arg.func, ast.Attribute) and arg.func.attr == "clone" and ".properties" in unparse(arg) + "":
            extra = [t for t, pol in e.guards() if not re.match(r"^hasattr\(.+, 'properties'\)$", t)
                     and not (re.match(r"^\w+ is None$", t) and pol is False)]      # the chain loop runs while the node is not None
            rep.check(not extra, "LEAF-1", "export_leaf copies the Properties of every chain Section", "guarded by hasattr(<node>, 'properties') only",
                      "the Properties of a chain node are copied only under %s: some Sections on the chain lose their Properties" % extra,
                      where(e.func, e.raw), witness="export_leaf() from a tree whose root is a Section without Document: the root's Properties are missing")
    # the clone of the previous chain node is attached to every chain node but the first: telling the first node from its ancestors is a test
    # of the objects themselves; agreement of an attribute (id, name, type) is not identity - keep_id clones and explicit oids repeat ids on a chain
    for e in apps:
        arg = e.call.args[-1] if e.call.args else None
        if not isinstance(arg, ast.Name):
            continue
        proxy = []
        for t, pol in e.guards():
            try:
                ge = ast.parse(t, mode="eval").body
            except SyntaxError:
                continue
            if isinstance(ge, ast.Compare) and len(ge.ops) == 1 and isinstance(ge.ops[0], (ast.Eq, ast.NotEq, ast.Is, ast.IsNot)):
                l, r = ge.left, ge.comparators[0]
                if isinstance(l, ast.Attribute) and isinstance(r, ast.Attribute) and l.attr == r.attr and unparse(l.value) != unparse(r.value):
                    proxy.append(t)
        rep.check(not proxy, "LEAF-1", "export_leaf attaches the chain built so far to every ancestor", "the start node is told apart by the object itself",
                  "the clone of the previous chain node is attached only under %s: an ancestor that merely carries the same attribute value as the "
                  "start Section is taken for the start, and the chain below it is dropped" % proxy, where(e.func, e.raw),
                  witness="snap = sec.clone(keep_id=True); sec.append(snap); snap.export_leaf() ends at `sec`")
    pel = prog.func("property.BaseProperty.export_leaf")
    rep.check(any(unparse(c.func).endswith("parent.export_leaf") for c in calls_in(pel.node)), "LEAF-1",
              "Property.export_leaf delegates to the parent Section", "ok", "Property.export_leaf does not delegate to parent.export_leaf()", pel.where)
    # ... whenever there is a parent: the delegation depends on the parent alone (a Property in a tree without a Document is exported as well)
    for e in effect_calls(prog, pel, lambda c: isinstance(c.func, ast.Attribute) and c.func.attr == "export_leaf"):
        foreign = [t for t, pol in e.guards() if not re.search(r"(\.|^)_?parent( is None)?$", t)]
        rep.check(not foreign, "LEAF-1", "Property.export_leaf: the delegation depends on the parent only", str([t for t, _ in e.guards()]),
                  "Property.export_leaf hands over to its Section only under %s: where that is false the Property itself - not a copy - is returned"
                  % foreign, where(e.func, e.raw), witness="a Property in a Section tree without a Document: editing the export edits the original")

    # ---------------------------------------------------------------- ALIAS-3
    rep.rule("ALIAS-3", "the values getter returns a new list whose list elements (n-tuple values) are copied; "
                        "extend/append/insert/__setitem__ put only results of dtypes.get(...) into _values")
    vg = prog.cls("BaseProperty").lookup_prop("values", "getter")
    rep.saw_function(vg)
    rets = [n.value for n in walk_no_nested(vg.node) if isinstance(n, ast.Return)]
    good = len(rets) == 1 and _fresh_copy_of(vg, rets[0], "%s._values" % vg.params[0])
    deep = len(rets) == 1 and isinstance(rets[0], ast.Call) and canonical_name(prog, vg, rets[0].func) == "copy.deepcopy"
    rep.check(good or deep, "ALIAS-3", "values getter copies the list and inner lists", unparse(rets[0])[:70] if rets else "",
              "the values getter returns %s: the stored list (or the inner lists of n-tuple values) is shared with the caller"
              % (unparse(rets[0])[:70] if rets else "nothing"), vg.where, witness="p.values[0].append('z') on a 2-tuple Property changes p")
    # no other read accessor (the deprecated `value`, __getitem__ slices aside) hands out the stored list itself
    pc = prog.cls("BaseProperty")
    for pname in sorted(pc.props):
        gt = pc.lookup_prop(pname, "getter")
        if gt is None or gt is vg or not gt.params:
            continue
        for r0 in [n.value for n in walk_no_nested(gt.node) if isinstance(n, ast.Return) and n.value is not None]:
            rep.check(unparse(r0) != "%s._values" % gt.params[0], "ALIAS-3", "BaseProperty.%s does not hand out the stored list" % pname, unparse(r0)[:50],
                      "the getter of BaseProperty.%s returns self._values itself: the caller edits the Property's value list without conversion"
                      % pname, where(gt, r0), witness="p.%s.append('x') changes an int Property" % pname)
    for name in ("extend", "append", "insert", "__setitem__"):
        f = prog.cls("BaseProperty").lookup_method(name)
        rep.saw_function(f)
        for n in walk_no_nested(f.node):
            val = None
            if isinstance(n, ast.Call) and isinstance(n.func, ast.Attribute) and n.func.attr in ("extend", "append", "insert") \
                    and unparse(n.func.value) == "%s._values" % f.params[0]:
                val = n.args[-1]
            elif isinstance(n, ast.Assign) and isinstance(n.targets[0], ast.Subscript) \
                    and unparse(n.targets[0].value) == "%s._values" % f.params[0]:
                val = n.value
            if val is None:
                continue
            ok = _converted(val, f, prog)
            rep.check(ok, "ALIAS-3", "%s: stores %s" % (f.short, unparse(val)[:40]), "result of dtypes.get",
                      "%s puts %s into _values without converting it: the caller's object is stored" % (f.short, unparse(val)[:60]),
                      where(f, n), witness="p.%s(lst) then mutating lst changes p" % name)

    # ------------------------------------------------------------------ FWD-2
    rep.rule("FWD-2", "TemplateHandler.clone_section returns sec.clone(children=children, keep_id=keep_id)")
    cs = prog.func("templates.TemplateHandler.clone_section")
    rep.saw_function(cs)
    rets = [n.value for n in walk_no_nested(cs.node) if isinstance(n, ast.Return)]
    good = len(rets) == 1 and isinstance(rets[0], ast.Call) and isinstance(rets[0].func, ast.Attribute) and rets[0].func.attr == "clone" \
        and unparse(kw(rets[0], "children", 0) or ast.Constant(value=None)) == "children" \
        and unparse(kw(rets[0], "keep_id", 1) or ast.Constant(value=None)) == "keep_id"
    rep.check(good, "FWD-2", "clone_section forwards its flags", "ok", "clone_section does not forward children / keep_id to clone()", cs.where,
              witness="a template Section cloned with keep_id=True gets fresh ids")
    rep.note("_merged is copied by reference by clone() (it designates the original's merge target); it is not a container")
    rep.assume("copy.copy produces a new object sharing the field values; SmartList(...) creates an empty list")


def _copies_inner(elt, var):
    """the element expression copies list elements: list(v) / v[:] / copy.copy(v) / list(v) if isinstance(v, list) else v"""
    if isinstance(elt, ast.IfExp):
        return _copies_inner(elt.body, var) or _copies_inner(elt.orelse, var)
    if isinstance(elt, ast.Call) and unparse(elt.func) in ("list", "copy.copy", "copy.deepcopy", "copy", "deepcopy") and elt.args and unparse(elt.args[0]) == var:
        return True
    if isinstance(elt, ast.Subscript) and unparse(elt.value) == var and isinstance(elt.slice, ast.Slice):
        return True
    return False


def _fresh_copy_of(f, expr, source_text):
    """expr is a new list built element by element from <source_text> whose list elements are copied:
    [copy(v) for v in S]  or a local initialised [] and filled by append(copy(v)) in `for v in S`."""
    if isinstance(expr, ast.ListComp) and len(expr.generators) == 1 and unparse(expr.generators[0].iter) == source_text \
            and isinstance(expr.generators[0].target, ast.Name):
        return _copies_inner(expr.elt, expr.generators[0].target.id)
    if isinstance(expr, ast.Name):
        from ..astutil import local_assignments
        defs = local_assignments(f.node, expr.id)
        if len(defs) == 1 and not isinstance(defs[0], ast.AugAssign):
            if isinstance(defs[0], ast.ListComp):
                return _fresh_copy_of(f, defs[0], source_text)
            if isinstance(defs[0], ast.List) and not defs[0].elts:
                muts = [c for c in calls_in(f.node) if isinstance(c.func, ast.Attribute) and unparse(c.func.value) == expr.id]
                if not muts or any(c.func.attr != "append" for c in muts):
                    return False
                for c in muts:
                    ok = False
                    for loop in ast.walk(f.node):
                        if isinstance(loop, ast.For) and isinstance(loop.target, ast.Name) and unparse(loop.iter) == source_text \
                                and any(y is c for y in ast.walk(loop)) and _copies_inner(c.args[0], loop.target.id):
                            ok = True
                    if not ok:
                        return False
                return True
    return False


def _converted(val, f, prog=None):
    x = Expander(f)
    vx = x.expand(val)

    def is_get(c):
        return isinstance(c, ast.Call) and (canonical_name(prog, f, c.func) if prog is not None else call_name(c)) == "dtypes.get"
    if is_get(vx):
        return True
    if isinstance(vx, (ast.ListComp, ast.GeneratorExp)) and is_get(vx.elt):
        return True
    if isinstance(val, ast.Name):
        from ..astutil import local_assignments
        defs = local_assignments(f.node, val.id)
        return bool(defs) and all(not isinstance(d, ast.AugAssign) and (is_get(x.expand(d)) or (isinstance(x.expand(d), ast.ListComp) and is_get(x.expand(d).elt))) for d in defs)
    return False


def eq1_rule(prog, rep, rule="EQ-1"):
    """BaseObject.__eq__ leaves out the id only"""
    rep.rule(rule, "BaseObject.__eq__ (the comparison behind `copy == original` and `restored == document`) singles out no attribute name but "
                   "'id' / 'oid': every other string constant in it (collections of names it tests the key against included) would exempt "
                   "content from the comparison")
    f = prog.func("base.BaseObject.__eq__")
    rep.saw_function(f)
    from ..dataflow import private_closure
    names = []
    for h in private_closure(f):
        doc = ast.get_docstring(h.node, clean=False)
        for n in walk_no_nested(h.node):
            if isinstance(n, ast.Constant) and isinstance(n.value, str) and n.value != doc:
                names.append((h, n))
    extra = sorted(set(n.value for h, n in names if n.value not in ("id", "oid")))
    at = [x for x in names if x[1].value in extra]
    rep.check(not extra, rule, "BaseObject.__eq__ exempts the id only", "names singled out: %s" % sorted(set(n.value for h, n in names)),
              "BaseObject.__eq__ treats %s specially: objects that differ there compare equal" % extra,
              where(at[0][0], at[0][1]) if at else f.where,
              witness="two Sections that differ only in that attribute are == ; a restored / copied document is reported equal although it is not")


def direct_children_rule(prog, rep, rule="DIRECT-1"):
    """clone / contains work on the direct children, itervalues hands out copies"""
    rep.rule(rule, "Sectionable.clone / BaseSection.clone / BaseSection.contains / Sectionable.contains call none of the recursive traversals "
                   "(itersections, iterproperties, itervalues - `recursive=` is ignored and max_depth=1 includes the sub-Sections): a copy gets "
                   "exactly the children of the original, a counterpart is looked for among the own children; Sectionable.itervalues yields "
                   "`<prop>.values` (the copying getter), nothing else")
    n = 0
    for qn in ("base.Sectionable.clone", "section.BaseSection.clone", "section.BaseSection.contains", "base.Sectionable.contains"):
        try:
            f = prog.func(qn)
        except Exception:
            continue
        n += 1
        for fx in private_closure(f):
            bad = [c for c in calls_in(fx.node) if isinstance(c.func, ast.Attribute) and c.func.attr in ("itersections", "iterproperties", "itervalues")]
            rep.check(not bad, rule, "%s%s touches direct children only" % (f.short, "" if fx is f else " (via %s)" % fx.name), "ok",
                      "%s reaches its children through `%s`, a traversal of the whole subtree: grandchildren are treated as children"
                      % (f.short, unparse(bad[0])[:60] if bad else ""), where(fx, bad[0]) if bad else f.where,
                      witness="merge a branch two levels deep into a Section that lacks it: the grandchildren are appended a second time one level up")
    rep.floor(rule, n, 3, "clone / contains functions")
    iv = prog.func("base.Sectionable.itervalues")
    ys = [y for y in walk_no_nested(iv.node) if isinstance(y, ast.Yield) and y.value is not None]
    rep.floor(rule, len(ys), 1, "yield statements in itervalues")
    x = Expander(iv, only_locations=True)
    for y in ys:
        t = x.text(y.value)
        rep.check(bool(re.match(r"^(EACH\(.*\)|\w+)\.values$", t)), rule, "itervalues yields %s" % t[:40], "<prop>.values",
                  "itervalues yields `%s` instead of the copy made by the values getter: the inner lists of tuple values are the stored ones" % t[:60],
                  where(iv, y), witness="edit a tuple item in a list yielded by itervalues(): the Property changes")


def clone2_rule(prog, rep, rule="CLONE-2"):
    """clone() re-binds the containers and the parent pointer of the copy and nothing else"""
    rep.rule(rule, "in the clone functions of the model classes every store to an attribute of the copy goes to a container field (fresh child / "
                   "value list), to _parent, or through the values setter; the id changes only through new_id(). Any other attribute of the copy "
                   "is what copy.copy took from the original - storing something else there (an inherited repository made explicit, a reset "
                   "definition) makes the copy differ from its original, and unmerge(), which removes copies that are == their source, leaves it behind")
    n = 0
    done = set()
    allowed_all = set()
    for cname in MODEL:
        allowed_all |= set(container_fields(prog.cls(cname)))
    for cname in MODEL:
        cls = prog.cls(cname)
        allowed = set(allowed_all) | set(["_parent", "values", "_values"])
        for f in clone_chain(prog, cls):
            if f.qualname in done:
                continue
            done.add(f.qualname)
            rep.saw_function(f)
            copies = set()
            for st in walk_no_nested(f.node):
                if isinstance(st, ast.Assign) and len(st.targets) == 1 and isinstance(st.targets[0], ast.Name) and isinstance(st.value, ast.Call):
                    t = unparse(st.value.func)
                    if t.endswith(".clone") or t in ("copy.copy", "copy"):
                        copies.add(st.targets[0].id)
            for st in walk_no_nested(f.node):
                tgts = st.targets if isinstance(st, ast.Assign) else [st.target] if isinstance(st, (ast.AugAssign, ast.AnnAssign)) else []
                for t in tgts:
                    if isinstance(t, ast.Attribute) and isinstance(t.value, ast.Name) and t.value.id in copies:
                        n += 1
                        rep.check(t.attr in allowed, rule, "%s: %s.%s" % (f.short, t.value.id, t.attr), "container field / _parent / values",
                                  "%s stores `%s` into %s.%s: the copy no longer equals its original in that attribute"
                                  % (f.short, unparse(st.value)[:50] if getattr(st, "value", None) is not None else "?", t.value.id, t.attr), where(f, st),
                                  witness="finalize() then clean(): the copies of linked sub-Sections are not == their sources any more and stay in the document")
    rep.floor(rule, n, 3, "stores on the copy in the clone functions")
