"""C01 - XML save/load lossless, odML 1.1 vocabulary.

Decided: table agreement (format tables <-> model classes <-> odML 1.1 vocabulary),
provenance of every tag the XML writer emits, version stamp agreement between
writer and strict reader, None-guard (no truthiness drop), stylesheet variant only
inserts the template after the root tag, compute-before-open of XMLWriter.write_file,
reader loops do not carry state between sibling elements, cardinality text <-> parser
(shared with C09).
NOT decided: value encoding (CSV quoting, tuple export), dtype text round trip, lxml
escaping/whitespace, equality of documents.
"""
import ast
import re

from ..astutil import calls_in, call_name, where, truthiness_tests, kw
from ..cfg import build_cfg
from ..dataflow import private_closure
from ..logic import known
from ..symtext import Expander, effect_calls
from ..model import AnalysisError, unparse, walk_no_nested
from . import common_tables as ct
from .rules_order import compute_before_open
from .rules_loops import loop_carried_state
from .rules_card import cardinality_roundtrip

DECIDED = [
    "TAB-5 format table <-> model class API (readable + constructible)",
    "TAB-6 format tables == odML 1.1 element vocabulary, lower-case keys",
    "PROV-6 every element tag the XML writer creates comes from the format table; reader tests the same table",
    "VER-1 writer stamps and strict reader compares the same FORMAT_VERSION constant",
    "TRUTH-1 the writer skips an attribute only when it `is None`",
    "STYLE-1 stylesheet variants only insert the template after the constant root tag",
    "ORDER-1 XMLWriter.write_file renders before it opens the file",
    "LOOP-1 the reader does not carry parsed state from one sibling element to the next",
    "ORD-3 (XML half) parse_cardinality(str(c)) == c for every normal-form cardinality c",
    "ENC-1 the XML parser is built without an encoding override (the reader honours the encoding the file declares)",
    "ENUM-1 DType members render as their plain name under str() (the writer renders every attribute with str(val))",
    "ID-3 (C04 PROV-2) the constructors keep a given id as str(uuid.UUID(id)): the id that was saved is the id after loading",
    "GET-1 the getters the writer reads return the object's own state (no inherited value is written as if it were set)",
    "READ-1 (shared with C02) the XML reader only constructs: no finalize / merge / clean on what it read",
    "CSV-1 from_csv removes the list brackets only when to_csv's opening and closing bracket are both present",
    "RET-1 (shared with C05) the dtype converters return normal forms: what is written as text is what the reader converts back",
]
NOT_DECIDED = [
    "to_csv/from_csv and odml_tuple_export as inverse functions on arbitrary text",
    "str()/dtypes.get inverse per dtype",
    "lxml escaping and whitespace handling",
    "equality of the reloaded document (value level)",
]


def run(prog, rep):
    rep.decided = DECIDED
    rep.not_decided = NOT_DECIDED
    tabs, _ = ct.tab5_format_vs_class(prog, rep)
    ct.tab6_vocabulary(prog, rep, tabs)
    xml = prog.module_of("tools.xmlparser")
    writer = prog.cls("XMLWriter")
    reader = prog.cls("XMLReader")

    # ---------------------------------------------------------------- PROV-6
    rep.rule("PROV-6", "every E(tag, ...) element construction in the XML writer takes `tag` from "
                       "fmt.name or from the loop variable over fmt.arguments_keys (no literal tags); "
                       "the reader validates tags against the same table")
    se = prog.func("tools.xmlparser.XMLWriter.save_element")
    rep.saw_function(se)
    from ..dataflow import private_closure
    se_funcs = private_closure(se)
    fmt_of = dict((h.qualname, set()) for h in se_funcs)
    for h in se_funcs:
        for n in walk_no_nested(h.node):
            if isinstance(n, ast.Assign) and isinstance(n.value, ast.Call) and unparse(n.value.func).endswith(".format"):
                for t in n.targets:
                    if isinstance(t, ast.Name):
                        fmt_of[h.qualname].add(t.id)
    for h in se_funcs:
        for _ in range(2):
            for n in walk_no_nested(h.node):
                if isinstance(n, ast.Assign) and isinstance(n.value, ast.Name) and n.value.id in fmt_of[h.qualname]:
                    for t in n.targets:
                        if isinstance(t, ast.Name):
                            fmt_of[h.qualname].add(t.id)      # a second name for the format object
    # a helper that is handed the format object: its parameter is a format variable too
    for _ in range(2):
        for h in se_funcs:
            for c in calls_in(h.node):
                tgt = [x for x in se_funcs if x is not h and (unparse(c.func).split(".")[-1] == x.name)]
                for x in tgt:
                    off = 1 if (x.has_self and not (isinstance(c.func, ast.Attribute) and x.cls is not None and unparse(c.func.value) == x.cls.name)) else 0
                    if x.kind == "static" or not x.has_self:
                        off = 0
                    for k0, a in enumerate(c.args):
                        if isinstance(a, ast.Name) and a.id in fmt_of[h.qualname] and k0 + off < len(x.params):
                            fmt_of[x.qualname].add(x.params[k0 + off])
    e_calls = []
    key_of = dict((h.qualname, set()) for h in se_funcs)
    for h in se_funcs:
        for n in walk_no_nested(h.node):
            if isinstance(n, ast.For) and isinstance(n.target, ast.Name):
                it = unparse(n.iter)
                if any(it == "%s.arguments_keys" % v for v in fmt_of[h.qualname]):
                    key_of[h.qualname].add(n.target.id)
    # a helper that is handed the key of the table loop: its parameter is a key variable as well
    for _ in range(2):
        for h in se_funcs:
            for c in calls_in(h.node):
                for x in [x for x in se_funcs if x is not h and unparse(c.func).split(".")[-1] == x.name]:
                    off = 0 if (x.kind == "static" or not x.has_self) else 1
                    for k0, a in enumerate(c.args):
                        if isinstance(a, ast.Name) and a.id in key_of[h.qualname] and k0 + off < len(x.params):
                            key_of[x.qualname].add(x.params[k0 + off])
    for h in se_funcs:
        fmt_vars = fmt_of[h.qualname]
        key_vars = key_of[h.qualname]
        for c in calls_in(h.node):
            if call_name(c) in ("E", "ET.Element", "ET.SubElement"):
                e_calls.append((h, c, fmt_vars, key_vars))
    rep.floor("PROV-6", len(e_calls), 2, "element constructions in save_element")
    for h, c, fmt_vars, key_vars in e_calls:
        tag = c.args[0] if c.args else None
        txt = unparse(tag) if tag is not None else "<none>"
        good = (isinstance(tag, ast.Name) and tag.id in key_vars) or \
               any(txt == "%s.name" % v for v in fmt_vars)
        rep.check(good, "PROV-6", "save_element: E(%s, ...)" % txt, "tag taken from the format table",
                  "element tag %s is not taken from fmt.name / the arguments_keys loop variable" % txt,
                  where(h, c), witness="writer emits an element the reader's table does not know")
    # attribute names set on elements: only 'version'
    for h in se_funcs:
        for n in walk_no_nested(h.node):
            if isinstance(n, ast.Assign):
                for t in n.targets:
                    if isinstance(t, ast.Subscript) and unparse(t.value).endswith(".attrib"):
                        k = t.slice.value if isinstance(t.slice, ast.Constant) else None
                        rep.check(k == "version", "PROV-6", "save_element: XML attribute %r" % (k,),
                                  "only the version attribute is written",
                                  "writer sets XML attribute %s; the reader rejects every attribute but version" % unparse(t.slice),
                                  where(h, n))
    # reader side
    iva = prog.func("tools.xmlparser.XMLReader.is_valid_argument")
    pt = prog.func("tools.xmlparser.XMLReader.parse_tag")
    rep.saw_function(iva)
    rep.saw_function(pt)
    tests = [n for n in ast.walk(iva.node) if isinstance(n, ast.Compare)
             and any(isinstance(o, (ast.In, ast.NotIn)) for o in n.ops)
             and unparse(n.comparators[0]).endswith(".arguments_keys")]
    rep.check(bool(tests), "PROV-6", "reader is_valid_argument tests fmt.arguments_keys", "ok",
              "is_valid_argument no longer tests membership in the format's arguments_keys", iva.where)
    tests = [n for n in ast.walk(pt.node) if isinstance(n, ast.Compare)
             and any(isinstance(o, (ast.In, ast.NotIn)) for o in n.ops)
             and unparse(n.comparators[0]).endswith(".arguments_keys")]
    rep.check(bool(tests), "PROV-6", "reader parse_tag tests fmt.arguments_keys", "ok",
              "parse_tag no longer tests element names against the format's arguments_keys", pt.where)
    # reader dispatch table built from format.__all__ names
    init = prog.func("tools.xmlparser.XMLReader.__init__")
    txt = unparse(init.node)
    rep.check("ofmt.__all__" in txt and ".name" in txt, "PROV-6", "reader tag dispatch built from format.__all__",
              "ok", "XMLReader.tags is no longer derived from the format objects", init.where)
    for fname, tab in tabs.items():
        rep.check(reader.lookup_method("parse_" + tab["_name"]) is not None, "PROV-6",
                  "reader has parse_%s" % tab["_name"], "dispatch target exists",
                  "getattr(self, 'parse_' + tag) has no target for <%s>" % tab["_name"], "odml/tools/xmlparser.py XMLReader")
    # the reader lower-cases child tags and maps through fmt.map before create(**arguments)
    rep.check(any(isinstance(n, ast.Call) and unparse(n.func).endswith(".create") and n.keywords
                  and any(k.arg is None for k in n.keywords) for h in private_closure(pt) for n in ast.walk(h.node)),
              "PROV-6", "reader creates objects via fmt.create(**arguments)", "ok",
              "parse_tag no longer builds the object from the collected arguments", pt.where)
    map_stores = [n for h in private_closure(pt) for n in ast.walk(h.node) if isinstance(n, ast.Call)
                  and isinstance(n.func, ast.Attribute) and n.func.attr == "map" and len(n.args) == 1]
    rep.check(bool(map_stores), "PROV-6", "reader maps element names through fmt.map", "ok",
              "parse_tag no longer maps odML element names to constructor keywords via fmt.map", pt.where)

    # ----------------------------------------------------------------- VER-1
    rep.rule("VER-1", "the writer sets the root `version` attribute to the imported constant "
                      "info.FORMAT_VERSION under the Document test; the reader compares against the same constant")
    stamped = False
    for n in walk_no_nested(se.node):
        if isinstance(n, ast.Assign) and any(isinstance(t, ast.Subscript) and unparse(t.value).endswith(".attrib")
                                             and isinstance(t.slice, ast.Constant) and t.slice.value == "version"
                                             for t in n.targets):
            ok = ct.resolves_to_format_version(prog, xml, n.value)
            rep.check(ok, "VER-1", "writer version stamp", "cur.attrib['version'] = FORMAT_VERSION",
                      "the version attribute is set to %s, not to info.FORMAT_VERSION" % unparse(n.value), where(se, n),
                      witness="strict reader raises InvalidVersionException on the library's own output")
            stamped = True
    rep.check(stamped, "VER-1", "writer stamps a version", "ok", "save_element sets no version attribute", se.where)
    hv = prog.func("tools.xmlparser.XMLReader._handle_version")
    rep.saw_function(hv)
    cmp_ok = False
    hvx = Expander(hv, build_cfg(hv), only_locations=True)
    for hn in hvx.g.nodes:
        for r0 in hn.expr_roots():
            for n in ast.walk(r0):
                if isinstance(n, ast.Compare) and len(n.comparators) == 1 and isinstance(n.ops[0], (ast.NotEq, ast.Eq)):
                    for a0, b0 in ((n.left, n.comparators[0]), (n.comparators[0], n.left)):
                        # the attribute may have been read into a local first
                        if "version" in hvx.text(a0, hn) and ct.resolves_to_format_version(prog, xml, b0):
                            cmp_ok = True
    rep.check(cmp_ok, "VER-1", "reader compares root version with FORMAT_VERSION", "ok",
              "_handle_version no longer compares the version attribute with info.FORMAT_VERSION", hv.where)
    raises = [unparse(n.exc.func) for n in ast.walk(hv.node) if isinstance(n, ast.Raise) and isinstance(n.exc, ast.Call)]
    rep.check(set(raises) <= {"ParserException", "InvalidVersionException"} and "InvalidVersionException" in raises,
              "VER-1", "_handle_version raises only parser exceptions", str(sorted(set(raises))),
              "_handle_version raises %s" % sorted(set(raises)), hv.where)

    # --------------------------------------------------------------- TRUTH-1
    rep.rule("TRUTH-1", "in XMLWriter.save_element the only guards that skip an attribute value are "
                        "`hasattr` and `val is None`; a truthiness test would drop set-but-falsy values "
                        "(uncertainty 0, empty value list)")
    n_vals = 0
    n_guards = 0
    none_guard = []
    for h in se_funcs:
        g = build_cfg(h)
        val_vars = set()
        for n in walk_no_nested(h.node):
            if isinstance(n, ast.Assign) and isinstance(n.value, ast.Call) and call_name(n.value) == "getattr":
                for t in n.targets:
                    if isinstance(t, ast.Name):
                        val_vars.add(t.id)
        n_vals += len(val_vars)
        for node in g.nodes:
            if node.kind != "branch":
                continue
            for txt, pol, e in truthiness_tests(node.ast.test):
                if isinstance(e, ast.Name) and e.id in val_vars:
                    # truthiness of the value decides: allowed only when the falsy side does
                    # not skip emission, i.e. the test merely selects *how* to emit.
                    skips = _skips_emission(g, node, pol)
                    n_guards += 1
                    rep.check(not skips, "TRUTH-1", "save_element: truthiness test on %s" % txt,
                              "selects the encoding only; the value is still written",
                              "attribute value is dropped when falsy (`%s`)" % unparse(node.ast.test), where(h, node.ast),
                              witness="uncertainty = 0 / values = [] missing after save and load")
        none_guard += [n for n in g.nodes if n.kind == "branch" and isinstance(n.ast.test, ast.Compare)
                       and isinstance(n.ast.test.ops[0], ast.Is) and isinstance(n.ast.test.left, ast.Name)
                       and n.ast.test.left.id in val_vars]
    rep.floor("TRUTH-1", n_vals, 1, "getattr value variables in save_element")
    rep.check(bool(none_guard), "TRUTH-1", "save_element skips unset values by `is None`", "ok",
              "no `val is None` guard found", se.where)

    # --------------------------------------------------------------- STYLE-1
    rep.rule("STYLE-1", "XMLWriter.write_file changes the rendered data only by str.replace of the constant "
                        "root start tag with root tag + template; the replaced pattern and the replacement "
                        "both start with '<odML version=\"<FORMAT_VERSION>\">'")
    wf = prog.func("tools.xmlparser.XMLWriter.write_file")
    rep.saw_function(wf)
    data_defs = [n for n in walk_no_nested(wf.node) if isinstance(n, ast.Assign)
                 and any(isinstance(t, ast.Name) and t.id == "data" for t in n.targets)]
    rep.floor("STYLE-1", len(data_defs), 1, "definitions of data in write_file")
    wx = Expander(wf, inline=prog, expand_names=False)
    for d in data_defs:
        v = wx.expand(d.value)
        if isinstance(v, ast.Call) and call_name(v) == "str" and len(v.args) == 1 and unparse(v.args[0]) == wf.params[0]:
            rep.ok("STYLE-1", "write_file: data = str(self)", "rendered document", where(wf, d))
            continue
        ok = (isinstance(v, ast.Call) and isinstance(v.func, ast.Attribute) and v.func.attr == "replace"
              and unparse(v.func.value) == "data" and len(v.args) == 2)
        if ok:
            pat, repl = v.args
            ok = _root_tag_expr(prog, xml, wf, pat, exact=True) and _root_tag_expr(prog, xml, wf, repl, exact=False)
        rep.check(ok, "STYLE-1", "write_file: data = %s" % unparse(v)[:60], "replace(root tag, root tag + template)",
                  "the rendered document is transformed by something other than inserting the template "
                  "after the root tag: %s" % unparse(v)[:120], where(wf, d),
                  witness="document text containing the transformed pattern (e.g. '%') is altered or the save fails")

    # --------------------------------------------------------------- ORDER-1
    compute_before_open(prog, rep, [wf], "ORDER-1")

    from ..report import import_verdicts
    import_verdicts(prog, rep, "C04", ("PROV-2",), "ID-3",
                    "the readers hand the stored id to the constructors: the only transformation on the way is the canonical spelling of the same UUID")
    ct.own_state_getters(prog, rep, "GET-1")
    # ---------------------------------------------------------------- READ-1
    from .c02 import reader_constructs_only
    reader_constructs_only(prog, rep, [m for _, m in sorted(reader.methods.items())], "READ-1")

    # ----------------------------------------------------------------- ENC-1
    rep.rule("ENC-1", "every ET.XMLParser(...) construction in tools.xmlparser has no encoding= argument: lxml then decodes the text with the "
                      "encoding declared by the document itself")
    from .c16 import xml_parser_options
    xml_parser_options(prog, rep, "ENC-1", ("encoding",))

    # ---------------------------------------------------------------- ENUM-1
    rep.rule("ENUM-1", "dtypes.DType mixes in str and defines __str__ returning self.name (or self.value, which equals the name for every "
                       "member): XMLWriter.save_element renders the dtype with str(val), and since Python 3.11 a mixed-in Enum without "
                       "__str__ renders as 'DType.int'")
    dt = prog.cls("DType")
    if dt is None:
        raise AnalysisError("dtypes.DType vanished")
    sm = dt.methods.get("__str__")
    bases = [unparse(b).split(".")[-1] for b in dt.node.bases]
    good = "StrEnum" in bases          # enum.StrEnum renders as the value by definition
    detail = "DType(%s) defines no __str__" % ", ".join(bases)
    if sm is not None:
        rep.saw_function(sm)
        rets = [n for n in walk_no_nested(sm.node) if isinstance(n, ast.Return) and n.value is not None]
        texts = [unparse(n.value) for n in rets]
        me0 = sm.params[0]
        good = good or bool(rets) and all(t in ("%s.name" % me0, "%s.value" % me0, "str(%s.value)" % me0, "str(%s.name)" % me0) for t in texts)
        detail = "returns %s" % texts
    rep.check(good, "ENUM-1", "DType.__str__ returns the member name", detail,
              "DType.__str__ %s: str(DType.int) is no longer 'int', and the XML writer stores what str() gives" % detail,
              sm.where if sm is not None else "odml/dtypes.py",
              witness="Property(dtype=odml.DType.int) saved as XML has <type>DType.int</type> and reloads as a string Property")

    # ---------------------------------------------------------------- LOOP-1
    loop_carried_state(prog, rep, [pt], "LOOP-1")
    from ..report import import_verdicts
    import_verdicts(prog, rep, "C07", ("DOM-5",), "GATE-1",
                    "`a document that cannot be represented makes the writer raise`: the refusal of documents with validation errors sits in "
                    "ODMLWriter.write_file and has to look at every error of the validation (validation.errors), not at the errors of one object")
    ct.stateless_tools_rule(prog, rep, "STATE-2", ("XMLWriter", "XMLReader"))
    csv_options_rule(prog, rep, "CSV-2")

    # ----------------------------------------------------------------- ORD-3
    cardinality_roundtrip(prog, rep, which=("xml",))

    # ----------------------------------------------------------------- RET-1 (shared with C05)
    from .c05 import ret1_rule
    ret1_rule(prog, rep)

    # ------------------------------------------------------------------ CSV-1
    rep.rule("CSV-1", "to_csv wraps a multi valued list in an opening and a closing bracket; from_csv strips the first and the last "
                      "character only on paths that know the text starts with that opening AND ends with that closing bracket "
                      "(a single text value that merely starts with '[' must be returned unchanged)")
    tc = xml.functions.get("to_csv")
    fc = xml.functions.get("from_csv")
    if tc is None or fc is None:
        raise AnalysisError("xmlparser.to_csv / from_csv vanished")
    rep.saw_function(tc)
    rep.saw_function(fc)
    brackets = []
    for n in ast.walk(tc.node):
        if isinstance(n, ast.Constant) and isinstance(n.value, str):
            v = n.value
            if len(v) == 1 and v in "[](){}<>":
                brackets.append(v)
            m = re.match(r"^([\[({<])%s([\])}>])$", v) or re.match(r"^([\[({<])\{\}([\])}>])$", v)
            if m:
                brackets += [m.group(1), m.group(2)]
    rep.check(len(brackets) == 2, "CSV-1", "to_csv wraps lists in one bracket pair", str(brackets), "to_csv wraps with %s" % brackets, tc.where)
    if len(brackets) == 2 and len([b for b in brackets if b in "[({<"]) == 1:
        op = [b for b in brackets if b in "[({<"][0]
        cl = [b for b in brackets if b not in "[({<"][0]
        fg = build_cfg(fc)
        fx = Expander(fc, fg, only_locations=True)
        par = fc.params[0]
        strips = [n for n in fg.nodes if n.kind == "stmt" and isinstance(n.ast, ast.Assign) and isinstance(n.ast.value, ast.Subscript)
                  and isinstance(n.ast.value.slice, ast.Slice) and unparse(n.ast.value.slice) == "1:-1"]
        rep.floor("CSV-1", len(strips), 1, "bracket stripping statements in from_csv")

        def clc(leaf, br, fx=fx, par=par, op=op, cl=cl):
            t = fx.text(leaf, br)
            if t in ("%s[0] == %r" % (par, op), "%s.startswith(%r)" % (par, op)):
                return "FIRST"
            if t in ("%s[-1] == %r" % (par, cl), "%s.endswith(%r)" % (par, cl)):
                return "LAST"
            return None
        for n in strips:
            fxx = Expander(fc, fg)
            xt = lambda t0, br0: fxx.expand(t0, br0)      # a test kept in a local (`is_list = a and b; if not is_list`) is the test itself
            good = known(fg, n, clc, lambda a0: a0["FIRST"], ["FIRST"], with_node=True, expand_test=xt) and \
                known(fg, n, clc, lambda a0: a0["LAST"], ["LAST"], with_node=True, expand_test=xt)
            rep.check(good, "CSV-1", "from_csv strips brackets only from a bracketed list", "first == %r and last == %r" % (op, cl),
                      "from_csv strips the first and last character on a path that does not know the text starts with %r and ends with %r" % (op, cl),
                      where(fc, n.ast), witness="a single text value like '[sic] as noted' loses characters / is split at commas after save and load")

    # informational: strict/lenient entry points exist
    for name in ("from_string", "from_file"):
        f = prog.func("tools.xmlparser.XMLReader." + name)
        rep.saw_function(f)
        tail = lambda c: call_name(c).split(".")[-1]        # method, static method or module function
        effs = effect_calls(prog, f, lambda c: tail(c) in ("_handle_version", "parse_element"))
        hv0 = [e for e in effs if tail(e.raw) == "_handle_version"]
        pe0 = [e for e in effs if tail(e.raw) == "parse_element"]
        fg = effs[0].x.g if effs and effs[0].func is f else build_cfg(f)

        def before(a0, b0):
            """a0 completes before b0 starts: in the caller, or - both inside one inlined helper - in that helper"""
            if a0.node.id != b0.node.id:
                return fg.dominates(a0.node, b0.node)
            return a0.func is b0.func and a0.func is not f and a0.x.g.dominates(a0.inner, b0.inner) and a0.inner.id != b0.inner.id
        ordered = bool(hv0) and bool(pe0) and all(before(hv0[0], e) for e in pe0)
        rep.check(ordered, "VER-1",
                  "XMLReader.%s checks the version before parsing" % name, "ok",
                  "%s does not call _handle_version and parse_element" % name, f.where)
    rep.assume("lxml's builder E(tag, text) escapes XML metacharacters and ET.tounicode serialises faithfully")
    rep.assume("the odML 1.1 vocabulary table in odmlsa/tables.py transcribes the format specification")


def _skips_emission(g, branch, pol):
    """does the falsy side of the truthiness test reach the loop header / exit without
    passing an element construction?  (pol True: falsy side is the 'false' edge)"""
    side = "false" if pol else "true"
    starts = branch.out(side)
    seen = set()
    stack = list(starts)
    while stack:
        n = stack.pop()
        if n.id in seen:
            continue
        seen.add(n.id)
        if n.kind in ("stmt", "return") and any(call_name(c) in ("E",) or call_name(c).endswith("save_element")
                                                for r in n.expr_roots() for c in calls_in(r)):
            continue   # this way emits
        if n.kind in ("for", "exit"):
            return True
        for k, m in n.succ:
            if k != "exc":
                stack.append(m)
    return False


def _root_tag_expr(prog, mod, func, expr, exact):
    """does expr denote the text '<odML version="' + FORMAT_VERSION + '">' (exact), or a text that starts with it?"""
    from ..astutil import template_parts
    parts = template_parts(func, expr)
    if not parts or len(parts) < 3:
        return False
    (k0, v0), (k1, v1), (k2, v2) = parts[:3]
    if not (k0 == "lit" and v0 == '<odML version="' and k1 == "hole" and k2 == "lit" and v2.startswith('">')):
        return False
    if exact and not (len(parts) == 3 and v2 == '">'):
        return False
    return ct.resolves_to_format_version(prog, mod, v1)


def csv_options_rule(prog, rep, rule="CSV-2"):
    """writer and reader of the value lists use one csv dialect and nothing else"""
    from ..model import canonical_name
    rep.rule(rule, "every csv.writer / csv.reader in odml/tools/xmlparser.py is built with the same `dialect` and with no other formatting "
                   "parameter: a parameter given on one side only (lineterminator, quoting, escapechar, delimiter, quotechar) changes what the "
                   "writer quotes or what the reader splits, and a value list no longer reads back as written")
    mod = prog.module_of("tools.xmlparser")
    sites = []
    for f in list(mod.functions.values()) + [m for c in mod.classes.values() for m in c.methods.values()]:
        for c in calls_in(f.node):
            cn = canonical_name(prog, f, c.func)
            if cn in ("csv.writer", "csv.reader", "csv.DictReader", "csv.DictWriter"):
                sites.append((f, c, cn))
    rep.floor(rule, len(sites), 2, "csv reader / writer constructions")
    dialects = set()
    for f, c, cn in sites:
        kws = dict((k.arg, k.value) for k in c.keywords if k.arg)
        star = [k for k in c.keywords if k.arg is None]
        d = kws.get("dialect") or (c.args[1] if len(c.args) > 1 else None)
        dialects.add(unparse(d) if d is not None else "<default>")
        extra = sorted(k for k in kws if k != "dialect")
        rep.check(not extra and not star, rule, "%s: %s(...) without formatting overrides" % (f.short, cn), "dialect only",
                  "%s builds %s with %s: writer and reader no longer use the same csv conventions" % (f.short, cn, extra or "**options"), where(f, c),
                  witness="a multi-valued text Property whose second value contains a line break: the values after it are lost on load")
    rep.check(len(dialects) == 1, rule, "one csv dialect on both sides", str(sorted(dialects)), "reader and writer use different dialects: %s" % sorted(dialects), mod.path)
