"""C14 - paths address exactly one object and traversals enumerate exactly the tree.

Decided (discipline clauses only): the traversal of itersections is a FIFO work list (breadth first) in which every
dequeued Section is yielded at most once under the filter / yield_self test and has its children enqueued exactly once
with level + 1 under the depth test; the seeds of the work list are the start Section at level 0 or the Document's
children at level 1; iterproperties / itervalues are derived from it with the depth forwarded and yield each element
of the visited child lists once under the filter; path builders and path parsers use the same separators and descend
through the node's own child list / parent; find inspects the own children only and find_related returns an object only
inside the block of the relation flag that was requested, and recurses without the sibling and parent relations.
NOT decided: the string arithmetic of relative paths (posixpath on names that are prefixes of one another), that a
name matches exactly one child (needs C04), _matches' comparison of values.
"""
import ast
import re

from ..astutil import calls_in, call_name, where
from ..cfg import build_cfg
from ..dataflow import def_value, reaching_defs
from ..logic import known, entails, reach_avoiding
from ..model import AnalysisError, unparse, walk_no_nested
from ..symtext import Expander, strip_order_keeping, effect_calls, canon_text

DECIDED = [
    "TRAV-1 itersections consumes its work list at one end and fills it at the other (FIFO = breadth first); the only loop exit is the empty list",
    "TRAV-2 each dequeued (section, level) is yielded only under filter_func(section) and (level != 0 or yield_self), and its children are enqueued by exactly one statement as (child, level + 1) under (max_depth is None or level < max_depth)",
    "TRAV-3 the work list is seeded with (self, 0) or with (child, 1) for the children of a Document under (max_depth is None or max_depth > 0)",
    "TRAV-4 iterproperties iterates itersections(max_depth=<its max_depth>, yield_self=True) and yields every element of <section>.properties under the filter; itervalues does the same over iterproperties with <property>.values",
    "PATH-1 Section paths are built and parsed with the same separator, Property paths with the same property separator",
    "PATH-2 path lookup descends through the node's own sections (first matching child, ValueError if none), '..' is the parent, '.' the node itself; absolute paths restart at the document",
    "FIND-1 find() inspects self's own child sections only and returns the first match (all matches with findAll)",
    "FIND-2 find_related returns / collects an object only inside the block of its relation flag (children, siblings, parents) and recurses with siblings=False, parents=False",
    'FIND-4 find_related: the parent walk repeats only on paths that know `recursive`',
    "TRAV-4 converse: iterproperties / itervalues drop an element only when the caller's filter rejects it",
    'UNIQ-I / TREE-I (imported from C04 DOM-3, DOM-4 and C03 PAIR-1, DOM-1, OWN-1) sibling names are unique at every attach site and rename; every function that lists a child keeps the parent pointers consistent',
]
NOT_DECIDED = ["relative path arithmetic (_get_relative_path: posixpath.commonprefix/relpath/normpath on name strings)",
               "uniqueness of the child a name denotes (C04)", "value comparisons inside _matches"]

FRONT, BACK = "front", "back"


def _end_of_consume(c):
    m = c.func.attr
    if m == "popleft":
        return FRONT
    if m == "pop":
        if not c.args:
            return BACK
        a = c.args[0]
        if isinstance(a, ast.Constant) and a.value == 0:
            return FRONT
        if isinstance(a, ast.UnaryOp) and isinstance(a.op, ast.USub) and isinstance(a.operand, ast.Constant) and a.operand.value == 1:
            return BACK
        return "?"
    return None


def _end_of_produce(c):
    m = c.func.attr
    if m in ("append", "extend"):
        return BACK
    if m in ("appendleft", "extendleft"):
        return FRONT
    if m == "insert" and c.args and isinstance(c.args[0], ast.Constant) and c.args[0].value == 0:
        return FRONT
    if m == "insert":
        return "?"
    return None


def run(prog, rep):
    rep.decided = DECIDED
    rep.not_decided = NOT_DECIDED
    S = prog.cls("Sectionable")

    # ------------------------------------------------------------------ TRAV-1..3
    f = S.lookup_method("itersections")
    if f is None:
        raise AnalysisError("Sectionable.itersections vanished")
    rep.saw_function(f)
    g = build_cfg(f)
    x = Expander(f, g)
    me = f.params[0]
    rep.rule("TRAV-1", "itersections: the local list that is both consumed (pop/popleft) and filled (append/extend/insert) inside one loop is "
                       "the work list; all consumptions take from one end, all productions add at the other end, none uses a computed "
                       "position; nothing sorts, reverses or de-duplicates it; the loop has no break/return")
    cons, prod = {}, {}
    for node in g.nodes:
        for r in node.expr_roots():
            for c in calls_in(r):
                if isinstance(c.func, ast.Attribute) and isinstance(c.func.value, ast.Name):
                    w = c.func.value.id
                    e1, e2 = _end_of_consume(c), _end_of_produce(c)
                    if e1 is not None:
                        cons.setdefault(w, []).append((node, c, e1))
                    if e2 is not None:
                        prod.setdefault(w, []).append((node, c, e2))
        if node.kind == "stmt" and isinstance(node.ast, ast.AugAssign) and isinstance(node.ast.target, ast.Name) and isinstance(node.ast.op, ast.Add):
            prod.setdefault(node.ast.target.id, []).append((node, node.ast, BACK))
    lists = [w for w in cons if w in prod]
    rep.check(len(lists) == 1, "TRAV-1", "itersections has one work list", str(lists), "expected exactly one work list in itersections, found %s" % lists, f.where)
    if len(lists) != 1:
        return
    W = lists[0]
    ce = set(e for _, _, e in cons[W])
    pe = set(e for _, _, e in prod[W])
    fifo = len(ce) == 1 and len(pe) == 1 and "?" not in ce | pe and ce != pe
    rep.check(fifo, "TRAV-1", "work list `%s` is a queue" % W, "consumed at the %s, filled at the %s" % ("/".join(sorted(ce)), "/".join(sorted(pe))),
              "the work list is consumed at the %s and filled at the %s: the traversal is not breadth first" % ("/".join(sorted(ce)), "/".join(sorted(pe))),
              where(f, cons[W][0][1]), witness="a tree with two levels and two siblings per level is enumerated depth first")
    bad = [c for node in g.nodes for r in node.expr_roots() for c in calls_in(r)
           if (isinstance(c.func, ast.Attribute) and isinstance(c.func.value, ast.Name) and c.func.value.id == W
               and c.func.attr in ("sort", "reverse", "remove", "clear")) or
           (call_name(c) in ("sorted", "reversed", "set") and any(isinstance(y, ast.Name) and y.id == W for y in ast.walk(c)))]
    rep.check(not bad, "TRAV-1", "work list order is never changed", "ok", "the work list is re-ordered / pruned by %s" % [unparse(c)[:40] for c in bad], f.where)
    rep.check(len(cons[W]) == 1, "TRAV-1", "one dequeue per iteration", "ok", "the work list is consumed at %d places" % len(cons[W]), f.where)
    deq_node, deq_call, _ = cons[W][0]
    deq = unparse(deq_call)
    loops = [n for n in ast.walk(f.node) if isinstance(n, ast.While) and any(y is deq_call for y in ast.walk(n))]
    esc = [y for lp in loops for y in ast.walk(lp) if isinstance(y, (ast.Break, ast.Return))]
    rep.check(len(loops) == 1 and not esc, "TRAV-1", "the traversal loop runs until the work list is empty", "no break/return",
              "the traversal loop can stop early (%s)" % [type(y).__name__ for y in esc], f.where, witness="sections after the first hit are never visited")

    rep.rule("TRAV-2", "with D = the dequeued pair: every yield in the loop yields D[0] and every path to it knows filter_func(D[0]) and "
                       "(D[1] != 0 or yield_self); exactly one production in the loop, its argument is (EACH(D[0].sections), D[1] + 1) and every "
                       "path to it from the dequeue knows (max_depth is None or D[1] < max_depth)")
    sec_t, lvl_t = "%s[0]" % deq, "%s[1]" % deq
    maxd = "max_depth" if "max_depth" in f.params else None
    filt = "filter_func" if "filter_func" in f.params else None
    ys = "yield_self" if "yield_self" in f.params else None
    if not (maxd and filt and ys):
        raise AnalysisError("itersections lost one of its parameters max_depth / filter_func / yield_self")

    def cl(leaf, br):
        t = x.text(leaf, br)
        if t == "%s(%s)" % (filt, sec_t):
            return "FILTER"
        if t == ys:
            return "YSELF"
        if t == "%s == 0" % lvl_t:
            return "LVL0"
        if t == "%s is None" % maxd:
            return "NOLIMIT"
        if t == "%s < %s" % (lvl_t, maxd):
            return "BELOW"
        if t == "%s > %s" % (maxd, lvl_t):
            return "BELOW"
        if t == "%s > 0" % maxd or t == "0 < %s" % maxd:
            return "POSLIMIT"
        return None
    in_loop = lambda n: n.id != deq_node.id and g.dominates(deq_node, n)
    yields = [n for n in g.nodes if n.kind == "stmt" and isinstance(n.ast, ast.Expr) and isinstance(n.ast.value, ast.Yield)]
    rep.floor("TRAV-2", len(yields), 1, "yield statements in itersections")
    for n in yields:
        v = n.ast.value.value
        ok_v = v is not None and in_loop(n) and x.text(v, n) == sec_t
        rep.check(ok_v, "TRAV-2", "itersections yields the dequeued section", x.text(v, n) if v is not None else "None",
                  "itersections yields `%s`, not the dequeued section" % (x.text(v, n) if v is not None else None), where(f, n.ast))
        good = known(g, n, cl, lambda a: a["FILTER"], ["FILTER"], with_node=True) and \
            known(g, n, cl, lambda a: not a["LVL0"] or a["YSELF"], ["LVL0", "YSELF"], with_node=True)
        rep.check(good, "TRAV-2", "yield only under the filter and the yield_self rule", "filter_func(sec) and (level != 0 or yield_self)",
                  "a section can be yielded although the filter rejects it, or the start section although yield_self is off", where(f, n.ast),
                  witness="sec.itersections(yield_self=False) yields sec / a filtered section")
    inner = [(n, c) for n, c, e in prod[W] if in_loop(n)]
    rep.check(len(inner) == 1, "TRAV-2", "children are enqueued by exactly one statement", "ok",
              "the loop enqueues at %d places: children can be visited twice or never" % len(inner), f.where)
    for n, c in inner:
        t = _produced(c, x, n)
        want = "(EACH(%s.sections), %s + 1)" % (sec_t, lvl_t)
        alt = "(EACH(%s._sections), %s + 1)" % (sec_t, lvl_t)
        rep.check(t in (want, alt), "TRAV-2", "enqueue (child, level + 1) for the children of the dequeued section", t,
                  "the loop enqueues `%s`, expected the children of the dequeued section with level + 1" % t, where(f, n.ast),
                  witness="max_depth counts wrongly / children of another node are visited")
        good = known(g, n, cl, lambda a: a["NOLIMIT"] or a["BELOW"], ["NOLIMIT", "BELOW"], with_node=True, start=deq_node)
        rep.check(good, "TRAV-2", "children enqueued only below max_depth", "max_depth is None or level < max_depth",
                  "children are enqueued on a path that does not know (max_depth is None or level < max_depth)", where(f, n.ast),
                  witness="itersections(max_depth=1) returns grandchildren")
        # converse: an iteration that does not reach the enqueue loop knows that the depth test failed
        fors = [m for m in g.nodes if m.kind == "for" and g.dominates(m, n) and in_loop(m)]
        heads = [m for m in g.nodes if m.kind == "branch" and isinstance(m.ast, ast.While) and g.dominates(m, deq_node)]
        if fors and heads:
            F, H = fors[-1], heads[-1]

            def edge_ok(src, kind, dst, F=F):
                if dst.id == F.id:
                    return True
                return src.kind == "branch" and kind in ("true", "false") and \
                    entails(src.ast.test, kind == "true", lambda lf, src=src: cl(lf, src), lambda a: not (a["NOLIMIT"] or a["BELOW"]), ["NOLIMIT", "BELOW"])
            skipped = reach_avoiding(g, deq_node, H, edge_ok, skip_kinds=("exc",))
            rep.check(not skipped, "TRAV-2", "children are enqueued whenever the depth allows", "every iteration that skips them knows the depth test failed",
                      "an iteration can skip the children of the dequeued section although (max_depth is None or level < max_depth) may hold",
                      where(f, n.ast), witness="children of a filtered / not yielded section are never visited")

    rep.rule("TRAV-3", "productions outside the loop: (self, 0), or (EACH(self.sections), 1) on paths that know (max_depth is None or max_depth > 0)")
    seeds = [(n, c) for n, c, e in prod[W] if not in_loop(n)]
    rep.floor("TRAV-3", len(seeds), 1, "seeds of the work list")
    for n, c in seeds:
        t = _produced(c, x, n)
        if t == "(%s, 0)" % me:
            rep.ok("TRAV-3", "seed (self, 0)", t, where(f, n.ast))
        elif t in ("(EACH(%s.sections), 1)" % me, "(EACH(%s._sections), 1)" % me):
            good = known(g, n, cl, lambda a: a["NOLIMIT"] or a["POSLIMIT"], ["NOLIMIT", "POSLIMIT"], with_node=True)
            rep.check(good, "TRAV-3", "Document children seeded at level 1 only when the depth allows", "max_depth is None or max_depth > 0",
                      "the Document's children are seeded although max_depth may be 0", where(f, n.ast), witness="doc.itersections(max_depth=0) yields sections")
        else:
            rep.fail("TRAV-3", "itersections|seed", "the work list is seeded with `%s`" % t, where(f, n.ast), witness="traversal starts at the wrong node or level")

    # ------------------------------------------------------------------ TRAV-4
    rep.rule("TRAV-4", "iterproperties: one loop over <self>.itersections(max_depth=<max_depth>, yield_self=True) (a list() around it is order "
                       "keeping), inside it one loop over <section>.properties whose element is yielded exactly under filter_func(element); "
                       "itervalues: one loop over <self>.iterproperties(max_depth=<max_depth>) yielding <property>.values under filter_func of it")
    ip = S.lookup_method("iterproperties")
    iv = S.lookup_method("itervalues")
    for fn, src, elem_attr in ((ip, "itersections", "properties"), (iv, "iterproperties", None)):
        if fn is None:
            raise AnalysisError("Sectionable.%s vanished" % ("iterproperties" if src == "itersections" else "itervalues"))
        rep.saw_function(fn)
        gg = build_cfg(fn)
        xx = Expander(fn, gg)
        m0 = fn.params[0]
        def iter_source(n, gg=gg):
            # the iterable, read through a local that was bound to it just before (`owners = list(self.itersections(...)); for o in owners`)
            it = strip_order_keeping(n.ast.iter)[0]
            if isinstance(it, ast.Name):
                ds = [d for d in reaching_defs(gg, n, it.id) if d.id != n.id]
                if len(ds) == 1 and ds[0].kind != "entry" and def_value(ds[0], it.id) is not None:
                    it = strip_order_keeping(def_value(ds[0], it.id))[0]
            return it
        outer = [n for n in gg.nodes if n.kind == "for" and isinstance(iter_source(n), ast.Call)
                 and unparse(iter_source(n).func) == "%s.%s" % (m0, src)]
        rep.check(len(outer) == 1, "TRAV-4", "%s is driven by %s" % (fn.name, src), "ok", "%s does not loop over self.%s(...)" % (fn.name, src), fn.where)
        if len(outer) != 1:
            continue
        call = iter_source(outer[0])
        kws = dict((k.arg, unparse(k.value)) for k in call.keywords if k.arg)
        pos = [unparse(a) for a in call.args]
        callee = S.lookup_method(src)
        cparams = callee.params[1:]
        for i, a in enumerate(pos):
            if i < len(cparams):
                kws.setdefault(cparams[i], a)
        rep.check(kws.get("max_depth") == "max_depth" and "max_depth" in fn.params, "TRAV-4", "%s forwards max_depth" % fn.name, str(kws),
                  "%s calls %s with max_depth=%s: the depth limit is lost or altered" % (fn.name, src, kws.get("max_depth")), where(fn, call),
                  witness="%s(max_depth=0) reaches deeper levels" % fn.name)
        if src == "itersections":
            rep.check(kws.get("yield_self") == "True", "TRAV-4", "iterproperties includes the start section", str(kws),
                      "iterproperties calls itersections with yield_self=%s: the start Section's own Properties are skipped" % kws.get("yield_self"), where(fn, call),
                      witness="sec.iterproperties() misses sec's own Properties")
            rep.check("filter_func" not in kws, "TRAV-4", "iterproperties does not filter sections", "ok",
                      "iterproperties passes its Property filter to the Section traversal", where(fn, call))
        src_t = "EACH(%s)" % unparse(call)
        ylds = [n for n in gg.nodes if n.kind == "stmt" and isinstance(n.ast, ast.Expr) and isinstance(n.ast.value, ast.Yield)]
        rep.floor("TRAV-4", len(ylds), 1, "yield statements in %s" % fn.name)
        for n in ylds:
            t = xx.text(n.ast.value.value, n) if n.ast.value.value is not None else "None"
            want = ("EACH(%s.%s)" % (src_t, elem_attr), "EACH(%s._props)" % src_t) if elem_attr else ("%s.values" % src_t, "%s.values" % src_t)
            rep.check(t in want, "TRAV-4", "%s yields %s" % (fn.name, "each property of each visited section" if elem_attr else "the value list of each property"), t,
                      "%s yields `%s`" % (fn.name, t), where(fn, n.ast))

            def cl4(leaf, br, t=t, xx=xx):
                return "FILTER" if xx.text(leaf, br) == "filter_func(%s)" % t else None
            rep.check(known(gg, n, cl4, lambda a: a["FILTER"], ["FILTER"], with_node=True), "TRAV-4", "%s yields only under its filter" % fn.name, "ok",
                      "%s yields an element without filter_func(element) being known" % fn.name, where(fn, n.ast))
            # ... and under nothing else that looks at the element: the traversal enumerates every element the caller's filter accepts
            from ..astutil import atoms_of
            others = []
            for test, pol, br in gg.dominating_conditions(n):
                if pol not in ("true", "false"):
                    continue
                for at, ap in atoms_of(xx.expand(test, br), pol == "true"):
                    if at == "filter_func(%s)" % t:
                        continue
                    if t in at or (elem_attr is None and src_t in at):
                        others.append(at if ap else "not (%s)" % at)
            rep.check(not others, "TRAV-4", "%s drops an element only when its filter rejects it" % fn.name, "no other test of the element",
                      "%s yields an element only if also %s: elements the caller's filter accepts are left out" % (fn.name, others), where(fn, n.ast),
                      witness="a Property without values: itervalues(filter_func=lambda v: True) does not yield its empty list")
        esc = [y for y in walk_no_nested(fn.node) if isinstance(y, (ast.Break, ast.Return))]
        rep.check(not esc, "TRAV-4", "%s has no early exit" % fn.name, "ok", "%s stops early (%s)" % (fn.name, [type(y).__name__ for y in esc]), fn.where)

    # ------------------------------------------------------------------ PATH-1 / PATH-2
    rep.rule("PATH-1", "Sectionable.get_path returns SEP + SEP.join(<names from the parent chain>); _get_section_by_path tests startswith(SEP), "
                       "splits on SEP and re-joins the rest with SEP; BaseProperty.get_path is <parent path> + PSEP + name; get_property_by_path "
                       "splits on PSEP and re-joins the rest with PSEP; SEP != PSEP")
    gp = S.lookup_method("get_path")
    sbp = S.lookup_method("_get_section_by_path")
    pbp = S.lookup_method("get_property_by_path")
    pgp = prog.cls("BaseProperty").lookup_method("get_path")
    for fn0 in (gp, sbp, pbp, pgp):
        if fn0 is None:
            raise AnalysisError("a path function vanished")
        rep.saw_function(fn0)
    built = _literals(gp, ("join",), ()) | _concat_literals(gp)
    parsed = _literals(sbp, ("join",), ("split", "startswith"))
    rep.check(len(built) == 1 and built == parsed, "PATH-1", "Section path separator agrees between builder and parser", "%s / %s" % (sorted(built), sorted(parsed)),
              "get_path builds with %s, _get_section_by_path parses with %s" % (sorted(built), sorted(parsed)), sbp.where,
              witness="get_section_by_path(sec.get_path()) fails for every nested section")
    pbuilt = _concat_literals(pgp) - built
    pparsed = _literals(pbp, ("join",), ("split", "partition", "rpartition"))
    rep.check(len(pbuilt) == 1 and pbuilt == pparsed, "PATH-1", "Property path separator agrees between builder and parser", "%s / %s" % (sorted(pbuilt), sorted(pparsed)),
              "BaseProperty.get_path appends with %s, get_property_by_path splits on %s" % (sorted(pbuilt), sorted(pparsed)), pbp.where,
              witness="get_property_by_path(prop.get_path()) fails")
    rep.check(not (built & pparsed), "PATH-1", "the two separators differ", "ok", "Section and Property separator coincide", pbp.where)
    # get_path walks the parent chain of self and prepends names
    gx = Expander(gp)
    gg = build_cfg(gp)
    ins = [c for c in calls_in(gp.node) if isinstance(c.func, ast.Attribute) and c.func.attr in ("insert", "append", "appendleft")]
    steps = [n for n in gg.nodes if n.kind == "stmt" and isinstance(n.ast, ast.Assign) and isinstance(n.ast.value, ast.Attribute)
             and n.ast.value.attr in ("parent", "_parent") and unparse(n.ast.value.value) == unparse(n.ast.targets[0])]
    if not steps:
        # the step through a second local: `above = node.parent ... node = above`
        def via_local(n):
            if not (n.kind == "stmt" and isinstance(n.ast, ast.Assign) and len(n.ast.targets) == 1 and isinstance(n.ast.targets[0], ast.Name)
                    and isinstance(n.ast.value, ast.Name)):
                return False
            ds = [d for d in reaching_defs(gg, n, n.ast.value.id)]
            vals = [def_value(d, n.ast.value.id) if d.kind != "entry" else None for d in ds]
            return bool(vals) and all(v is not None and unparse(v) in ("%s.parent" % n.ast.targets[0].id, "%s._parent" % n.ast.targets[0].id) for v in vals)
        steps = [n for n in gg.nodes if via_local(n)]
    front = any(c.func.attr == "insert" and c.args and isinstance(c.args[0], ast.Constant) and c.args[0].value == 0 for c in ins) or \
        any(c.func.attr == "appendleft" for c in ins) or \
        (any(c.func.attr == "append" for c in ins) and any(call_name(c) == "reversed" or (isinstance(c.func, ast.Attribute) and c.func.attr == "reverse") for c in calls_in(gp.node)))
    named = any(c.args and unparse(c.args[-1]).endswith(".name") for c in ins)
    rep.check(bool(steps) and front and named, "PATH-1", "get_path lists the names from the root down to the node", "prepend name, step to the parent",
              "get_path does not (prepend the node's name and step to its parent) - the components come out in another order or from another chain", gp.where,
              witness="paths of nested sections are reversed / truncated")

    rep.rule("PATH-2", "_get_section_by_path: every value of the step result is <self>.parent under `<first component> == '..'`, <self> under "
                       "`== '.'`, otherwise <self>._match_iterable(<self>.sections, <first component>); the recursion continues on that result "
                       "with the remaining components; an absolute path continues at <self>.document with the leading separator removed; "
                       "_match_iterable returns the first object for which _matches(obj, key) holds and raises ValueError otherwise")
    sg = build_cfg(sbp)
    sx = Expander(sbp, sg, inline=prog)
    m0, pth = sbp.params[0], sbp.params[1]
    sep = sorted(parsed)[0] if parsed else "/"

    def ct(e, n=None, x=sx, fn=sbp):
        """canonical text: locals expanded, helpers inlined, split/partition and template spellings unified; the lookup helpers are
        written without their receiver (they may be methods, static methods or module functions)"""
        t = canon_text(prog, fn, x.expand(e, n))
        return re.sub(r"\b[A-Za-z_][A-Za-z_0-9]*\._(match_iterable|matches)\(", r"_\1(", t)

    def catoms(n):
        from ..astutil import atoms_of
        out = []
        for test, pol, br in sg.dominating_conditions(n):
            if pol in ("true", "false"):
                out += [(t0, p0) for t0, p0 in atoms_of(test, pol == "true", lambda e, br=br: ct(e, br))]
        return out
    first = "%s.partition(%r)[0]" % (pth, sep)
    rest = "%s.partition(%r)[2]" % (pth, sep)
    own_child = ("_match_iterable(%s.sections, %s)" % (m0, first), "_match_iterable(%s._sections, %s)" % (m0, first))
    n_step = 0
    for n in sg.nodes:
        vals = []
        if n.kind == "stmt" and isinstance(n.ast, ast.Assign) and isinstance(n.ast.targets[0], ast.Name):
            # candidate step results: locals on which the recursion is invoked
            tgt = n.ast.targets[0].id
            if any(isinstance(c.func, ast.Attribute) and c.func.attr == "_get_section_by_path" and unparse(c.func.value) == tgt for c in calls_in(sbp.node)):
                vals.append(n.ast.value)
        for v in vals:
            n_step += 1
            t = ct(v, n)
            atoms = catoms(n)
            if ("%s.startswith(%r)" % (pth, sep), True) in atoms:
                good = t == "%s.document" % m0
            elif ("%s == '..'" % first, True) in atoms:
                good = t in ("%s.parent" % m0, "%s._parent" % m0)
            elif ("%s == '.'" % first, True) in atoms:
                good = t == m0
            else:
                good = t in own_child
            rep.check(good, "PATH-2", "path step `%s`" % t[:50], "parent / self / own child by name",
                      "under %s the path step is `%s`" % ([a0 for a0 in atoms if "==" in a0[0]], t), where(sbp, n.ast),
                      witness="'../x' or './x' or 'a/b' resolves from the wrong node")
    rep.floor("PATH-2", n_step, 3, "step assignments in _get_section_by_path")
    recs = effect_calls(prog, sbp, lambda c: isinstance(c.func, ast.Attribute) and c.func.attr == "_get_section_by_path")
    rep.floor("PATH-2", len(recs), 2, "continuations of the path lookup")
    for e0 in recs:
        c = e0.call
        recv = canon_text(prog, e0.func, c.func.value)
        arg = canon_text(prog, e0.func, c.args[0]) if c.args else "?"
        if recv == "%s.document" % m0:
            rep.check(arg == "%s[1:]" % pth, "PATH-2", "absolute path continues at the document", arg, "absolute paths continue with `%s`" % arg, where(sbp, c))
        else:
            rep.check(arg == rest, "PATH-2", "recursion on the remaining components", arg,
                      "the recursion continues with `%s`, not with the remaining components" % arg, where(sbp, c), witness="a component is skipped or repeated")
    rets = [n for n in sg.nodes if n.kind == "return" and n.ast.value is not None]
    last = [ct(n.ast.value, n) for n in rets]
    rep.check(any(t in own_child for t in last), "PATH-2",
              "a single component is looked up among the own children", "ok", "the last path component is not looked up in self.sections: %s" % last, sbp.where)
    mi = S.lookup_method("_match_iterable")
    rep.saw_function(mi)
    mg = build_cfg(mi)
    mx = Expander(mi, mg)
    mrets = [n for n in mg.nodes if n.kind == "return" and n.ast.value is not None]
    moff = 1 if mi.has_self else 0          # the helper may be a method, a static method or a module function
    it, key = mi.params[moff], mi.params[moff + 1]
    ok = bool(mrets)
    for n in mrets:
        t = mx.text(n.ast.value, n)

        def clm(leaf, br, mx=mx, mi=mi, it=it, key=key):
            return "M" if ct(leaf, br, mx, mi) == "_matches(EACH(%s), %s)" % (it, key) else None
        direct = t == "EACH(%s)" % it and known(mg, n, clm, lambda a: a["M"], ["M"], with_node=True)
        if not direct and isinstance(n.ast.value, ast.Name):
            # the sentinel idiom: `hit = <sentinel>`, the loop binds `hit = <element>` under the match and stops; `hit is <sentinel>` raises
            from ..logic import must_cross
            v = n.ast.value.id
            direct = True
            n_elem = 0
            for d in reaching_defs(mg, n, v):
                dv = def_value(d, v) if d.kind != "entry" else None
                if dv is None:
                    direct = False
                elif isinstance(dv, ast.Name) and len(mi.module.assigns.get(dv.id, [])) == 1 and unparse(mi.module.assigns[dv.id][0]) == "object()":
                    sent = dv.id

                    def excluded(src, kind, dst, v=v, sent=sent):
                        if src.kind != "branch" or kind not in ("true", "false"):
                            return False
                        tt = unparse(src.ast.test)
                        return (tt == "%s is %s" % (v, sent) and kind == "false") or (tt == "%s is not %s" % (v, sent) and kind == "true")
                    if not must_cross(mg, n, excluded, start=d):
                        direct = False
                elif mx.text(dv, d) == "EACH(%s)" % it and known(mg, d, clm, lambda a: a["M"], ["M"], with_node=True):
                    n_elem += 1
                else:
                    direct = False
            direct = direct and n_elem >= 1
        ok = ok and direct
    raises = [n for n in mg.nodes if n.kind == "raise"]
    ok = ok and len(raises) >= 1 and all(isinstance(r.ast.exc, ast.Call) and call_name(r.ast.exc) == "ValueError" for r in raises)
    rep.check(ok, "PATH-2", "_match_iterable returns the first matching element or raises ValueError", "ok",
              "_match_iterable no longer returns the first element with _matches(element, key) / raises ValueError when none matches", mi.where,
              witness="a lookup returns a non matching object or None")
    px = Expander(pbp, inline=prog)
    prets = [ct(n.value, None, px, pbp) for n in walk_no_nested(pbp.node) if isinstance(n, ast.Return) and n.value is not None]
    psep = sorted(pparsed)[0] if pparsed else ":"
    m0p, pp = pbp.params[0], pbp.params[1]
    wantp = ["_match_iterable(%s._get_section_by_path(%s.partition(%r)[0]).properties, %s.partition(%r)[2])" % (m0p, pp, psep, pp, psep)]
    rep.check(any(w in prets for w in wantp), "PATH-2", "get_property_by_path = section lookup, then the own properties by name", "ok",
              "get_property_by_path returns %s" % prets, pbp.where, witness="a Property path resolves inside another Section")

    exact_name_match(prog, rep, "PATH-2")

    # ------------------------------------------------------------------ FIND-1 / FIND-2
    rep.rule("FIND-1", "find(): one loop over <self>._sections / .sections; every returned or collected object is the loop element and every path "
                       "to it knows <self>._matches(element, key, type, ...); the collected list is what is returned at the end")
    fi = S.lookup_method("find")
    rep.saw_function(fi)
    _found_objects_rule(rep, fi, "FIND-1", relation_flags=None)
    rep.rule("FIND-2", "find_related(): an object is returned / collected only (a) as child element or result of the child's recursive find_related, "
                       "on paths that know `children`; (b) as result of <self>.parent.find(...), on paths that know `siblings` and "
                       "`<self>.parent is not None`; (c) from the parent walk, on paths that know `parents`; the recursive call passes "
                       "siblings=False and parents=False")
    fr = S.lookup_method("find_related")
    rep.saw_function(fr)
    _found_objects_rule(rep, fr, "FIND-2", relation_flags=("children", "siblings", "parents"))
    recs = [(fr, c) for c in calls_in(fr.node) if isinstance(c.func, ast.Attribute) and c.func.attr == "find_related"]
    dgen = _delegated_generator(fr)
    if dgen is not None:
        recs += [(dgen, c) for c in calls_in(dgen.node) if isinstance(c.func, ast.Attribute) and c.func.attr == "find_related"]
    rep.floor("FIND-2", len(recs), 1, "recursive find_related calls")
    cp = fr.params[1:]
    for _rf, c in recs:
        kws = dict((k.arg, unparse(k.value)) for k in c.keywords if k.arg)
        for i, a in enumerate(c.args):
            if i < len(cp):
                kws.setdefault(cp[i], unparse(a))
        rep.check(kws.get("siblings") == "False" and kws.get("parents") == "False", "FIND-2", "the recursion searches descendants only", str(kws),
                  "the recursive find_related call passes siblings=%s, parents=%s: the search leaves the requested relation" % (kws.get("siblings"), kws.get("parents")),
                  where(_rf, c), witness="find_related(children=True, siblings=False, parents=False) returns the start section's sibling or itself")
    parent_walk_rule(rep, dgen if dgen is not None else fr, "FIND-4")
    # what "exactly one object" and "exactly the tree" rest on: sibling names are unique (C04) and every object is listed by one parent (C03)
    from ..report import import_verdicts
    import_verdicts(prog, rep, "C04", ("DOM-3", "DOM-4"), "UNIQ-I",
                    "a path names one child per level: an attach site or a rename that lets two siblings share a name makes the path of the "
                    "shadowed one (and of everything below it) resolve to the other subtree")
    import_verdicts(prog, rep, "C03", ("PAIR-1", "DOM-1", "OWN-1"), "TREE-I",
                    "the traversals follow the child lists: an object that stays listed under a previous parent is yielded twice, and from a "
                    "start node it does not lie below")
    # FIND-3: a found object is never tested for truthiness (an empty Section is falsy: BaseSection defines __len__)
    from ..astutil import truthiness_tests
    for fn in (fi, fr):
        results = set()
        for n in walk_no_nested(fn.node):
            if isinstance(n, ast.Assign) and len(n.targets) == 1 and isinstance(n.targets[0], ast.Name) and isinstance(n.value, ast.Call) \
                    and isinstance(n.value.func, ast.Attribute) and n.value.func.attr in ("find", "find_related", "_match_iterable"):
                results.add(n.targets[0].id)
        bad = []
        for n in ast.walk(fn.node):
            tests = [n.test] if isinstance(n, (ast.If, ast.IfExp, ast.While)) else []
            for t0 in tests:
                for txt, pol, e0 in truthiness_tests(t0):
                    if isinstance(e0, ast.Name) and e0.id in results:
                        bad.append((n, txt))
        rep.check(not bad, "FIND-2", "%s tests found objects with `is None`" % fn.name, "no truthiness test on a search result",
                  "%s tests the truthiness of the search result %s: an empty Section (no children, no Properties) counts as not found"
                  % (fn.name, [t for _, t in bad]), where(fn, bad[0][0]) if bad else fn.where,
                  witness="find_related() misses a matching Section that has neither sub-Sections nor Properties")
    from .rules_lints import getters_store_nothing, strip_with_variable
    getters_store_nothing(prog, rep, "GET-2", ("Sectionable", "BaseSection", "BaseProperty", "BaseDocument"),
                          "`document`, `parent`, paths and child lists are read off the tree as it is now; look-ups by absolute path start at `document`")
    strip_with_variable(prog, rep, "STRIP-1", ("odml.base", "odml.section"))
    rep.assume("names are unique among siblings (C04), so the first match is the only one")
    rep.extra["evaluations"] = len(rep.items)


def _strip_lookup_receiver(t):
    """the lookup helpers written without their receiver (method, static method or module function)"""
    return re.sub(r"\b[A-Za-z_][A-Za-z_0-9]*\._(match_iterable|matches)\(", r"_\1(", t)


class _X(object):
    """Expander whose texts name the lookup helpers without receiver"""
    def __init__(self, x):
        self.x = x

    def text(self, e, n=None):
        return _strip_lookup_receiver(self.x.text(e, n))

    def expand(self, e, n=None):
        return self.x.expand(e, n)

    def __getattr__(self, name):
        return getattr(self.x, name)


def _comprehension_of_matches(e, me):
    """(element text, iterable text, condition text) when e is `(v for v in <me>._sections if <cond>)` / the list form; else None"""
    if isinstance(e, (ast.GeneratorExp, ast.ListComp)) and len(e.generators) == 1 and isinstance(e.generators[0].target, ast.Name) \
            and len(e.generators[0].ifs) == 1 and isinstance(e.elt, ast.Name) and e.elt.id == e.generators[0].target.id:
        gen = e.generators[0]
        return gen.target.id, unparse(gen.iter), _strip_lookup_receiver(unparse(gen.ifs[0]))
    return None


def _delegated_generator(f):
    """the private generator method G when every result of f is next(self.G(...), None) / list(self.G(...)) [or None]; else None"""
    from ..symtext import _is_private_helper_call
    rets = [n.value for n in walk_no_nested(f.node) if isinstance(n, ast.Return) and n.value is not None
            and not (isinstance(n.value, ast.Constant) and n.value.value is None)]
    gens = set()
    for v in rets:
        core = v.values[0] if isinstance(v, ast.BoolOp) and isinstance(v.op, ast.Or) and len(v.values) == 2 \
            and isinstance(v.values[1], ast.Constant) and v.values[1].value is None else v
        call = None
        if isinstance(core, ast.Call) and isinstance(core.func, ast.Name) and core.func.id == "next" and len(core.args) == 2 \
                and isinstance(core.args[1], ast.Constant) and core.args[1].value is None:
            call = core.args[0]
        elif isinstance(core, ast.Call) and isinstance(core.func, ast.Name) and core.func.id == "list" and len(core.args) == 1:
            call = core.args[0]
        elif isinstance(core, ast.Name):
            # a local bound once to list(self.G(...))
            defs = [st.value for st in walk_no_nested(f.node) if isinstance(st, ast.Assign) and len(st.targets) == 1
                    and isinstance(st.targets[0], ast.Name) and st.targets[0].id == core.id]
            if len(defs) == 1 and isinstance(defs[0], ast.Call) and isinstance(defs[0].func, ast.Name) and defs[0].func.id == "list" and len(defs[0].args) == 1:
                call = defs[0].args[0]
        if isinstance(call, ast.Name):
            # the generator object kept in a local: `found = self._iter(...)` ... `next(found, None)` / `list(found) or None`
            defs = [st.value for st in walk_no_nested(f.node) if isinstance(st, ast.Assign) and len(st.targets) == 1
                    and isinstance(st.targets[0], ast.Name) and st.targets[0].id == call.id]
            call = defs[0] if len(defs) == 1 else None
        if not isinstance(call, ast.Call):
            return None
        try:
            h = _is_private_helper_call(f, call)
        except Exception:
            h = None
        if h is None or not h.is_generator:
            return None
        # the flags are handed on under their own names (positionally or by keyword)
        off = 1 if h.has_self else 0
        for i, a in enumerate(call.args):
            if isinstance(a, ast.Name) and a.id in ("children", "siblings", "parents", "recursive") and (i + off >= len(h.params) or h.params[i + off] != a.id):
                return None
        for k in call.keywords:
            if isinstance(k.value, ast.Name) and k.value.id in ("children", "siblings", "parents", "recursive") and k.arg != k.value.id:
                return None
        gens.add(h.qualname)
        gen = h
    return gen if len(gens) == 1 else None


def _found_objects_rule(rep, f, rule, relation_flags, as_generator=False):
    if not as_generator:
        dg = _delegated_generator(f)
        if dg is not None:
            # find_related / find written as a lazy private generator whose first element (or whole list) is handed out: the objects
            # handed out are what the generator yields
            rep.saw_function(dg)
            return _found_objects_rule(rep, dg, rule, relation_flags, as_generator=True)
    g = build_cfg(f)
    x = _X(Expander(f, g))
    me = f.params[0]
    acc = [n.targets[0].id for n in walk_no_nested(f.node) if isinstance(n, ast.Assign) and isinstance(n.targets[0], ast.Name)
           and isinstance(n.value, ast.List) and not n.value.elts]
    results = []       # (node, expanded text of the object handed out, how)
    for n in g.nodes:
        if n.kind == "return" and n.ast.value is not None:
            t = x.text(n.ast.value, n)
            if not (isinstance(n.ast.value, ast.Constant) and n.ast.value.value is None) and not _only_acc(n.ast.value, acc):
                results.append((n, t, "return"))
        if n.kind == "stmt" and isinstance(n.ast, ast.Expr) and isinstance(n.ast.value, ast.Call) and isinstance(n.ast.value.func, ast.Attribute) \
                and n.ast.value.func.attr in ("append", "extend") and unparse(n.ast.value.func.value) in acc:
            results.append((n, x.text(n.ast.value.args[0], n), "collect"))
        if n.kind == "stmt" and isinstance(n.ast, ast.AugAssign) and unparse(n.ast.target) in acc:
            results.append((n, x.text(n.ast.value, n), "collect"))
        if as_generator and n.kind == "stmt" and isinstance(n.ast, ast.Expr) and isinstance(n.ast.value, (ast.Yield, ast.YieldFrom)) \
                and n.ast.value.value is not None:
            results.append((n, x.text(n.ast.value.value, n), "yield"))
    rep.floor(rule, len(results), 2, "objects handed out by %s" % f.name)
    child = ("EACH(%s._sections)" % me, "EACH(%s.sections)" % me)
    comp_loops = 0
    for n, t, how in results:
        # first match / all matches written as a comprehension over the own children:  next((s for s in <own> if _matches(s, ..)), None)
        # and  list(<the same>) [or None]  /  [s for s in <own> if _matches(s, ..)] [or None]
        ve = x.expand(n.ast.value.value if how == "yield" else n.ast.value if n.kind == "return" else n.ast.value.args[0] if isinstance(n.ast, ast.Expr)
                      else n.ast.value, n)
        core = ve.values[0] if isinstance(ve, ast.BoolOp) and isinstance(ve.op, ast.Or) and len(ve.values) == 2 \
            and isinstance(ve.values[1], ast.Constant) and ve.values[1].value is None else ve
        comp = None
        if isinstance(core, ast.Call) and isinstance(core.func, ast.Name) and core.func.id == "next" and len(core.args) == 2 \
                and isinstance(core.args[1], ast.Constant) and core.args[1].value is None:
            comp = _comprehension_of_matches(core.args[0], me)
        elif isinstance(core, ast.Call) and isinstance(core.func, ast.Name) and core.func.id == "list" and len(core.args) == 1:
            comp = _comprehension_of_matches(core.args[0], me)
        elif isinstance(core, ast.ListComp):
            comp = _comprehension_of_matches(core, me)
        if comp is not None and relation_flags is None:
            var, it, cond = comp
            good = it in ("%s._sections" % me, "%s.sections" % me) and (cond.startswith("_matches(%s, " % var) or cond == "_matches(%s)" % var)
            comp_loops += 1 if good else 0
            rep.check(good, rule, "%s: %s matching children (comprehension)" % (f.name, how), "own children filtered by _matches",
                      "%s hands out `%s`: not the own children filtered by _matches(child, ...)" % (f.name, t[:80]), where(f, n.ast),
                      witness="%s returns a section with another name/type" % f.name)
            continue
        def flag_known(flag):
            return known(g, n, lambda lf, br: "F" if x.text(lf, br) == flag else None, lambda a: a["F"], ["F"], with_node=True)

        def match_known(obj):
            def clf(lf, br):
                tt = x.text(lf, br)
                return "M" if tt.startswith("_matches(%s, " % obj) or tt == "_matches(%s)" % obj else None
            return known(g, n, clf, lambda a: a["M"], ["M"], with_node=True)
        if t in child:
            good = match_known(t) and (relation_flags is None or flag_known("children"))
            rep.check(good, rule, "%s: %s child element" % (f.name, how), "under _matches(child, ...)%s" % ("" if relation_flags is None else " and `children`"),
                      "%s hands out a child that is not known to match%s" % (f.name, "" if relation_flags is None else " or outside the `children` relation"),
                      where(f, n.ast), witness="%s returns a section with another name/type" % f.name)
        elif relation_flags and any(t.startswith(c0 + ".find_related(") for c0 in child):
            rep.check(flag_known("children"), rule, "%s: %s result of the child's search" % (f.name, how), "under `children`",
                      "%s hands out descendants although `children` is not known to be requested" % f.name, where(f, n.ast),
                      witness="find_related(children=False) returns a descendant")
        elif relation_flags and (t.startswith("%s.parent.find(" % me) or t.startswith("%s._parent.find(" % me)):
            def cls(lf, br):
                tt = x.text(lf, br)
                if tt == "siblings":
                    return "S"
                if tt in ("%s.parent is None" % me, "%s._parent is None" % me):
                    return "N"
                return None
            good = known(g, n, cls, lambda a: a["S"], ["S"], with_node=True) and known(g, n, cls, lambda a: not a["N"], ["N"], with_node=True)
            rep.check(good, rule, "%s: %s siblings" % (f.name, how), "under `siblings` and a parent",
                      "%s hands out siblings although `siblings` is not known to be requested (or without a parent)" % f.name, where(f, n.ast),
                      witness="find_related(siblings=False) returns a sibling")
        elif relation_flags and (t.endswith(".parent") or t.endswith("._parent") or _ancestor_local(g, n, t, me)):
            good = flag_known("parents") and match_known(t)
            if good and "." not in t:
                # a loop carried local: the match test must be about the value that is handed out
                def same_value(lf, br, t=t):
                    tt = x.text(lf, br)
                    if (tt.startswith("_matches(%s, " % t) or tt == "_matches(%s)" % t) \
                            and reaching_defs(g, br, t) == reaching_defs(g, n, t):
                        return "M"
                    return None
                good = known(g, n, same_value, lambda a: a["M"], ["M"], with_node=True)
            rep.check(good, rule, "%s: %s ancestor" % (f.name, how), "under `parents` and _matches",
                      "%s hands out an ancestor although `parents` is not known to be requested (or without a match)" % f.name, where(f, n.ast),
                      witness="find_related(parents=False) returns an ancestor")
        else:
            rep.fail(rule, "%s|%s-unclassified" % (f.short, how), "%s hands out `%s`, which is none of the enumerated result forms" % (f.name, t[:80]), where(f, n.ast))
    loops = [n for n in g.nodes if n.kind == "for" and x.text(n.ast.iter, n) in ("%s._sections" % me, "%s.sections" % me)]
    if comp_loops and not loops:
        loops = [None]          # the scan of the own children is the comprehension
    rep.check(len(loops) == 1, rule, "%s inspects the own children" % f.name, "one loop over self._sections", "%s does not loop over its own child sections" % f.name, f.where)
    finals = [n for n in g.nodes if n.kind == "return" and n.ast.value is not None and _only_acc(n.ast.value, acc)]
    rep.check(bool(finals) or not acc or as_generator, rule, "%s returns the collected matches" % f.name, "ok", "%s collects matches but never returns them" % f.name, f.where)


def _ancestor_local(g, n, name, me, depth=0):
    """every definition of the local `name` reaching n is `<me or such a local>.parent`: the value is a proper ancestor of
    <me> (or None at the root)"""
    if not name.isidentifier() or depth > 3:
        return False
    ds = reaching_defs(g, n, name)
    if not ds:
        return False
    for d in ds:
        if d.kind == "entry":
            return False
        v = def_value(d, name)
        if not (isinstance(v, ast.Attribute) and v.attr in ("parent", "_parent") and isinstance(v.value, ast.Name)):
            return False
        if v.value.id == me:
            continue
        if v.value.id == name:
            # x = x.parent: the previous value must be <me> or an ancestor itself
            for d2 in reaching_defs(g, d, name):
                v2 = def_value(d2, name) if d2.kind != "entry" else None
                if isinstance(v2, ast.Name) and v2.id == me:
                    continue
                if isinstance(v2, ast.Attribute) and v2.attr in ("parent", "_parent") and isinstance(v2.value, ast.Name) \
                        and v2.value.id in (me, name):
                    continue
                return False
            continue
        if not _ancestor_local(g, d, v.value.id, me, depth + 1):
            return False
    return True


def _produced(c, x, n):
    """expanded text of the element(s) a production call adds: append(e) -> e ; extend([e for v in it]) -> e with v := EACH(it)"""
    arg = c.args[-1] if isinstance(c, ast.Call) and c.args else getattr(c, "value", None)
    if arg is None:
        return "?"
    if isinstance(c, ast.Call) and c.func.attr in ("extend", "extendleft") or isinstance(c, ast.AugAssign):
        if isinstance(arg, (ast.ListComp, ast.GeneratorExp)) and len(arg.generators) == 1 and not arg.generators[0].ifs \
                and isinstance(arg.generators[0].target, ast.Name):
            gen = arg.generators[0]
            it, _ = strip_order_keeping(gen.iter)
            each = ast.Call(func=ast.Name(id="EACH", ctx=ast.Load()), args=[x.expand(it, n)], keywords=[])
            import copy

            class T(ast.NodeTransformer):
                def visit_Name(self, nm):
                    if nm.id == gen.target.id:
                        return copy.deepcopy(each)
                    return nm
            body = T().visit(copy.deepcopy(arg.elt))
            return unparse(x._x(body, n, 0, set([gen.target.id])))
        return "extend(%s)" % x.text(arg, n)
    return x.text(arg, n)


def _only_acc(e, acc):
    """the expression hands out the collected list (or None): `ret`, `ret or None`, `ret if ret else None`"""
    names = set(y.id for y in ast.walk(e) if isinstance(y, ast.Name))
    calls = [y for y in ast.walk(e) if isinstance(y, ast.Call)]
    return bool(names) and names <= set(acc) and not calls


def _atoms(g, node, x):
    from ..astutil import atoms_of
    out = []
    for test, pol, br in g.dominating_conditions(node):
        if pol in ("true", "false"):
            for t, p in atoms_of(test, pol == "true", lambda e, br=br: x.text(e, br)):
                out.append((t, p, br))
    return out


def _after(g, a, b):
    return g.dominates(a, b) and a.id != b.id


def _literals(f, recv_methods, arg_methods):
    """string constants used as receiver of .join / as argument of .split / .startswith in f"""
    out = set()
    for c in calls_in(f.node):
        if isinstance(c.func, ast.Attribute):
            if c.func.attr in recv_methods and isinstance(c.func.value, ast.Constant) and isinstance(c.func.value.value, str):
                out.add(c.func.value.value)
            if c.func.attr in arg_methods and c.args and isinstance(c.args[0], ast.Constant) and isinstance(c.args[0].value, str):
                out.add(c.args[0].value)
    return out


def _concat_literals(f):
    """string constants concatenated (+) into returned values of f"""
    out = set()
    for n in walk_no_nested(f.node):
        if isinstance(n, ast.Return) and n.value is not None:
            for b in ast.walk(n.value):
                if isinstance(b, ast.BinOp) and isinstance(b.op, ast.Add):
                    for side in (b.left, b.right):
                        if isinstance(side, ast.Constant) and isinstance(side.value, str):
                            out.add(side.value)
    return out


def exact_name_match(prog, rep, rule="PATH-2"):
    """_matches compares the object's name with the key by plain equality (shared with C12: a normalising comparison lets a path
    resolve to a sibling whose name differs only by case)."""
    S = prog.cls("Sectionable")
    mt = S.lookup_method("_matches")
    if mt is None:
        raise AnalysisError("Sectionable._matches vanished")
    rep.saw_function(mt)
    off = 1 if mt.has_self else 0     # _matches may be a staticmethod
    obj, key = mt.params[off], mt.params[off + 1]
    x = Expander(mt, inline=prog)
    cmps = []
    for n in ast.walk(mt.node):
        if isinstance(n, ast.Compare) and len(n.ops) == 1 and isinstance(n.ops[0], (ast.Eq, ast.NotEq)):
            sides = [x.text(n.left), x.text(n.comparators[0])]
            if any(".name" in t0 or t0 == key or t0.startswith(key + ".") for t0 in sides) and any(obj in t0 for t0 in sides):
                cmps.append(sides)
    good = bool(cmps) and all(sorted(c0) == sorted(["%s.name" % obj, key]) for c0 in cmps)
    rep.check(good, rule, "_matches compares the name with the key as it is", str(cmps),
              "_matches compares %s: a name that differs from the key (e.g. by case) is accepted" % cmps, mt.where,
              witness="sibling Sections 'Probe' and 'probe': the path of the second resolves to the first")


def parent_walk_rule(rep, fr, rule="FIND-4"):
    """find_related: without `recursive` the parent walk looks at the direct parent only"""
    from ..logic import branch_edge_entails
    rep.rule(rule, "find_related(): in every loop that climbs the tree (its body re-binds a local to <that local>.parent) no path leads from the "
                   "start of the body back to the loop test without crossing a branch edge that knows `recursive`: a search that is not "
                   "recursive never looks at a second ancestor, whether or not the first one matched")
    if "recursive" not in fr.params:
        rep.fail(rule, "find_related|recursive-parameter", "find_related has no parameter `recursive` any more", fr.where)
        return
    g = build_cfg(fr)
    loops = []
    for st in walk_no_nested(fr.node):
        if not isinstance(st, (ast.While, ast.For)):
            continue
        climbs = [a for a in ast.walk(st) if isinstance(a, (ast.Assign, ast.NamedExpr))
                  and isinstance(a.value, ast.Attribute) and a.value.attr in ("parent", "_parent") and isinstance(a.value.value, ast.Name)
                  and any(isinstance(t, ast.Name) and t.id == a.value.value.id for t in (a.targets if isinstance(a, ast.Assign) else [a.target]))]
        if climbs:
            loops.append(st)

    def clf(leaf):
        return "REC" if isinstance(leaf, ast.Name) and leaf.id == "recursive" else None
    ok_edge = branch_edge_entails(clf, lambda a: a["REC"], ["REC"])
    for st in loops:
        heads = [n for n in g.nodes if n.ast is st and n.kind in ("branch", "for", "while")]
        if not heads:
            rep.fail(rule, "find_related|walk-head", "the loop head of the parent walk was not found in the flow graph", where(fr, st))
            continue
        hd = heads[0]
        firsts = [m for k, m in hd.succ if k in ("true", "iter")]
        again = any(reach_avoiding(g, f0, hd, ok_edge, skip_kinds=("exc",)) for f0 in firsts)
        rep.check(not again, rule, "find_related: the parent walk repeats only when recursive", "every way back to the loop test knows `recursive`",
                  "the parent walk can go on to the next ancestor on a path that never asked for `recursive`: a non recursive search "
                  "returns ancestors beyond the direct parent", where(fr, st),
                  witness="find_related(type=t, children=False, siblings=False, parents=True, recursive=False, findAll=True) below two nested Sections of type t")
    rep.note("%s: %d climbing loops in find_related" % (rule, len(loops)))
