"""C06 - a refused operation changes nothing.

Decided: ATOM (validate-before-mutate) on every exceptional CFG path of every method of the
model classes (BaseObject, SmartList, Sectionable, BaseSection, BaseProperty, BaseDocument):
no visible write is still in effect when an exception escapes, with callee effects and raises
taken from interprocedural summaries, dead raises discharged by literals / kinds / established
facts, rollback stores recognised, constructors treated as building a fresh object until it is
published into a parent; HANDLER-1: every rollback handler catches all exceptions.
NOT decided: exceptions outside the raise vocabulary (explicit raises of the package + reviewed
library raises on caller data): MemoryError, AttributeError/TypeError from foreign objects, lxml
internals; equality of the whole object graph (implied by "no visible write", not compared).
"""
import ast

from .. import analysis
from ..astutil import where
from ..atom import Atom
from ..cfg import handler_classes
from ..contracts import ATOM_CONTRACTS
from ..model import AnalysisError, ClassInfo, unparse, walk_no_nested

DECIDED = [
    "OBL-MERGE the checking pass of merge visits what the merging pass visits (obligation of the merge contracts, shared with C13)",
    "ATOM on every exceptional path of every method of the model classes: no visible write precedes an escaping raise (rollback stores cancel)",
    "PUBLISH constructors: nothing can raise after the new object was published into a parent",
    "HANDLER-1 every handler that rolls a field back catches all exceptions",
    "OBL-MERGE also imports FWD-1 of C13: the nested merge runs with the caller's strict flag (premise of the MERGE-REC contract)",
]
NOT_DECIDED = ["exceptions outside the raise vocabulary (MemoryError, AttributeError/TypeError caused by foreign objects, library internals)",
               "whole-graph equality (implied by 'no visible write', not compared)"]

MODEL_CLASSES = ("BaseObject", "SmartList", "Sectionable", "BaseSection", "BaseProperty", "BaseDocument")
EXCLUDED_EXC = ("RuntimeError",)      # the internal assertion `cannot unmerge myself?`


def model_functions(prog):
    out = []
    for cname in MODEL_CLASSES:
        cls = prog.cls(cname)
        for f in cls.methods.values():
            out.append(f)
        for acc in cls.props.values():
            for kind, f in acc.items():
                if f.cls is cls:
                    out.append(f)
    return sorted(set(out), key=lambda f: f.qualname)


def run_atom(prog, rep, funcs, rule="ATOM", floor_funcs=0, floor_paths=0):
    an = analysis.get(prog)
    an.note_coverage(rep)
    A = Atom(an, ATOM_CONTRACTS, exclude=EXCLUDED_EXC)
    total_paths = 0
    n_clean = 0
    for f in funcs:
        rep.saw_function(f)
        r = A.analyse(f)
        total_paths += r["paths"]
        own = [fd for fd in r["findings"] if fd.kind == "own"]
        if f.name.startswith("_") and not f.name.startswith("__") and f.kind in ("method", "function", "static", "classmethod"):
            # a private helper is not an operation of the API: what it leaves behind is judged at its public callers, where its
            # writes and late refusals arrive through the summaries
            own = []
        groups = {}
        for fd in own:
            groups.setdefault("%s|%s" % (fd.func.short, fd.via()), []).append(fd)
        if not groups:
            n_clean += 1
            rep.ok(rule, "%s: %d exceptional paths, no write survives a refusal" % (f.short, r["paths"]),
                   "inherited from callees (reported there): %d" % len([x for x in r["findings"] if x.kind != "own"]), f.where)
        for key, fds in sorted(groups.items()):
            fd = fds[0]
            origins = sorted(set("%s@%s" % (x.site.exc, x.site.origin[0]) for x in fds))
            w = fd.writes[0]
            sig = {"func": f.short, "write": "%s.%s:%s" % (w.origin[0] + ("/" + w.origin[1] if w.origin[1] else ""), w.field, w.op),
                   "exc": sorted(set(x.site.exc for x in fds))}
            rep.fail(rule, key,
                     "%s: after the write %s.%s (%s, `%s` in %s) the call `%s` can still refuse with %s  [path %s]"
                     % (f.short, w.origin[0] + ("/" + w.origin[1] if w.origin[1] else ""), w.field, w.op, w.text[:50], w.func,
                        fd.via(), ", ".join(origins[:6]), fd.path_lines[-90:]),
                     f.where, witness="make `%s` fail in that state: the exception leaves %s changed" % (fd.via(), w.field), signature=sig)
    rep.analysed["paths"] += total_paths
    rep.trusted += [{"id": c["id"], "reason": c["reason"], "obligations": c["obligations"], "derived": c["derived"]}
                    for c in ATOM_CONTRACTS]
    hits = {}
    for fn, site, cid in A.R.contract_hits:
        hits.setdefault(cid, set()).add("%s <- %s@%s" % (fn, site.exc, site.origin[0]))
    rep.extra["contract_uses"] = dict((k, sorted(v)[:12]) for k, v in hits.items())
    rep.extra["raises_discharged"] = len(A.R.discharged)
    rep.extra["discharge_samples"] = ["%s: %s@%s - %s" % (a, s.exc, s.origin[0], why) for a, s, why in A.R.discharged[:12]]
    if floor_funcs:
        rep.floor(rule, len(funcs), floor_funcs, "functions analysed")
    if floor_paths:
        rep.floor(rule, total_paths, floor_paths, "exceptional paths replayed")
    return A


def handler_rule(prog, rep, funcs, rule="HANDLER-1"):
    rep.rule(rule, "a try statement whose handler stores back a value that was read from the same field before the try (rollback) "
                   "must catch every exception (bare except / Exception / BaseException): conversion code can raise anything "
                   "for foreign objects, and a narrower handler leaves the half applied change in place")
    n = 0
    for f in funcs:
        order = dict((id(x), i) for i, x in enumerate(ast.walk(f.node)))       # (line numbers coincide where a helper was put in)
        for node in walk_no_nested(f.node):
            if not isinstance(node, ast.Try):
                continue
            for h in node.handlers:
                restores = []
                for st in ast.walk(h):
                    if isinstance(st, ast.Assign) and isinstance(st.targets[0], ast.Attribute) and isinstance(st.value, ast.Name):
                        # the value was saved from the same field before the try
                        for prev in walk_no_nested(f.node):
                            if isinstance(prev, ast.Assign) and isinstance(prev.targets[0], ast.Name) and prev.targets[0].id == st.value.id \
                                    and isinstance(prev.value, ast.Attribute) and unparse(prev.value) == unparse(st.targets[0]) \
                                    and (prev.lineno < node.lineno or (prev.lineno == node.lineno and not any(prev is y for y in ast.walk(node))
                                                                         and order.get(id(prev), 0) < order.get(id(h), 0))):
                                restores.append(st)
                if not restores:
                    continue
                n += 1
                cs = handler_classes(h)
                good = any(c in ("*", "Exception", "BaseException") for c in cs)
                rep.check(good, rule, "%s: rollback handler `except %s`" % (f.short, ", ".join(cs)), "catches everything",
                          "the handler that restores %s catches only %s: any other exception leaves the change applied"
                          % (unparse(restores[0].targets[0]), cs), where(f, h),
                          witness="dtype = '2-tuple' on a Property holding ints: AttributeError escapes, dtype stays changed")
    return n


def run(prog, rep):
    rep.decided = DECIDED
    rep.not_decided = NOT_DECIDED
    rep.rule("ATOM", "for every method f of the model classes and every CFG path of f that ends in the exceptional exit (loops "
                     "unrolled twice): replay the events in evaluation order; visible writes = stores/list mutations whose receiver "
                     "does not originate from an object created in this activation (constructors: self is fresh until published); "
                     "raises = explicit raise statements, reviewed library raises on caller data, callee summaries after discharge; "
                     "a callee contributes [its live raises][its writes][its late raises]; violation = a visible, not rolled back "
                     "write is in effect when the exception escapes. Reported per (function, failing call)")
    funcs = model_functions(prog)
    A = run_atom(prog, rep, funcs, "ATOM", floor_funcs=120, floor_paths=800)
    n = handler_rule(prog, rep, funcs, "HANDLER-1")
    rep.floor("HANDLER-1", n, 1, "rollback handlers")
    # obligations of the contracts that are cheap to re-check here (the others are rules of C03/C04/C05/C11/C13)
    rep.rule("OBL-MERGE", "obligation of MERGE-REC / MERGE-EXTEND: BaseSection.merge_check walks every child pair that merge() will visit, on "
                          "every normal path and whatever `strict` is (rule SIB-2 of C13)")
    from .c13 import sib2_section_rule
    sib2_section_rule(prog, rep, "OBL-MERGE")
    from ..report import import_verdicts
    import_verdicts(prog, rep, "C13", ("FWD-1",), "OBL-MERGE",
                    "MERGE-REC treats the refusals of the nested merge as already checked by the outer merge_check: that holds only when the nested "
                    "merge runs with the caller's strict flag; a dropped or changed flag lets the nested level refuse after the outer level wrote")
    import_verdicts(prog, rep, "C13", ("SIB-2",), "OBL-MERGE",
                    "Property.merge writes after merge_check passed: every refusal of the later steps - the conversion of the source values in "
                    "extend() among them - has to be raised by merge_check first, for every destination")
    import_verdicts(prog, rep, "C03", ("PAIR-1",), "TREE-I",
                    "a mutator that can leave a child outside its parent's list while the child still points to the parent (PAIR-1 follows every "
                    "path, also the one on which a later list operation refuses its argument) has changed the tree although it raised")
    rep.assume("the tree invariant of C03 and the dtype conformance of C05 hold in the pre-state (used by the derived contracts)")
    rep.assume("raise vocabulary: explicit raise statements + LIB_RAISES table (odmlsa/raises.py); RuntimeError('cannot unmerge myself?') is an internal assertion and excluded")
