"""C09 - cardinalities: normal form, exact reports, never enforced, persisted.

Decided (exhaustively over order types): format_cardinality yields None, a normal-form
pair or ValueError; _cardinality_validation reports iff the child count lies outside
[min, max]; the three cardinality fields are stored only as format_cardinality(v)
(so a refused assignment keeps the previous setting); nothing but getters, the three
rules and the serialisers reads a cardinality (never enforced); both parsers invert
what the writers emit; the cardinalities are format keys, readable and constructor
keywords (persisted).
NOT decided: nothing of the statement, except that the child count used by the rules
is len() of the live list.
"""
import ast

from ..astutil import calls_in, call_name, where
from ..facts import instance_fields
from .. import analysis
from ..model import AnalysisError, FuncInfo, unparse, walk_no_nested, canonical_name
from ..symtext import Expander, effect_calls
from ..raises import Raises
from . import common_tables as ct
from .rules_card import format_cardinality_rule, cardinality_validation_rule, cardinality_roundtrip

DECIDED = [
    "ORD-1 format_cardinality: normal form or ValueError over the full order-type grid of settings",
    "PROV-5 the three cardinality fields are stored only as format_cardinality(v) (or None in __init__); refused assignment keeps the old value",
    "ORD-2 _cardinality_validation reports iff count < min or count > max; rule functions pass matching field/attribute/rank/id",
    "ENF-1 no code but getters, the three rules and the serialisers reads a cardinality; the setters' re-validation cannot raise",
    "RESET-1 (shared with C19) a Validation object that is run again starts from an empty issue list: the warnings reported are those of the current state",
    "ORD-3 both parse_cardinality functions invert the writers' rendering for every normal-form pair",
    "TAB-5 cardinalities are format keys, readable attributes and constructor keywords",
    'ENF-2 the Section re-validation helpers print an issue only on paths that know it belongs to the Section itself',
    'LOOP-1 (imported from C02 and C01) no reader container survives from one sibling element to the next: a cardinality is read from the element it belongs to',
]
NOT_DECIDED = ["that len() of the live child list is the child count meant by the statement"]

FIELDS = {"BaseProperty": {"_val_cardinality": ("val_cardinality", "_values_cardinality_validation", "property_values_cardinality", "property")},
          "BaseSection": {"_sec_cardinality": ("sec_cardinality", "_sections_cardinality_validation", "section_sections_cardinality", "section"),
                          "_prop_cardinality": ("prop_cardinality", "_properties_cardinality_validation", "section_properties_cardinality", "section")}}


def run(prog, rep):
    rep.decided = DECIDED
    rep.not_decided = NOT_DECIDED
    format_cardinality_rule(prog, rep)
    cardinality_validation_rule(prog, rep)
    from .c19 import reset1_rule
    reset1_rule(prog, rep, "RESET-1")
    cardinality_roundtrip(prog, rep, which=("xml", "dict"))
    tabs, _ = ct.tab5_format_vs_class(prog, rep)

    # ---------------------------------------------------------------- PROV-5
    rep.rule("PROV-5", "every store to _val_cardinality/_sec_cardinality/_prop_cardinality is `format_cardinality(<value>)` "
                       "(in the property setter: the call raises before the store happens) or the constant None in __init__; "
                       "no other function writes these fields; set_*_cardinality assigns (min, max) through the setter")
    n_stores = 0
    for cname, fields in sorted(FIELDS.items()):
        cls = prog.cls(cname)
        stores = instance_fields(cls)
        for field, (prop, helper, rulefn, kind) in sorted(fields.items()):
            sites = stores.get(field, [])
            rep.floor("PROV-5", len(sites), 2, "stores to %s.%s" % (cname, field))
            for f, st in sites:
                n_stores += 1
                v = st.value if isinstance(st, ast.Assign) else None
                if f.name == "__init__":
                    good = isinstance(v, ast.Constant) and v.value is None
                    exp = "None in the constructor"
                elif f.kind == "setter" and f.name == prop:
                    vx = Expander(f).expand(v) if v is not None else None
                    good = isinstance(vx, ast.Call) and canonical_name(prog, f, vx.func) == "util.format_cardinality" and len(vx.args) == 1 \
                        and unparse(vx.args[0]) == f.params[1]
                    exp = "odml.util.format_cardinality(%s)" % f.params[1]
                else:
                    good = False
                    exp = "no store outside __init__ and the %s setter" % prop
                rep.check(good, "PROV-5", "%s: %s = %s" % (f.short, field, unparse(v) if v is not None else "?"), exp,
                          "%s is stored as %s in %s; expected %s" % (field, unparse(v) if v is not None else "?", f.short, exp),
                          where(f, st), witness="an invalid setting is stored, or a refused one overwrites the previous value")
            # foreign writers (other classes / modules writing obj._x_cardinality)
            for f in prog.all_functions():
                for node in walk_no_nested(f.node):
                    if isinstance(node, (ast.Assign, ast.AugAssign)):
                        tgts = node.targets if isinstance(node, ast.Assign) else [node.target]
                        for t in tgts:
                            if isinstance(t, ast.Attribute) and t.attr == field and not \
                                    (isinstance(t.value, ast.Name) and f.cls is not None and f.cls.is_subclass_of(cls)
                                     and t.value.id == f.params[0]):
                                rep.fail("PROV-5", "%s|foreign-store|%s" % (f.short, field),
                                         "%s writes %s of another object directly" % (f.short, field), where(f, node))
            # resolve format_cardinality to odml.util
            setter = cls.lookup_prop(prop, "setter")
            if setter is None:
                raise AnalysisError("%s.%s setter vanished" % (cname, prop))
            rep.saw_function(setter)
            # the store is the first statement that has an effect (nothing written before the call can raise)
            body = [s for s in setter.node.body if not (isinstance(s, ast.Expr) and isinstance(s.value, ast.Constant))]
            pre = []
            for st0 in body:
                if isinstance(st0, ast.Assign) and any(isinstance(t, ast.Attribute) and t.attr == field for t in st0.targets):
                    break
                pre.append(st0)
            first_ok = len(pre) < len(body) and all(isinstance(st0, ast.Assign) and all(isinstance(t, ast.Name) for t in st0.targets) for st0 in pre)
            rep.check(first_ok, "PROV-5", "%s.%s setter validates before any other effect" % (cname, prop),
                      "only local assignments precede the validated store", "statements with effects precede the validated store in the setter: "
                      "a refused assignment may leave partial effects", setter.where)
    # set_*_cardinality helpers
    for cname, meth, prop in (("BaseProperty", "set_values_cardinality", "val_cardinality"),
                              ("BaseSection", "set_sections_cardinality", "sec_cardinality"),
                              ("BaseSection", "set_properties_cardinality", "prop_cardinality")):
        f = prog.cls(cname).lookup_method(meth)
        if f is None:
            raise AnalysisError("%s.%s vanished" % (cname, meth))
        rep.saw_function(f)
        body = [s for s in f.node.body if not (isinstance(s, ast.Expr) and isinstance(s.value, ast.Constant))]
        good = len(body) == 1 and isinstance(body[0], ast.Assign) and unparse(body[0].targets[0]) == "%s.%s" % (f.params[0], prop) \
            and isinstance(body[0].value, ast.Tuple) and [unparse(e) for e in body[0].value.elts] == f.params[1:3]
        rep.check(good, "PROV-5", "%s.%s assigns (min, max) through the setter" % (cname, meth), "self.%s = (%s, %s)" % (prop, f.params[1], f.params[2]),
                  "%s does not simply assign (min_val, max_val) to self.%s" % (meth, prop), f.where,
                  witness="set_..._cardinality(1, 3) stores another pair")

    # ----------------------------------------------------------------- ENF-1
    rep.rule("ENF-1", "a cardinality (field or property) is read only by its getter, the matching validation rule, "
                      "the private re-validation helper and the serialisers' generic getattr loops; the re-validation "
                      "helpers contain no raise and only print; hence no edit is ever refused because of a cardinality")
    names = set()
    for cname, fields in FIELDS.items():
        for field, (prop, helper, rulefn, kind) in fields.items():
            names |= {field, prop}
    allowed_readers = set()
    for cname, fields in FIELDS.items():
        cls = prog.cls(cname)
        for field, (prop, helper, rulefn, kind) in fields.items():
            g = cls.lookup_prop(prop, "getter")
            if g is not None:
                allowed_readers.add(g.qualname)
            allowed_readers.add("odml.validation.%s" % rulefn)
    readers = []
    for f in prog.all_functions():
        for node in walk_no_nested(f.node):
            if isinstance(node, ast.Attribute) and node.attr in names and isinstance(node.ctx, ast.Load):
                readers.append((f, node))
    rep.floor("ENF-1", len(readers), 6, "reads of cardinality attributes")
    for f, node in readers:
        rep.check(f.qualname in allowed_readers, "ENF-1", "%s reads %s" % (f.short, node.attr), "getter or validation rule",
                  "%s reads the cardinality %s: editing operations must not depend on it" % (f.short, unparse(node)), where(f, node),
                  witness="an append/remove is refused or altered because a cardinality is set")
    an = analysis.get(prog)
    S = an.s
    R = Raises(an)
    for cname, fields in sorted(FIELDS.items()):
        cls = prog.cls(cname)
        for field, (prop, helper, rulefn, kind) in sorted(fields.items()):
            h = cls.lookup_method(helper)
            setter = cls.lookup_prop(prop, "setter")
            if h is None:
                raise AnalysisError("%s.%s vanished" % (cname, helper))
            rep.saw_function(h)
            sites = R.summary(h)
            rep.check(not sites, "ENF-1", "%s.%s cannot raise" % (cname, helper), "empty raise summary (through all resolved callees)",
                      "the re-validation helper can raise %s: setting a cardinality / editing values can be refused" % sites[:2], h.where)
            ws = [w for w in S.visible_writes(h) if w.origin[0] == "P0"]
            rep.check(not ws, "ENF-1", "%s.%s only validates and prints" % (cname, helper), "no write to the object or anything reachable from it",
                      "the helper modifies the object: %s" % ["%s.%s in %s" % (w.origin, w.field, w.func) for w in ws[:3]], h.where)
            # which rule is registered: follow private helpers of the same class one level, substituting the actual arguments
            regs = [(e.call.args[0], e.call.args[1]) for e in
                    effect_calls(prog, h, lambda c: isinstance(c.func, ast.Attribute) and c.func.attr == "register_custom_handler" and len(c.args) == 2)]
            good = len(regs) == 1 and isinstance(regs[0][0], ast.Constant) and regs[0][0].value == kind \
                and canonical_name(prog, h, regs[0][1]) == "validation.%s" % rulefn
            rep.check(good, "ENF-1", "%s.%s registers %s for '%s'" % (cname, helper, rulefn, kind), "ok",
                      "the helper registers %s" % [(unparse(x), unparse(y)) for x, y in regs], h.where,
                      witness="the warning printed on assignment belongs to another rule or never appears")
            # setter: nothing that runs after the store can raise (a refused setting must not be half applied, an accepted one not refused)
            g = S.cfg(setter)
            st_nodes = [n for n in g.nodes if n.kind == "stmt" and isinstance(n.ast, ast.Assign)
                        and isinstance(n.ast.targets[0], ast.Attribute) and n.ast.targets[0].attr == field]
            late = []
            for stn in st_nodes:
                for nid in g._closure(stn, lambda x: [m for k, m in x.succ if k not in ("exc",)]):
                    n2 = [m for m in g.nodes if m.id == nid][0]
                    if n2.id == stn.id:
                        continue
                    for root in n2.expr_roots():
                        for c in calls_in(root):
                            tgs = S.targets(c, setter)
                            if not tgs and call_name(c) not in ("print",):
                                late.append("unresolved call %s" % unparse(c)[:40])
                            for tg in tgs:
                                if isinstance(tg, FuncInfo) and R.summary(tg):
                                    late.append("%s can raise %s" % (tg.short, R.summary(tg)[0]))
            rep.check(bool(st_nodes) and not late, "ENF-1", "%s.%s setter: nothing after the store can raise" % (cname, prop), "ok",
                      "after storing the cardinality the setter can still fail: %s" % late[:3], setter.where)
    enf2_rule(prog, rep)
    init_cardinalities_rule(prog, rep)
    from ..report import import_verdicts
    import_verdicts(prog, rep, "C02", ("LOOP-1",), "LOOP-1",
                    "the dictionary reader builds the keyword arguments of every Section / Property from the keys of that element alone: a container that "
                    "survives from one sibling to the next hands the cardinality of the previous sibling to an element that has none")
    import_verdicts(prog, rep, "C01", ("LOOP-1",), "LOOP-1",
                    "the XML reader collects the attributes of an element from the child nodes of that element alone")
    rep.extra["exhaustive"] = True
    from .rules_lints import no_shared_fromkeys, enum_values_distinct
    no_shared_fromkeys(prog, rep, "KEYS-1", ("odml.validation", "odml.section", "odml.property"))
    enum_values_distinct(prog, rep, "ENUM-2", "IssueID", 10)
    rep.assume("ints behave like their order type: the functions only compare, type-test and render them")


def _same_object_atom(text, pol):
    """is (text, polarity) the statement that the issue's object is `self`:  self.id == X.obj.id / X.obj is self / X.obj == self (or the negated forms, false)"""
    try:
        e = ast.parse(text, mode="eval").body
    except SyntaxError:
        return False
    if not (isinstance(e, ast.Compare) and len(e.ops) == 1):
        return False
    op = e.ops[0]
    if isinstance(op, (ast.Eq, ast.Is)):
        want = True
    elif isinstance(op, (ast.NotEq, ast.IsNot)):
        want = False
    else:
        return False
    if pol != want:
        return False
    a, b = unparse(e.left), unparse(e.comparators[0])
    for l, r in ((a, b), (b, a)):
        if l == "self.id" and r.endswith(".obj.id") and not isinstance(op, (ast.Is, ast.IsNot)):
            return True
        if l == "self" and r.endswith(".obj"):
            return True
    return False


def enf2_rule(prog, rep, rule="ENF-2"):
    """the warnings printed when a Section cardinality is assigned are those of that Section"""
    from ..astutil import atoms_of
    rep.rule(rule, "the Section re-validation helpers run the rule over the Section and all its descendants; every issue they print is printed on "
                   "paths that know the issue belongs to the Section itself (self.id == <issue>.obj.id, <issue>.obj is self, or a filter of the "
                   "iterated list saying so): a warning of a descendant is not reported for the ancestor whose cardinality was set")
    n = 0
    for field, (prop, helper, rulefn, kind) in sorted(FIELDS["BaseSection"].items()):
        h = prog.cls("BaseSection").lookup_method(helper)
        if h is None:
            raise AnalysisError("BaseSection.%s vanished" % helper)
        prints = effect_calls(prog, h, lambda c: isinstance(c.func, ast.Name) and c.func.id == "print")
        for e in prints:
            n += 1
            guards = list(e.guards())
            # a filter on the iterated list counts as a guard of the loop body
            g = e.x.g
            from ..dataflow import reaching_defs, def_value
            for hd in g.nodes:
                if not (hd.kind == "for" and g.dominates(hd, e.inner) and isinstance(hd.ast.target, ast.Name)):
                    continue
                it = hd.ast.iter
                if isinstance(it, ast.Name):
                    # the filtered sequence may be kept in a local first
                    ds = [d for d in reaching_defs(g, hd, it.id) if d.id != hd.id]
                    if len(ds) == 1 and ds[0].kind != "entry" and def_value(ds[0], it.id) is not None:
                        it = def_value(ds[0], it.id)
                if isinstance(it, ast.Call) and isinstance(it.func, ast.Name) and it.func.id in ("list", "tuple") and len(it.args) == 1:
                    it = it.args[0]
                if isinstance(it, (ast.ListComp, ast.GeneratorExp)) \
                        and len(it.generators) == 1 and isinstance(it.elt, ast.Name):
                    gen = it.generators[0]
                    if isinstance(gen.target, ast.Name) and gen.target.id == it.elt.id:
                        for cond in gen.ifs:
                            for t, p in atoms_of(e.x.expand(cond, hd), True):
                                guards.append((t, p))
            good = any(_same_object_atom(t, p) for t, p in guards)
            rep.check(good, rule, "%s: %s" % (h.short, unparse(e.raw)[:50]), "printed for the Section itself only",
                      "%s prints an issue without knowing that it belongs to this Section (known here: %s): warnings of descendant Sections "
                      "are reported when the cardinality of an ancestor is set" % (e.func.short, [t for t, p in guards][:4]), where(e.func, e.raw),
                      witness="a sub-Section with a violated cardinality; assign any cardinality to its parent")
    rep.floor(rule, n, 1, "issue prints in the Section re-validation helpers")


def init_cardinalities_rule(prog, rep, rule="INIT-1"):
    """the constructors hand every cardinality they are given to its setter"""
    from ..cfg import build_cfg
    from ..logic import reach_avoiding, branch_edge_entails
    rep.rule(rule, "BaseSection.__init__ / BaseProperty.__init__: for each cardinality parameter, every normal path through the constructor either "
                   "assigns it through the setter (self.<x>_cardinality = <parameter>) or crosses a branch edge that knows the parameter itself to be "
                   "unset - never a path that skips it because of another argument (an `elif` after the test of a different cardinality): the "
                   "readers build every object with all its attributes in one constructor call")
    n = 0
    for cname, fields in sorted(FIELDS.items()):
        init = prog.cls(cname).lookup_method("__init__")
        if init is None:
            raise AnalysisError("%s.__init__ vanished" % cname)
        g = build_cfg(init)
        me = init.params[0]
        for field, (prop, helper, rulefn, kind) in sorted(fields.items()):
            if prop not in init.params:
                rep.fail(rule, "%s.__init__|%s" % (cname, prop), "the constructor has no parameter %s" % prop, init.where)
                continue
            n += 1
            stores = set(x.id for x in g.nodes if x.kind == "stmt" and isinstance(x.ast, ast.Assign)
                         and any(unparse(t) in ("%s.%s" % (me, prop),) for t in x.ast.targets) and unparse(x.ast.value) == prop)
            unset = branch_edge_entails(lambda lf, prop=prop: "P" if (isinstance(lf, ast.Name) and lf.id == prop) else
                                        "N" if (isinstance(lf, ast.Compare) and unparse(lf) == "%s is None" % prop) else None,
                                        lambda a: (not a.get("P", True)) or a.get("N", False), ["P", "N"])
            skipped = any(reach_avoiding(g, g.entry, p, lambda s0, k0, d0: d0.id in stores or unset(s0, k0, d0), skip_kinds=("exc",))
                          for k0, p in g.exit.pred if k0 != "exc")
            rep.check(bool(stores) and not skipped, rule, "%s.__init__ passes %s to its setter" % (cname, prop), "on every path (or the parameter is unset)",
                      "%s.__init__ can finish without assigning %s although the caller gave one: a Section / Property created with several "
                      "attributes at once (every reader does that) loses it" % (cname, prop), init.where,
                      witness="Section(sec_cardinality=(1, 2), prop_cardinality=(0, 1)).prop_cardinality is None; the same after any load")
    rep.floor(rule, n, 3, "cardinality parameters of the constructors")
